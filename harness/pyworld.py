"""Real-Python execution of query expressions on in-memory data: the CPython twin of the Lean
`driverWorld` (lean/Fadl/ValCodec.lean).  Records are objects whose attributes are their fields;
`rec.f()` returns the field, `rec.f(a0, a1, k=..)` on an integer field returns
f + sum((i+2)*a_i) + sum((j+11)*k_j); functions: abs, anything else |name| + sum((i+3)*a_i) + sum((j+13)*k_j).
Sequences are `Seq` (a list) with the operators as methods; the same operators exist as functions."""
from __future__ import annotations

from typing import Any


class _Deferred:
    "an element of a Select that has not been computed yet (deferred execution); a failure is raised when it is needed"
    __slots__ = ("f", "done", "val", "exc")

    def __init__(self, f):
        self.f, self.done, self.val, self.exc = f, False, None, None

    def force(self):
        if not self.done:
            try:
                self.val = self.f()
            except Exception as e:  # noqa: BLE001
                self.exc = e
            self.done = True
        if self.exc is not None:
            raise self.exc
        return self.val


def _force(x):
    return x.force() if isinstance(x, _Deferred) else x


DEFERRED = [False]


class deferred:
    "context manager: inside it `Select` is deferred (see Seq)"

    def __enter__(self):
        self.old = DEFERRED[0]
        DEFERRED[0] = True

    def __exit__(self, *a):
        DEFERRED[0] = self.old


class Seq(list):
    """Sequences of the world.  By default every operator is strict (Python lists).  Inside `with deferred():` `Select`
    is deferred, as in a LINQ backend and as in Python's own generator expressions (Fadl/SemLazy.lean): its elements
    are computed when something looks at them - `First`, indexing, iteration, `Where` / `SelectMany` over it,
    aggregation, counting, comparison, conversion to plain data - and an element that is never looked at never fails.
    The strict mode is the default because a deferred element evaluated later sees Python's late-bound loop variables
    of the comprehension it was created in; the deferred mode is used to re-examine a query that failed under strict
    lists where its original (with a real, lazy generator expression) did not."""

    def __iter__(self):
        return (_force(x) for x in list.__iter__(self))

    def __getitem__(self, i):
        r = list.__getitem__(self, i)
        return Seq(r) if isinstance(i, slice) else _force(r)

    def __eq__(self, other):
        return isinstance(other, list) and list(iter(self)) == list(iter(other))

    def __ne__(self, other):
        return not self.__eq__(other)

    __hash__ = None

    def __add__(self, other):
        return Seq(list(list.__iter__(self)) + list(list.__iter__(other) if isinstance(other, Seq) else other))

    def __contains__(self, v):
        return any(x == v for x in self)

    def __repr__(self):
        return "Seq(" + repr(list(iter(self))) + ")"

    def Select(self, f):
        if not DEFERRED[0]:
            return Seq(f(x) for x in self)
        return Seq(_Deferred(lambda x=x: f(_force(x))) for x in list.__iter__(self))

    def Where(self, f):
        return Seq(x for x in self if f(x))

    def SelectMany(self, f):
        out = Seq()
        for x in self:
            r = f(x)
            if not isinstance(r, list):
                raise TypeError("SelectMany: sequence expected")
            list.extend(out, list.__iter__(r))
        return out

    def First(self):
        return self[0]

    def Count(self):
        return len(list(iter(self)))  # counting looks at every element (Fadl/SemLazy.lean: Count forces all)

    def Sum(self):
        return sum(self)

    def Max(self):
        return max([0] + list(self))

    def Min(self):
        return min([0] + list(self))

    def Aggregate(self, init, f):
        acc = init
        for x in self:
            acc = f(acc, x)
        return acc

    def __call__(self, *a, **k):
        return self


class IntField(int):
    def __call__(self, *args, **kw):
        if not args and not kw:
            return int(self)
        r = int(self)
        for i, a in enumerate(args):
            r += (i + 2) * _as_int(a)
        for j, v in enumerate(kw.values()):
            r += (j + 11) * _as_int(v)
        return r


def _as_int(a):
    if isinstance(a, bool):
        return int(a)
    if not isinstance(a, int):
        raise TypeError("non-integer argument")
    return int(a)


class Rec:
    def __init__(self, cls, fields):
        object.__setattr__(self, "_cls", cls)
        object.__setattr__(self, "_fields", fields)

    def __getattr__(self, name):
        f = object.__getattribute__(self, "_fields")
        if name not in f:
            raise AttributeError(name)
        v = f[name]
        if isinstance(v, bool):
            return v
        if isinstance(v, int):
            return IntField(v)
        return v

    def __eq__(self, other):
        return isinstance(other, Rec) and self._cls == other._cls and self._fields == other._fields

    def __hash__(self):
        return hash(self._cls)


def to_world(v):
    "generated data (gen/data.py) -> world objects"
    if isinstance(v, dict) and "__cls__" in v:
        return Rec(v["__cls__"], {k: to_world(x) for k, x in v.items() if k != "__cls__"})
    if isinstance(v, list):
        return Seq(to_world(x) for x in v)
    return v


def from_world(v):
    "world objects -> plain data (for val_sexpr / comparison)"
    if isinstance(v, Rec):
        return {"__cls__": v._cls, **{k: from_world(x) for k, x in v._fields.items()}}
    if isinstance(v, bool):
        return v
    if isinstance(v, int):
        return int(v)
    if isinstance(v, Seq) or isinstance(v, list):
        return [from_world(x) for x in v]
    if isinstance(v, tuple):
        return tuple(from_world(x) for x in v)
    if isinstance(v, dict):
        return {from_world(k): from_world(x) for k, x in v.items()}
    if hasattr(v, "__dataclass_fields__") or hasattr(v, "_asdict"):
        return v
    import types

    if isinstance(v, types.GeneratorType):
        return [from_world(x) for x in v]
    if callable(v) and hasattr(v, "_world_name"):
        return "<function " + v._world_name + " of the world>"
    if isinstance(v, types.MethodType):
        # a bound method as a VALUE (`seq.Where` not called): two evaluations make two method objects of two equal
        # receivers - compared by name and receiver value, not by identity
        return ("<bound method>", getattr(v.__func__, "__qualname__", "?"), from_world(v.__self__))
    return v


class AttrDict(dict):
    "dictionaries produced by lowered data-class constructors are read with attribute syntax"

    def __getattr__(self, k):
        try:
            return self[k]
        except KeyError:
            raise AttributeError(k)


def _generic(name):
    def f(*args, **kw):
        r = len(name)
        for i, a in enumerate(args):
            r += (i + 3) * _as_int(a)
        for j, v in enumerate(kw.values()):
            r += (j + 13) * _as_int(v)
        return r

    return f


def _seq(s):
    if not isinstance(s, list):
        raise TypeError("sequence expected")
    return s if isinstance(s, Seq) else Seq(s)


def base_env(ds) -> dict:
    env = {
        "ds": ds,
        "Select": lambda s, f: _seq(s).Select(f),
        "Where": lambda s, f: _seq(s).Where(f),
        "SelectMany": lambda s, f: _seq(s).SelectMany(f),
        "First": lambda s: _seq(s).First(),
        "Count": lambda s: _seq(s).Count(),
        "Sum": lambda s: _seq(s).Sum(),
        "Max": lambda s: _seq(s).Max(),
        "Min": lambda s: _seq(s).Min(),
        "Aggregate": lambda s, i, f: _seq(s).Aggregate(i, f),
        "len": lambda s: _seq(s).Count(),
        "abs": lambda x: abs(_as_int(x)),
        "EventDataset": lambda: ds,
    }
    for n in ("fn1", "calc"):
        env[n] = _generic(n)
    # a query may yield one of these functions itself as (part of) its value ([Select, 1][0:1]): they are compared by name,
    # not by the identity of the function object this call happened to create
    for n, f in env.items():
        if callable(f) and n != "ds":
            try:
                f._world_name = n
            except AttributeError:
                pass
    return env


def py_eval(node_or_src, ds, extra=None) -> Any:
    "evaluate an expression (ast node or source) in CPython over the world; list literals become Seq"
    import ast

    if isinstance(node_or_src, str):
        node = ast.parse(node_or_src.strip(), mode="eval").body
    else:
        node = node_or_src
    caps = _Captured()
    node = _SeqLiterals().visit(__import__("copy").deepcopy(caps.visit(_copy_nodes(node))))
    import warnings

    with warnings.catch_warnings():
        # a recorded query may call a constant (a binder that shadowed a helper was replaced): CPython warns at compile time
        warnings.simplefilter("ignore", SyntaxWarning)
        code = compile(ast.fix_missing_locations(ast.Expression(node)), "<query>", "eval")
    env = base_env(ds)
    env["_Seq"] = Seq
    env["_AttrDict"] = AttrDict
    if extra:
        env.update(extra)
    env.update(caps.env)
    return eval(code, env)


import ast as _ast  # noqa: E402


def _copy_nodes(n):
    "new node and list objects; values held by Constant nodes (captured objects) by reference"
    if isinstance(n, _ast.AST):
        new = __import__("copy").copy(n)
        for f, v in _ast.iter_fields(n):
            setattr(new, f, _copy_nodes(v))
        return new
    if isinstance(n, list):
        return [_copy_nodes(x) for x in n]
    return n


class _Captured(_ast.NodeTransformer):
    "a captured object that is no literal (a module) cannot be compiled as a Constant: it is bound to a name instead"

    def __init__(self):
        self.env = {}

    def visit_Constant(self, node):
        if isinstance(node.value, __import__("types").ModuleType):
            k = f"_captured_{len(self.env)}"
            self.env[k] = node.value
            return _ast.Name(k, _ast.Load())
        return node


class _SeqLiterals(_ast.NodeTransformer):
    "list displays / comprehensions produce Seq so that operators can be applied to them; dicts read by attribute"

    def visit_List(self, node):
        self.generic_visit(node)
        return _ast.Call(_ast.Name("_Seq", _ast.Load()), [node], [])

    def visit_ListComp(self, node):
        self.generic_visit(node)
        return _ast.Call(_ast.Name("_Seq", _ast.Load()), [node], [])

    def visit_GeneratorExp(self, node):
        self.generic_visit(node)
        return _ast.Call(_ast.Name("_Seq", _ast.Load()), [node], [])

    def visit_Dict(self, node):
        self.generic_visit(node)
        return _ast.Call(_ast.Name("_AttrDict", _ast.Load()), [node], [])
