"""Python `ast` expression  <->  S-expression of the Lean `Expr` type (lean/Fadl/Syntax.lean).

`enc` raises `Unsupported` for nodes outside the modelled grammar (those cases are skipped by the
correspondence checks and counted in the evidence).  Source positions, `ctx`, `kind`,
`type_comment` are dropped on purpose.
"""
from __future__ import annotations

import ast
from typing import Any

from sexpr import Atom, q, render, parse


class Unsupported(Exception):
    pass


def const_tag(v: Any) -> str:
    "Stable tag for a non-transportable constant (never an address)."
    if isinstance(v, type):
        return f"class:{v.__module__}.{v.__qualname__}"
    import types

    if isinstance(v, types.ModuleType):
        return f"module:{v.__name__}"
    if isinstance(v, complex):
        return f"complex:{v!r}"
    if callable(v):
        return f"callable:{getattr(v, '__qualname__', type(v).__name__)}"
    return f"object:{type(v).__module__}.{type(v).__qualname__}"


def enc_const(v: Any) -> str:
    if v is None:
        return "none"
    if v is Ellipsis:
        return "ellipsis"
    if isinstance(v, bool):
        return "(bool true)" if v else "(bool false)"
    if isinstance(v, int):
        return f"(int {v})"
    if isinstance(v, float):
        return f"(float {q(repr(v))})"
    if isinstance(v, str):
        return f"(str {q(v)})"
    if isinstance(v, bytes):
        return f"(bytes {q(repr(v))})"
    return f"(opaque {q(const_tag(v))})"


def _strs(xs) -> str:
    return "(" + " ".join(q(x) for x in xs) + ")"


def _lst(xs) -> str:
    return "(" + " ".join(enc(x) for x in xs) + ")"


def enc(n: ast.AST) -> str:
    t = type(n)
    if t is ast.Name:
        return f"(name {q(n.id)})"
    if t is ast.Constant:
        return f"(const {enc_const(n.value)})"
    if t is ast.Attribute:
        return f"(attr {enc(n.value)} {q(n.attr)})"
    if t is ast.Call:
        kwn = [k.arg if k.arg is not None else "**" for k in n.keywords]
        return f"(call {enc(n.func)} {_lst(n.args)} {_strs(kwn)} {_lst([k.value for k in n.keywords])})"
    if t is ast.Lambda:
        a = n.args
        if (
            a.posonlyargs
            or a.vararg
            or a.kwonlyargs
            or a.kw_defaults
            or a.kwarg
            or a.defaults
        ):
            raise Unsupported("lambda with non-plain parameters")
        return f"(lam {_strs([x.arg for x in a.args])} {enc(n.body)})"
    if t is ast.Subscript:
        return f"(sub {enc(n.value)} {enc(n.slice)})"
    if t is ast.Tuple:
        return f"(tuple {_lst(n.elts)})"
    if t is ast.List:
        return f"(list {_lst(n.elts)})"
    if t is ast.Dict:
        if any(k is None for k in n.keys):
            raise Unsupported("dict unpacking")
        return f"(dict {_lst(n.keys)} {_lst(n.values)})"
    if t is ast.BinOp:
        return f"(op {q(type(n.op).__name__)} ({enc(n.left)} {enc(n.right)}))"
    if t is ast.UnaryOp:
        return f"(op {q(type(n.op).__name__)} ({enc(n.operand)}))"
    if t is ast.BoolOp:
        return f"(op {q(type(n.op).__name__)} {_lst(n.values)})"
    if t is ast.Compare:
        k = "Cmp:" + ",".join(type(o).__name__ for o in n.ops)
        return f"(op {q(k)} {_lst([n.left] + list(n.comparators))})"
    if t is ast.IfExp:
        return f'(op "IfExp" ({enc(n.test)} {enc(n.body)} {enc(n.orelse)}))'
    if t is ast.Slice:
        parts = [n.lower, n.upper, n.step]
        mask = "".join("1" if p is not None else "0" for p in parts)
        return f"(op {q('Slice:' + mask)} {_lst([p for p in parts if p is not None])})"
    if t is ast.Starred:
        return f'(op "Starred" ({enc(n.value)}))'
    if t is ast.ListComp or t is ast.GeneratorExp:
        if len(n.generators) != 1:
            raise Unsupported("comprehension with several for clauses")
        g = n.generators[0]
        return (
            f"(comp {q(t.__name__)} {enc(n.elt)} {enc(g.target)} {enc(g.iter)} {_lst(g.ifs)} "
            f"{'true' if g.is_async else 'false'})"
        )
    raise Unsupported(f"node {t.__name__}")


_BINOPS = {
    c.__name__: c
    for c in (
        ast.Add, ast.Sub, ast.Mult, ast.Div, ast.FloorDiv, ast.Mod, ast.Pow, ast.LShift,
        ast.RShift, ast.BitOr, ast.BitXor, ast.BitAnd, ast.MatMult,
    )
}
_UNOPS = {c.__name__: c for c in (ast.USub, ast.UAdd, ast.Not, ast.Invert)}
_CMPOPS = {
    c.__name__: c
    for c in (ast.Eq, ast.NotEq, ast.Lt, ast.LtE, ast.Gt, ast.GtE, ast.Is, ast.IsNot, ast.In, ast.NotIn)
}


class OpaqueConst:
    "Stand-in for a non-transportable constant decoded from the Lean side."

    def __init__(self, tag):
        self.tag = tag

    def __repr__(self):
        return f"<opaque {self.tag}>"


def dec_const(s):
    if s == "none":
        return None
    if s == "ellipsis":
        return Ellipsis
    k = s[0]
    if k == "int":
        return int(s[1])
    if k == "float":
        return float(s[1])
    if k == "str":
        return s[1]
    if k == "bytes":
        return ast.literal_eval(s[1])
    if k == "bool":
        return s[1] == "true"
    if k == "opaque":
        return OpaqueConst(s[1])
    raise ValueError(f"bad const {s}")


def _args(ps):
    return ast.arguments(
        posonlyargs=[], args=[ast.arg(arg=p) for p in ps], kwonlyargs=[], kw_defaults=[], defaults=[]
    )


def dec(s) -> ast.expr:
    "Parsed S-expression (nested lists from sexpr.parse) -> ast node."
    k = s[0]
    L = ast.Load()
    if k == "name":
        return ast.Name(id=s[1], ctx=L)
    if k == "const":
        return ast.Constant(value=dec_const(s[1]))
    if k == "attr":
        return ast.Attribute(value=dec(s[1]), attr=s[2], ctx=L)
    if k == "call":
        kws = [ast.keyword(arg=(None if a == "**" else a), value=dec(v)) for a, v in zip(s[3], s[4])]
        return ast.Call(func=dec(s[1]), args=[dec(a) for a in s[2]], keywords=kws)
    if k == "lam":
        return ast.Lambda(args=_args(s[1]), body=dec(s[2]))
    if k == "sub":
        return ast.Subscript(value=dec(s[1]), slice=dec(s[2]), ctx=L)
    if k == "tuple":
        return ast.Tuple(elts=[dec(e) for e in s[1]], ctx=L)
    if k == "list":
        return ast.List(elts=[dec(e) for e in s[1]], ctx=L)
    if k == "dict":
        return ast.Dict(keys=[dec(e) for e in s[1]], values=[dec(e) for e in s[2]])
    if k == "op":
        kind, args = s[1], [dec(a) for a in s[2]]
        if kind in _BINOPS:
            return ast.BinOp(left=args[0], op=_BINOPS[kind](), right=args[1])
        if kind in _UNOPS:
            return ast.UnaryOp(op=_UNOPS[kind](), operand=args[0])
        if kind == "And" or kind == "Or":
            return ast.BoolOp(op=(ast.And() if kind == "And" else ast.Or()), values=args)
        if kind.startswith("Cmp:"):
            ops = [_CMPOPS[o]() for o in kind[4:].split(",")]
            return ast.Compare(left=args[0], ops=ops, comparators=args[1:])
        if kind == "IfExp":
            return ast.IfExp(test=args[0], body=args[1], orelse=args[2])
        if kind.startswith("Slice:"):
            it = iter(args)
            parts = [next(it) if m == "1" else None for m in kind[6:]]
            return ast.Slice(lower=parts[0], upper=parts[1], step=parts[2])
        if kind == "Starred":
            return ast.Starred(value=args[0], ctx=L)
        raise ValueError(f"bad op kind {kind}")
    if k == "comp":
        cls = ast.ListComp if s[1] == "ListComp" else ast.GeneratorExp
        g = ast.comprehension(
            target=dec(s[3]), iter=dec(s[4]), ifs=[dec(i) for i in s[5]], is_async=1 if s[6] == "true" else 0
        )
        if isinstance(g.target, ast.Name):
            g.target.ctx = ast.Store()
        return cls(elt=dec(s[2]), generators=[g])
    raise ValueError(f"bad expr {k}")


def dec_text(text: str) -> ast.expr:
    return ast.fix_missing_locations(dec(parse(text)))


def parse_expr(src: str) -> ast.expr:
    return ast.parse(src.strip(), mode="eval").body


def selftest():
    srcs = [
        "Select(ds, lambda e: (e.jets.Where(lambda j: j.pt > 30 and not j.bad), e.met))",
        "f(x, *y, k=1, **z)[1:2, ::3] if a < b <= c else {'a': -1, 'b': [x for x in y if x if z]}",
        "(lambda x, y: x // y + 2.5)(1, y=b'\\x00a') is not None or ... or 'q\"\\\\\\n€'",
        "(j.pt() for j in e.jets)",
    ]
    for s in srcs:
        a = parse_expr(s)
        t = enc(a)
        b = dec_text(t)
        assert ast.dump(a) == ast.dump(b), (s, ast.dump(a), ast.dump(b))
        assert enc(b) == t
        assert render(parse(t)) == t, (render(parse(t)), t)
    return True


if __name__ == "__main__":
    print(selftest())
