"""S-expression wire format shared with lean/Fadl/Syntax.lean (SExpr.render / SExpr.parse).

Canonical rendering: atoms bare, strings double-quoted with `\\"`, `\\\\` and `\\u{hex}` for every
character outside printable ASCII, list items separated by exactly one space.
"""
from __future__ import annotations


class Atom(str):
    """A bare atom (distinguished from a quoted string, which is a plain `str`)."""

    __slots__ = ()


def esc(s: str) -> str:
    out = []
    for c in s:
        o = ord(c)
        if c == '"':
            out.append('\\"')
        elif c == "\\":
            out.append("\\\\")
        elif 32 <= o < 127:
            out.append(c)
        else:
            out.append("\\u{%x}" % o)
    return "".join(out)


def q(s: str) -> str:
    return '"' + esc(s) + '"'


def render(x) -> str:
    if isinstance(x, Atom):
        return str(x)
    if isinstance(x, str):
        return q(x)
    return "(" + " ".join(render(i) for i in x) + ")"


def parse(text: str):
    pos = 0
    n = len(text)

    def skip():
        nonlocal pos
        while pos < n and text[pos] in " \n\r\t":
            pos += 1

    def one():
        nonlocal pos
        skip()
        if pos >= n:
            raise ValueError("unexpected end")
        c = text[pos]
        if c == "(":
            pos += 1
            items = []
            while True:
                skip()
                if pos >= n:
                    raise ValueError("unclosed list")
                if text[pos] == ")":
                    pos += 1
                    return items
                items.append(one())
        if c == '"':
            pos += 1
            out = []
            while True:
                c = text[pos]
                if c == '"':
                    pos += 1
                    return "".join(out)
                if c == "\\":
                    d = text[pos + 1]
                    if d == "u":
                        end = text.index("}", pos)
                        out.append(chr(int(text[pos + 3 : end], 16)))
                        pos = end + 1
                    else:
                        out.append(d)
                        pos += 2
                else:
                    out.append(c)
                    pos += 1
        start = pos
        while pos < n and text[pos] not in " \n\r\t()":
            pos += 1
        return Atom(text[start:pos])

    return one()
