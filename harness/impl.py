"""Access to the implementation under test (func_adl imported from $VERIF_REPO, default /repo)."""
from __future__ import annotations

import os
import sys

REPO = os.environ.get("VERIF_REPO", "/repo")
if REPO not in sys.path:
    sys.path.insert(0, REPO)
os.environ.setdefault("FUNC_ADL_VERIF", "1")

import logging  # noqa: E402

logging.disable(logging.CRITICAL)

import func_adl  # noqa: E402,F401

assert os.path.realpath(func_adl.__file__).startswith(os.path.realpath(REPO)), (
    f"func_adl imported from {func_adl.__file__}, expected {REPO}"
)


def classify_exc(e: BaseException) -> str:
    """Map a real exception to the model's `Err.render` string."""
    from func_adl.ast.function_simplifier import FuncADLIndexError

    if isinstance(e, FuncADLIndexError):
        return "FuncADLIndexError"
    if isinstance(e, ValueError):
        return "ValueError"
    if isinstance(e, RecursionError):
        return "internal:RecursionError"
    return "internal:" + type(e).__name__
