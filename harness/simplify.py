"""Chained-call simplification (C02, C14, C18): generators, oracles, correspondence with Model/Simplify.lean."""
from __future__ import annotations

import ast
import copy
import re
import warnings

warnings.filterwarnings("ignore", category=SyntaxWarning)

import impl  # noqa: E402
import pyworld  # noqa: E402
from astcodec import Unsupported, enc, parse_expr  # noqa: E402
from common import fixed_datasets, rich_dataset  # noqa: E402
from gen.data import gen_dataset  # noqa: E402
from gen.expr import Opt, gen_query  # noqa: E402

_ARG = re.compile(r"arg_(\d+)")


def canon(text: str) -> str:
    "rename arg_<n> by order of first appearance (the simplifier's fresh names)"
    seen = {}

    def sub(m):
        k = m.group(1)
        if k not in seen:
            seen[k] = len(seen)
        return f"arg_#{seen[k]}"

    return _ARG.sub(sub, text)


class _Alpha(ast.NodeTransformer):
    "rename every lambda parameter to v<depth>_<index>: comparison modulo alpha-equivalence of lambda binders"

    def __init__(self):
        self.env = []

    def visit_Lambda(self, node):
        d = len(self.env)
        m = {a.arg: f"v{d}_{i}" for i, a in enumerate(node.args.args)}
        self.env.append(m)
        try:
            body = self.visit(node.body)
        finally:
            self.env.pop()
        return ast.Lambda(args=ast.arguments(posonlyargs=[], args=[ast.arg(arg=m[a.arg]) for a in node.args.args], kwonlyargs=[],
                                             kw_defaults=[], defaults=[]), body=body)

    def visit_Name(self, node):
        for m in reversed(self.env):
            if node.id in m:
                return ast.Name(id=m[node.id], ctx=ast.Load())
        return node


def alpha(a: ast.AST) -> ast.AST:
    from astcodec import dec_text

    # rebuild the tree first: the simplifier's output shares node objects between positions
    return _Alpha().visit(dec_text(enc(a)))


class _NegConst(ast.NodeTransformer):
    "source marker __neg__(k) -> ast.Constant(-k): a negative number that is a real constant node (captured variable)"

    def visit_Call(self, node):
        self.generic_visit(node)
        if isinstance(node.func, ast.Name) and node.func.id == "__neg__" and len(node.args) == 1 and isinstance(node.args[0], ast.Constant):
            return ast.Constant(value=-node.args[0].value)
        return node


def parse_query(src: str) -> ast.AST:
    return ast.fix_missing_locations(_NegConst().visit(parse_expr(src)))


def run_simplifier(a: ast.AST):
    import func_adl.ast.function_simplifier as fs

    fs.argument_var_counter = 0
    return fs.simplify_chained_calls().visit(a)


def to_calls(a):
    from func_adl.ast.func_adl_ast_utils import change_extension_functions_to_calls

    return change_extension_functions_to_calls(a)


PACK_NODES = (ast.Tuple, ast.List, ast.Dict)


def check_queries(ctx, srcs, what: str, expect_index_error=None, pack_check=None):
    """srcs: query sources (function form expected).  Oracles:
       * only FuncADLIndexError may be raised (C18), and only when a constant index runs past a literal;
       * the result unparses and compiles (C18);
       * whenever the original evaluates (Lean ev, three datasets; CPython on two), the result evaluates to the same
         value (C02);
       * pack_check(src, out_ast) for C14 chains."""
    from func_adl.ast.function_simplifier import FuncADLIndexError

    rng = ctx.rng
    reqs, keep = [], []
    from common import val_sexpr

    raw_worlds = [rich_dataset(rng), gen_dataset(rng)]
    worlds = [(pyworld.to_world(d), val_sexpr(d)) for d in raw_worlds]
    strict_only = []  # (case, original, simplified, dataset): CPython's strict lists failed where the original evaluated
    for src in srcs:
        try:
            a = parse_query(src)
            a_enc = enc(a)
        except (Unsupported, SyntaxError, ValueError) as e:
            ctx.skip(type(e).__name__)
            continue
        n_nodes = sum(1 for _ in ast.walk(a))
        try:
            out = run_simplifier(copy.deepcopy(a))
            got = ("ok", enc(alpha(out)))
        except FuncADLIndexError:
            out, got = None, ("err", "FuncADLIndexError")
        except RecursionError:
            out, got = None, ("err", "internal:RecursionError")
        except Unsupported:
            ctx.skip("unsupported-output")
            continue
        except Exception as e:
            out, got = None, ("err", impl.classify_exc(e))
        ctx.count(src, n_nodes >= 8, sample={"src": src, "out": ast.unparse(out) if out is not None else got[1]},
                  tags=[what, "changed" if out is not None and ast.dump(out) != ast.dump(a) else "unchanged-or-error"])
        if got[0] == "err" and got[1] != "FuncADLIndexError":
            ctx.violate({"src": src, "error": got[1]}, f"C18: the simplifier raised {got[1]} on a well-formed query")
        if got == ("err", "FuncADLIndexError"):
            # the dedicated index error is only for a constant, non-negative index past the end of a tuple / list literal
            idx = [n.slice.value for n in ast.walk(a) if isinstance(n, ast.Subscript) and isinstance(n.slice, ast.Constant)
                   and isinstance(n.slice.value, int) and not isinstance(n.slice.value, bool) and n.slice.value >= 0]
            lens = [len(n.elts) for n in ast.walk(a) if isinstance(n, (ast.Tuple, ast.List))]
            if not idx or not lens or max(idx) < min(lens):
                ctx.violate({"src": src}, "C18: FuncADLIndexError although no constant non-negative index can be past the end of any tuple/list literal of the query")
        if out is not None:
            try:
                text = ast.unparse(out)
                compile(ast.fix_missing_locations(ast.Expression(copy.deepcopy(out))), "<simplified>", "eval")
                parse_expr(text)
                # the text must be the text of THE tree: ast.unparse keeps its parenthesisation state per node object, so a
                # node object standing in two places can lose its parentheses; compare with the text of a rebuilt tree
                # (every position its own node)
                from astcodec import dec_text

                rebuilt = ast.unparse(dec_text(enc(out)))
                if rebuilt != text:
                    ctx.violate({"src": src, "unparse": text[:300], "unparse_of_rebuilt_tree": rebuilt[:300]},
                                "C18: ast.unparse of the simplified AST is not the text of the tree (a node object is shared between positions)")
            except Unsupported:
                pass
            except Exception as e:
                ctx.violate({"src": src, "error": f"{type(e).__name__}: {e}"[:200]}, "C18: the simplified AST cannot be unparsed and compiled")
            if pack_check is not None:
                msg = pack_check(src, out)
                if msg:
                    ctx.violate({"src": src, "out": ast.unparse(out)}, "C14: " + msg)
            # CPython ground truth on a sample
            if rng.random() < 0.35:
                for w, w_sexpr in worlds:
                    try:
                        want = pyworld.from_world(pyworld.py_eval(a, w))
                    except Exception:
                        continue
                    ctx.dist["py-original-ok"] += 1
                    try:
                        have = pyworld.from_world(pyworld.py_eval(out, w))
                    except Exception as e:
                        # CPython's lists are strict: First(Select(s, f)) evaluates f on every element, a LINQ backend
                        # only on the first. A failure of the simplified query under strict evaluation is decided by the
                        # deferred-execution reference semantics on the same dataset (below), not reported from here.
                        ctx.dist["py-simplified-fails-under-strict-lists (decided by the deferred-execution reference)"] += 1
                        strict_only.append(({"src": src, "out": ast.unparse(out), "python_original": repr(want)[:150],
                                             "python_simplified_strict": f"raises {type(e).__name__}: {e}"[:120]}, a_enc, enc(out), w_sexpr))
                        continue
                    if have != want:
                        ctx.violate({"src": src, "out": ast.unparse(out), "python_original": repr(want)[:150], "python_simplified": repr(have)[:150]},
                                    "C02: the simplified query does not compute what the original computes (CPython)")
                        break
        reqs.append(("simp", ["0", a_enc]))
        keep.append((src, a_enc, got, enc(out) if out is not None else None))
    res = ctx.driver.batch(reqs)
    # the checked model (explicit side conditions): where it returns a result the plain model must return the same one
    # (theorem simpCk_refines_simp; re-checked here on the run's inputs); where one of its guards fires the input is
    # outside the domain of the soundness theorem (e.g. a lambda parameter used as a function) and is covered by the
    # correspondence and the oracles only - counted per guard in the evidence
    # hypothesis of the totality theorem (simplify_total): evaluated on every generated query; where it holds neither
    # the model nor the implementation may fail with anything but the dedicated index error
    res_wf = ctx.driver.batch([("wfq", [a[1]]) for _, a in reqs])
    # conclusion of the normal-form theorem (simplify_normal_form, simplify_output_wf), evaluated on what the REAL
    # simplifier returned: for a well-formed input the output must be well formed and a normal form
    outs = [(i, k[3]) for i, k in enumerate(keep) if k[3] is not None]
    res_nf = dict(zip([i for i, _ in outs], ctx.driver.batch([("nf", [o]) for _, o in outs])))
    res_owf = dict(zip([i for i, _ in outs], ctx.driver.batch([("wfq", [o]) for _, o in outs])))
    for i, ((src, _, got, out_enc), r0, rw) in enumerate(zip(keep, res, res_wf)):
        if tuple(rw) == ("ok", "true"):
            ctx.dist["wfq: hypothesis of simplify_total / simplify_normal_form holds"] += 1
            if r0[0] == "err" and r0[1] not in ("indexError", "FuncADLIndexError") and not r0[1].startswith("fuel"):
                ctx.disagree("simplify_total", {"src": src}, "no internal error on a well-formed query (theorem)", (r0[0], r0[1][:200]))
            if i in res_nf:
                if tuple(res_nf[i]) != ("ok", "true"):
                    ctx.violate({"src": src, "out": out_enc[:600]},
                                "C14: the simplified query is not a normal form: a constant projection is left on a literal or on a First, or an operator call is left on a source it fuses with")
                if tuple(res_owf[i]) != ("ok", "true"):
                    ctx.violate({"src": src, "out": out_enc[:600]}, "C18: the simplified query is not well formed although the input is")
                ctx.dist["output checked: normal form and well formed"] += 1
        else:
            ctx.dist["wfq: outside (operator name as a value, operator call of another shape)"] += 1
    if pack_check is not None:
        # hypothesis and conclusion of typed_normal_form_constructions / simplify_pack_chain_eliminated on the REAL output:
        # does it obey the pack-chain discipline (shapeOf), and where it does, are constructions in result position only
        res_sh = ctx.driver.batch([("shape", [o]) for _, o in outs])
        for (i, o), r in zip(outs, res_sh):
            if r[0] != "ok":
                continue
            kind, res_ok, no_lit = r[1].split(" ")
            ctx.dist[f"shape of the real output: {'obeys the pack-chain discipline, ' + ('pack-free' if kind == 'opq' else 'a pack (final result)') if kind != 'none' else 'outside the discipline (theorem does not apply)'}"] += 1
            if kind != "none" and i in res_nf and tuple(res_nf[i]) == ("ok", "true"):
                if res_ok != "true" or (kind == "opq" and no_lit != "true"):
                    ctx.violate({"src": keep[i][0], "out": o[:600]},
                                "C14: the simplified query obeys the pack-chain discipline and is a normal form, yet a construction remains outside the final result (typed_normal_form_constructions)")
    res_ck = ctx.driver.batch([("simpCk", a) for _, a in reqs])
    for (src, _, _, _), r0, r1 in zip(keep, res, res_ck):
        if r1[0] == "err" and "side-condition:" in r1[1]:
            ctx.dist["outside-checked-model: " + r1[1].split("side-condition:", 1)[1].strip()[:60]] += 1
        elif tuple(r0) != tuple(r1):
            ctx.disagree("simpCk-refines-simp", {"src": src}, (r0[0], r0[1][:300]), (r1[0], r1[1][:300]))
        else:
            ctx.dist["inside-checked-model"] += 1
    pairs = []
    for (src, a_enc, got, out_enc), (st, payload) in zip(keep, res):
        if st == "ok":
            from astcodec import dec_text

            try:
                m = (st, enc(alpha(dec_text(payload))))
            except Exception as e:  # pragma: no cover
                m = (st, f"undecodable model output: {e}")
        else:
            m = (st, payload)
        if m != got and m[0] == "ok" and got[0] == "ok" and out_enc is not None and _agree_after_resimplification(ctx, out_enc, payload):
            # the implementation hands out ONE node object for every occurrence of a substituted argument and edits
            # nodes in place, so a re-visit of one occurrence (subscript / attribute pushed under a First) simplifies
            # all of them a step further than the purely functional model does; both outputs are simplifications of
            # the same query and meet after further passes of the model's own simplifier
            ctx.dist["agree after model re-simplification (in-place edit of a shared node)"] += 1
        elif m != got:
            ctx.disagree("simplify", {"src": src}, got[1][:600], (m[0], m[1][:600]))
        if out_enc is not None:
            pairs.append(({"src": src}, a_enc, out_enc))
    from common import compare_ev

    compare_ev(ctx, ctx.driver, pairs, fixed_datasets(rng, 3), "C02: the simplified query evaluates differently from the original (ev)")
    for case, a_enc, o_enc, w_sexpr in strict_only:
        compare_ev(ctx, ctx.driver, [(case, a_enc, o_enc)], [w_sexpr],
                   "C02: the simplified query fails where the original evaluates, under strict lists and under deferred execution alike")


def _agree_after_resimplification(ctx, impl_enc: str, model_enc: str, rounds: int = 4) -> bool:
    from astcodec import dec_text

    cur_i, cur_m = impl_enc, model_enc
    for _ in range(rounds):
        ri, rm = ctx.driver.batch([("simp", ["0", cur_i]), ("simp", ["0", cur_m])])
        if ri[0] != "ok" or rm[0] != "ok":
            return False
        try:
            if enc(alpha(dec_text(ri[1]))) == enc(alpha(dec_text(rm[1]))):
                return True
        except Exception:  # pragma: no cover
            return False
        cur_i, cur_m = ri[1], rm[1]
    return False


# ---- C02 generator --------------------------------------------------------------------------------------------------
class _KeyShadow(ast.NodeTransformer):
    """wrap a sub-expression X as {1: 0, 0 + 1: X}[1] (or with string keys): in Python the later, COMPUTED key overrides the
    constant one, so the value is still X; a simplifier that takes the literal apart by its constant keys changes it"""

    def __init__(self, rng, rate):
        self.rng, self.rate, self.n = rng, rate, 0

    def generic_visit(self, node):
        node = super().generic_visit(node)
        if isinstance(node, ast.expr) and not isinstance(node, (ast.Lambda, ast.Starred, ast.Slice, ast.Constant)) \
                and not isinstance(getattr(node, "ctx", None), ast.Store) and self.rng.random() < self.rate:
            self.n += 1
            src = ast.unparse(node)
            new = self.rng.choice([f"{{1: 0, 0 + 1: {src}}}[1]", f"{{'a': 0, 'a' + '': {src}}}['a']", f"{{'a': 0, 'a' + '': {src}}}.a",
                                   f"{{0 + 1: 0, 1: {src}}}[1]", f"{{'k': 0, 2: 1, 1 + 1: {src}}}[2]",
                                   # the same CONSTANT key twice: Python keeps the value of the last entry
                                   f"{{'a': 0, 'a': {src}}}.a", f"{{'a': 0, 'a': {src}}}['a']", f"{{1: 0, 1: {src}}}[1]",
                                   f"{{1: 0, True: {src}}}[1]", f"{{'a': 0, 'b': 1, 'a': {src}, 'c': 2}}.a",
                                   f"{{'a': {src}, 'b': 1, 'b': 2}}.a"])
            return ast.parse(new, mode="eval").body
        return node


def gen_c02(rng):
    opt = Opt(form=rng.choice(["func", "func", "func", "mixed"]), naming=rng.choice(["mixed", "same", "reuse", "distinct"]),
              comps=False, max_depth=rng.choice([2, 3, 4]), called_lambda=True, kw_called_lambda=True, world_funcs=rng.random() < 0.5)
    src, _ = gen_query(rng, opt)
    if rng.random() < 0.5:
        src = ast.unparse(to_calls(parse_expr(src)))
    if rng.random() < 0.12:
        src = ast.unparse(_KeyShadow(rng, 0.12).visit(parse_expr(src)))
    return src


# ---- C18 selector stream ---------------------------------------------------------------------------------------------
SELECTORS = ["0", "1", "2", "5", "-1", "i", "e.n", "0:1", "1:", "::2", "'a'", "'zz'", "True", "k", "(0)", "1.0", "None",
             "__neg__(1)", "__neg__(2)", "__neg__(7)", "2.5", "b'a'", "(1, 2)"]


class _Projector(ast.NodeTransformer):
    def __init__(self, rng, rate):
        self.rng, self.rate, self.n = rng, rate, 0

    def generic_visit(self, node):
        node = super().generic_visit(node)
        if isinstance(node, ast.expr) and not isinstance(node, (ast.Lambda, ast.Starred, ast.Slice, ast.Constant)) \
                and not isinstance(getattr(node, "ctx", None), ast.Store) and self.rng.random() < self.rate:
            self.n += 1
            sel = self.rng.choice(SELECTORS)
            other = self.rng.choice(["1", "x", "e", "(2, 3)"])
            kind = self.rng.random()
            src = ast.unparse(node)
            if kind < 0.08:
                # a key that is not a constant (before / after the wanted one): the literal cannot be taken apart
                dk = self.rng.choice(["k", "e.n", "x"])
                new = self.rng.choice([f"{{'a': {src}, {dk}: {other}}}", f"{{{dk}: {other}, 'a': {src}}}", f"{{'a': {src}, 'b': {other}, {dk}: 1}}"]) + \
                    self.rng.choice(["['a']", ".a", "['b']", f"[{sel}]"])
            elif kind < 0.4:
                new = f"({src}, {other})[{sel}]"
            elif kind < 0.55:
                new = f"[{src}, {other}][{sel}]"
            elif kind < 0.8:
                new = f"{{'a': {src}, 'b': {other}}}[{sel}]"
            elif kind < 0.9:
                new = f"{{'a': {src}, 'b': {other}}}.{self.rng.choice(['a', 'b', 'zz'])}"
            else:
                new = f"{{1: {src}, 'b': {other}}}[{sel}]"
            try:
                return ast.parse(new, mode="eval").body
            except SyntaxError:
                return node
        return node


def gen_c18(rng):
    src = gen_c02(rng)
    a = parse_expr(src)
    p = _Projector(rng, rng.choice([0.03, 0.08, 0.15]))
    a = ast.fix_missing_locations(p.visit(a))
    return ast.unparse(a)


# ---- C14 pack chains -------------------------------------------------------------------------------------------------
def gen_shape(rng, d, allow_seq=True):
    r = rng.random()
    if d <= 0 or r < 0.3:
        return "leaf"
    if allow_seq and r < 0.42:
        return ("seq", gen_shape(rng, d - 1, allow_seq=False))
    if allow_seq and r < 0.5:
        # the first element of a sequence of packs: later stages project out of First(...)
        inner = gen_shape(rng, d - 1, allow_seq=False)
        return ("fst", inner if inner != "leaf" else ("tup", ["leaf", "leaf"]))
    n = rng.choice([1, 2, 2, 3])
    if r < 0.7:
        return ("tup", [gen_shape(rng, d - 1, allow_seq) for _ in range(n)])
    if r < 0.78:
        return ("lst", [gen_shape(rng, d - 1, allow_seq) for _ in range(n)])
    keys = rng.sample(["a", "b", "c", "pt", "val"], n)
    return ("rec", [(k, gen_shape(rng, d - 1, allow_seq)) for k in keys])


def leaves(shape, path):
    "(path, elem_shape_or_None) for every leaf of a value of this shape held in `path`; elem shape for packaged sequences"
    if shape == "leaf":
        return [(path, None)]
    kind, parts = shape
    if kind == "seq":
        return [(path, parts)]
    if kind == "fst":
        return leaves(parts, path)
    out = []
    if kind in ("tup", "lst"):
        for i, s in enumerate(parts):
            out += leaves(s, f"{path}[{i}]")
    else:
        for k, s in parts:
            out += leaves(s, f"{path}['{k}']" if hash((k, path)) % 2 else f"{path}.{k}")
    return out


_counter = [0]


def int_leaf(rng, pool, depth=0):
    "an int-valued expression over the leaves in pool [(path, elem shape)]"
    ints = [p for p, s in pool if s is None]
    seqs = [(p, s) for p, s in pool if s is not None]
    if seqs and (not ints or rng.random() < 0.4) and depth < 2:
        p, es = rng.choice(seqs)
        _counter[0] += 1
        y = rng.choice(["y", "z", "k"]) + (str(_counter[0] % 3) if rng.random() < 0.5 else "")
        inner_pool = leaves(es, y) + [(q, None) for q in ints]
        agg = rng.choice(["Count", "Sum", "First"])
        inner = int_leaf(rng, inner_pool, depth + 1)
        return f"{agg}(Select({p}, lambda {y}: {inner}))"
    if not ints:
        return "1"
    r = rng.random()
    a = rng.choice(ints)
    if r < 0.5:
        return a
    if r < 0.8:
        return f"({a} + {rng.choice(ints)})"
    return f"({a} * 2)"


def build(rng, shape, pool, seq_sources):
    "an expression of this shape whose leaves are drawn from pool; seq_sources: expressions of sequences of ints"
    if shape == "leaf":
        return int_leaf(rng, pool)
    kind, parts = shape
    if kind == "seq":
        _counter[0] += 1
        y = rng.choice(["j", "n", "m"])
        src = rng.choice(seq_sources)
        return f"Select({src}, lambda {y}: {build(rng, parts, [(y, None)] + [(p, s) for p, s in pool if s is None], seq_sources)})"
    if kind == "fst":
        y = rng.choice(["j", "n", "m"])
        src = rng.choice(seq_sources)
        inner = build(rng, parts, [(y, None)] + [(p, s) for p, s in pool if s is None], seq_sources)
        return f"First(Select({src}, lambda {y}: {inner}))"
    if kind == "tup":
        items = [build(rng, s, pool, seq_sources) for s in parts]
        return "(" + ", ".join(items) + ("," if len(items) == 1 else "") + ")"
    if kind == "lst":
        return "[" + ", ".join(build(rng, s, pool, seq_sources) for s in parts) + "]"
    return "{" + ", ".join(f"'{k}': {build(rng, s, pool, seq_sources)}" for k, s in parts) + "}"


def gen_packchain(rng):
    """ds -> stages; every intermediate stage packs leaf expressions (and sequences of packs built by a nested Select),
    every later stage takes the packs apart with constant selectors only (sequences through a nested Select); the
    final stage returns a plain value (so no pack may survive) or a pack (allowed only as the final result)."""
    names = ["e", "t", "u", "v", "w", "p", "q"]
    scheme = rng.choice(["distinct", "same", "mixed"])
    n_stages = rng.choice([2, 3, 4, 5])
    src = "ds"
    cur = "leaf"
    final_pack = False
    seq_sources = ["First(ds).nums"]
    for k in range(n_stages):
        x = "e" if scheme == "same" else (names[k % len(names)] if scheme == "distinct" else rng.choice(names))
        pool = leaves(cur, x)
        stage_seq_sources = list(seq_sources)
        if cur == "leaf":
            if k == 0:
                pool = [(f"{x}.met", None), (f"{x}.run", None)]
                stage_seq_sources = [f"{x}.nums", "First(ds).nums"]
            else:
                pool = [(x, None)]
        last = k == n_stages - 1
        kind = rng.choice(["Select", "Select", "Where", "SelectMany"]) if 0 < k else "Select"
        if last and kind == "Where":
            kind = "Select"
        if kind == "Where":
            src = f"Where({src}, lambda {x}: {int_leaf(rng, pool)} > {int_leaf(rng, pool)} - 5)"
            continue
        if kind == "SelectMany":
            y = "e" if scheme == "same" else rng.choice([n for n in names if n != x])
            new = "leaf" if last else gen_shape(rng, 1, allow_seq=False)
            seqs = [(p, s) for p, s in pool if s is not None]
            if seqs and rng.random() < 0.6:
                p, es = rng.choice(seqs)
                inner_pool = leaves(es, y) + ([(q, None) for q, s in pool if s is None] if scheme != "same" else [])
                body = f"Select({p}, lambda {y}: {build(rng, new, inner_pool, stage_seq_sources)})"
            else:
                inner_pool = [(y, None)] + ([(q, s) for q, s in pool if s is None] if scheme != "same" else [])
                body = f"Select({rng.choice(stage_seq_sources)}, lambda {y}: {build(rng, new, inner_pool, stage_seq_sources)})"
            src = f"SelectMany({src}, lambda {x}: {body})"
            cur = new
            final_pack = last and new != "leaf"
            continue
        if last:
            if rng.random() < 0.7:
                new = "leaf"
            else:
                new = gen_shape(rng, 1, allow_seq=False)
                final_pack = new != "leaf"
        else:
            new = gen_shape(rng, 2)
            if new == "leaf":
                new = ("tup", ["leaf", "leaf"])
        src = f"Select({src}, lambda {x}: {build(rng, new, pool, stage_seq_sources)})"
        cur = new
    return src, final_pack


def pack_check_factory(final_pack: bool):
    def check(src, out):
        packs = [n for n in ast.walk(out) if isinstance(n, PACK_NODES)]
        projs = [n for n in ast.walk(out) if isinstance(n, ast.Subscript) and isinstance(n.slice, ast.Constant)]
        if not final_pack:
            if packs:
                return f"{len(packs)} tuple/list/dict construction(s) remain although the final stage returns a plain value"
            if projs:
                return f"{len(projs)} constant projection(s) remain"
            return None
        # packs are allowed only as the result (root of the outermost operator's lambda body, nested to any depth)
        if not (isinstance(out, ast.Call) and len(out.args) == 2 and isinstance(out.args[1], ast.Lambda)):
            return None
        allowed = set()

        def mark(n):
            if isinstance(n, PACK_NODES):
                allowed.add(id(n))
                for c in (n.elts if not isinstance(n, ast.Dict) else n.values):
                    mark(c)

        body = out.args[1].body
        # the last stage may have been pushed inside nested SelectMany lambdas: descend through operator calls
        stack = [body]
        while stack:
            b = stack.pop()
            mark(b)
            if isinstance(b, ast.Call) and isinstance(b.func, ast.Name) and b.func.id in ("Select", "SelectMany", "Where") and len(b.args) == 2 and isinstance(b.args[1], ast.Lambda):
                stack.append(b.args[1].body)
                stack.append(b.args[0])
        bad = [n for n in packs if id(n) not in allowed]
        if bad:
            return f"{len(bad)} tuple/list/dict construction(s) remain outside the final result"
        if projs:
            return f"{len(projs)} constant projection(s) remain"
        return None

    return check
