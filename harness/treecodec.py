"""Any Python `ast` object -> S-expression of the Lean `Tree` (lean/Fadl/Model/Hash.lean): the field
tree that `ast.dump` shows.  A field that is missing, or None in an optional field (class-level
default None), is not listed — the rule `ast.dump` itself applies; the per-run comparison of the Lean
`dump` of this tree with the real `ast.dump` validates this codec together with the model."""
from __future__ import annotations

import ast

from sexpr import q


def tree(n) -> str:
    if isinstance(n, ast.AST):
        cls = type(n)
        names, vals = [], []
        for name in n._fields:
            try:
                v = getattr(n, name)
            except AttributeError:
                continue
            if v is None and getattr(cls, name, ...) is None:
                continue
            names.append(name)
            vals.append(tree(v))
        return f"(node {q(cls.__name__)} (" + " ".join(q(x) for x in names) + ") (" + " ".join(vals) + "))"
    if isinstance(n, list):
        return "(list (" + " ".join(tree(x) for x in n) + "))"
    return f"(leaf {q(repr(n))})"
