#!/venv/bin/python
"""Entry point:  vcheck.py <Cxx> quick|thorough      |   vcheck.py <Cxx> --replay <file>"""
from __future__ import annotations

import importlib
import os
import sys
import traceback
from pathlib import Path

sys.path.insert(0, str(Path(__file__).resolve().parent))


def main(argv):
    if len(argv) < 2:
        print(__doc__)
        return 2
    prop = argv[0].upper()
    try:
        mod = importlib.import_module(f"props.{prop.lower()}")
    except ModuleNotFoundError:
        print(f"no check for {prop}")
        return 2
    import framework

    seed = int(os.environ.get("VERIF_SEED", "0"))
    try:
        if argv[1] == "--replay":
            return framework.run_replay(mod, argv[2])
        tier = os.environ.get("VERIF_TIER", argv[1])
        if tier not in ("quick", "thorough"):
            tier = argv[1]
        return framework.run_check(mod, tier, seed)
    except Exception:
        traceback.print_exc()
        print("harness error (not a verdict)")
        return 2


if __name__ == "__main__":
    sys.exit(main(sys.argv[1:]))
