"""Generated Python modules on disk (so that `inspect` can find the source of lambdas / functions).
Files live in a scratch directory outside /repo and /verif and are removed at interpreter exit."""
from __future__ import annotations

import atexit
import importlib.util
import itertools
import os
import shutil
import sys
import tempfile

_DIR = None
_COUNTER = itertools.count()


def _dir() -> str:
    global _DIR
    if _DIR is None:
        _DIR = tempfile.mkdtemp(prefix="fadl_verif_mods_")
        atexit.register(shutil.rmtree, _DIR, True)
    return _DIR


def make_module(source: str, name_hint: str = "m"):
    name = f"fadlgen_{name_hint}_{os.getpid()}_{next(_COUNTER)}"
    path = os.path.join(_dir(), name + ".py")
    with open(path, "w", encoding="utf-8") as f:
        f.write(source)
    spec = importlib.util.spec_from_file_location(name, path)
    mod = importlib.util.module_from_spec(spec)
    sys.modules[name] = mod
    spec.loader.exec_module(mod)
    return mod


def drop_module(mod):
    sys.modules.pop(mod.__name__, None)
    try:
        os.unlink(mod.__file__)
    except OSError:
        pass
