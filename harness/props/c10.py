"""C10 — untyped queries pass through unchanged; refusals are explicit."""
from __future__ import annotations

import ast
import keyword

import warnings

warnings.filterwarnings("ignore", category=SyntaxWarning)

from astcodec import Unsupported, enc, parse_expr  # noqa: E402
from gen.untyped import UGen, enumerate_small
import impl
import srcmod

ID = "C10"
THEOREMS = ["streamOp_untyped_refusals_designed", "follow_refusals", "streamOp_untyped_refuses_with_valueError", "follow_noFuel", "need_le_followFuel", "follow_fuel_irrelevant", "streamOp_untyped_identity", "streamOp_untyped_no_internal", "follow_noInt", "checkAst_noInt", "follow_untyped", "methodCall_untyped", "follow_name", "follow_const", "follow_lambda", "fillLoop_complete"]
LEANCHECKER_MODULES = ["Fadl.Props.C10Refusals", "Fadl.Props.C10Fuel", "Fadl.Props.FuelMono", "Fadl.Props.C10Full", "Fadl.Props.C10NoInt", "Fadl.Props.C10"]  # re-checked by leanchecker in the thorough tier
RULE = (
    "single-parameter lambdas over names (pool includes value, id, attr, ctx, lineno, elts, args, func, keys, body, "
    "slice), attributes, calls with positional / keyword / starred arguments, subscripts (constant, variable, negative, "
    "slice), unary / binary / boolean / comparison operators, conditionals, tuples, lists, dicts with arbitrary string "
    "keys, nested lambdas; exhaustive to depth 2 over a 6-atom alphabet (thorough) or a seeded sample of it (quick), "
    "random to depth 4; nested lambdas that use the outer parameter as a bare name in every generically visited "
    "position, with a module global spelled like that parameter in the callable's module; supplied as source strings, ASTs and capture-free callables; through Select, SelectMany and "
    "Where; non-trivial = at least 4 AST nodes; distinct = distinct (operator, source)"
)
EXPLANATION = (
    "Main theorem streamOp_untyped_identity (Props/C10Full.lean, from follow_untyped: induction over the fuel and every "
    "clause of the type follower): for EVERY class model, if the stream's item type is untyped (Any, a builtin scalar, a "
    "callable, or the dataclass of a dictionary literal over such types) and the lambda calls no registered function by "
    "name (abs / len get their defaults filled in: C07), then whenever Select / SelectMany / Where accept the lambda they "
    "emit exactly the lambda they were given and record no MetaData or callback; the type reported for every "
    "sub-expression is again untyped, untyped receivers have no methods and are not iterable (methodCall_untyped), and "
    "immediately called lambdas are followed with untyped parameter types. The hypotheses are evaluated on every generated "
    "case (driver op untypedHyp) and where they hold the identity is demanded of the IMPLEMENTATION. Correspondence: "
    "ObjectStream.Select/SelectMany/Where on an untyped dataset vs the compiled Lean streamOp with the empty class model. "
    "Oracle: an independent reference in Python of the five designed refusals (mini type inference over the documented "
    "rules); where it predicts no refusal the emitted lambda must be structurally identical to the input and no exception "
    "may occur; where it predicts one the exception must be ValueError; anything else (KeyError, TypeError, "
    "AttributeError ...) is a violation. Second theorem streamOp_untyped_no_internal (Props/C10NoInt.lean, from follow_noInt: "
    "induction over the fuel and every clause of the follower, using follow_untyped for the shape of accepted sub-results): "
    "under the same hypotheses plus wfU (a tree Python's parser can produce: dictionary literals with as many keys as values "
    "whose keys evaluate without a TypeError, no constant tuple index below -len), whatever Select / SelectMany / Where fail "
    "with is a designed refusal (ValueError) - never AttributeError / TypeError / IndexError / KeyError / AssertionError; "
    "Err.designed also admits the model's own fuel exhaustion and opaque constants (outside the modelled fragment). The "
    "hypotheses are evaluated on every generated case (driver ops untypedHyp, wfU) and where they hold a non-ValueError "
    "failure of the IMPLEMENTATION is reported. Stating this theorem exposed defect a2ed5f2 (attribute access on a "
    "dictionary literal with a non-Constant key node raised AttributeError), repaired in the repo. WHICH ValueErrors: streamOp_untyped_refusals_designed (Props/C10Refusals.lean) - the message is one of untypedStreamRefusals "
    "(unknown / non-literal dictionary key, tuple index out of range or not constant, incompatible conditional branches, non-transportable "
    "constant, non-boolean Where filter); that the model's fuel (4*size+8) suffices on untyped expressions IS proved (Props/C10Fuel.lean: follow_noFuel, need_le_followFuel), giving streamOp_untyped_refuses_with_valueError: identity or ValueError, nothing else."
)

MODEL_UNTYPED = (
    '((("ObjectStreamInternalMethods" ("StreamItem") (some (cls "ObjectStream" ((tvar "StreamItem")))) '
    '(("First" () (some (tvar "StreamItem")) none) ("Count" () (some int) none)) () none true)'
    ' ("ObjectStream" ("T") none (("Select" (("f" none)) (some (cls "ObjectStream" ((tvar "S")))) none) ("SelectMany" (("func" none)) (some (cls "ObjectStream" ((tvar "S")))) none)'
    ' ("Where" (("filter" none)) (some (cls "ObjectStream" ((tvar "T")))) none)) () none false))'
    ' (("abs" (("x" none)) (some float) none) ("len" (("x" none)) (some int) none)))'
)


class Refuse(Exception):
    pass


ANY, CALLABLE = "Any", "Callable"
_ENV: list = []   # parameter types of the immediately called lambdas being looked into (innermost last)


def _is_field_name(k) -> bool:
    return isinstance(k, str) and k.isidentifier() and not keyword.iskeyword(k)


def infer(n):
    "independent reference: the type the documentation's rules give, or Refuse for a designed refusal"
    if isinstance(n, ast.Constant):
        return type(n.value)
    if isinstance(n, ast.Name):
        for frame in reversed(_ENV):
            if n.id in frame:
                return frame[n.id]
        return CALLABLE if n.id in ("abs", "len") else ANY
    if isinstance(n, ast.Lambda):
        return CALLABLE
    if isinstance(n, ast.Attribute):
        vt = infer(n.value)
        if isinstance(n.value, ast.Dict):
            hits = [v for k, v in zip(n.value.keys, n.value.values) if isinstance(k, ast.Constant) and k.value == n.attr]
            if not hits:
                if n.attr.lower() == "zip":
                    return ANY
                raise Refuse("key the dictionary literal does not define")
            return infer(hits[-1])  # a later entry overrides an earlier one with the same key (repo fix 348bc47)
        if isinstance(vt, dict):
            if n.attr not in vt:
                raise Refuse("key the dictionary literal does not define")
            return vt[n.attr]
        return ANY
    if isinstance(n, ast.Subscript):
        vt = infer(n.value)
        if not isinstance(n.slice, ast.Slice):
            infer(n.slice)
        else:
            for p in (n.slice.lower, n.slice.upper, n.slice.step):
                if p is not None:
                    infer(p)
        if isinstance(n.value, ast.Tuple):
            s = n.slice
            if not isinstance(s, ast.Constant) or not isinstance(s.value, int):
                raise Refuse("non-constant index into a tuple literal")
            if len(n.value.elts) <= s.value:
                raise Refuse("out-of-range index into a tuple literal")
            return infer(n.value.elts[s.value])
        if isinstance(vt, dict):
            try:
                k = ast.literal_eval(n.slice)
            except Exception:
                raise Refuse("lookup in a dictionary literal with a non-constant key")
            if not isinstance(k, str) or k not in vt:  # a list / dict literal as key is not hashable: not a field either
                raise Refuse("key the dictionary literal does not define")
            return vt[k]
        return ANY
    if isinstance(n, ast.Dict):
        for k in n.keys:
            infer(k)
        tys = [infer(v) for v in n.values]
        try:
            keys = [ast.literal_eval(k) for k in n.keys]
        except Exception:
            raise Refuse("a dictionary key that is not a literal")
        if all(_is_field_name(k) for k in keys) and len(set(keys)) == len(keys):
            return dict(zip(keys, tys))
        return ANY
    if isinstance(n, ast.UnaryOp):
        t = infer(n.operand)
        return bool if isinstance(n.op, ast.Not) else t
    if isinstance(n, ast.BinOp):
        a, b = infer(n.left), infer(n.right)
        if a == ANY or b == ANY:
            return ANY
        if a is float or b is float:
            return float
        if isinstance(n.op, ast.Div):
            return float
        return int
    if isinstance(n, ast.BoolOp):
        for v in n.values:
            infer(v)
        return bool
    if isinstance(n, ast.Compare):
        infer(n.left)
        for c in n.comparators:
            infer(c)
        return bool
    if isinstance(n, ast.IfExp):
        infer(n.test)
        a, b = infer(n.body), infer(n.orelse)
        if a == b and not isinstance(a, dict):
            return a
        if a in (int, float, ANY) and b in (int, float, ANY):
            return float
        raise Refuse("conditional with incompatible branch types")
    if isinstance(n, ast.Call):
        infer(n.func)
        pos = []
        for a in n.args:
            if isinstance(a, ast.Starred):
                infer(a.value)
                pos.append(ANY)
            else:
                pos.append(infer(a))
        kws = {}
        for k in n.keywords:
            kws[k.arg] = infer(k.value)
        if isinstance(n.func, ast.Lambda):
            # an immediately called lambda: the body is typed with the parameters at the types of their arguments
            # (keyword over positional, Any when not given)
            names = [a.arg for a in n.func.args.args]
            frame = {nm: ANY for nm in names}
            for nm, t in zip(names, pos):
                frame[nm] = t
            for nm, t in kws.items():
                if nm in frame:
                    frame[nm] = t
            _ENV.append(frame)
            try:
                return infer(n.func.body)
            finally:
                _ENV.pop()
        return ANY
    if isinstance(n, (ast.Tuple, ast.List)):
        for x in n.elts:
            infer(x.value if isinstance(x, ast.Starred) else x)
        return ANY
    if isinstance(n, ast.Starred):
        infer(n.value)
        return ANY
    return ANY


LEGAL = (str, int, float, bool, complex, bytes)


def expected(op: str, body: ast.AST) -> str:
    try:
        t = infer(body)
    except Refuse as r:
        return "ValueError"
    # constants (the nested lambdas are not followed on an untyped stream, but check_ast looks everywhere)
    for c in ast.walk(body):
        if isinstance(c, ast.Constant) and not isinstance(c.value, LEGAL):
            return "ValueError"
    if op == "Where" and t is not bool:
        return "ValueError"
    return "ok"


def special_call_names(body) -> bool:
    "calls of abs / len are typed call sites (C07), not part of the untyped pass-through claim"
    return any(isinstance(n, ast.Call) and isinstance(n.func, ast.Name) and n.func.id in ("abs", "len") for n in ast.walk(body))


_DS = None


def dataset():
    global _DS
    if _DS is None:
        from func_adl import EventDataset

        class DS(EventDataset):
            async def execute_result_async(self, a, title=None):
                return a

        _DS = DS
    return _DS()


_TYPED = None


def typed_noise(rng):
    """build a few queries on a TYPED dataset whose lambda parameters use the names of the untyped pool: whatever
    the typed follower learns there must not leak into later untyped queries"""
    global _TYPED
    from typing import Iterable
    from func_adl import EventDataset

    if _TYPED is None:
        class Jet:
            def pt(self, scale: int = 1) -> float: ...
            def value(self, k: int = 2) -> int: ...

        class Evt:
            def jets(self, name: str = "dflt") -> Iterable[Jet]: ...
            def pt(self, unit: int = 1000) -> float: ...
            def value(self, k: int = 3) -> int: ...
            def id(self, k: int = 4) -> int: ...

        class TDS(EventDataset[Evt]):
            def __init__(self):
                super().__init__(Evt)

            async def execute_result_async(self, a, title=None):
                return a

        _TYPED = TDS
    for _ in range(3):
        v = rng.choice(["x", "value", "id", "attr", "ctx", "f", "func", "args", "e"])
        w = rng.choice(["value", "x", "j", "elts"])
        try:
            _TYPED().Select(f"lambda {v}: {v}.jets().Select(lambda {w}: {w}.pt())").Where(f"lambda {w}: {w}.Count() > 1")
            _TYPED().SelectMany(f"lambda {v}: {v}.jets()").Select(f"lambda {v}: {v}.value()")
            _TYPED().Where(f"lambda {v}: {v}.pt() > {v}.value()")
        except Exception:
            pass


def check_cases(ctx, cases):
    "cases: (op, body source, how) with how in str|ast|callable"
    reqs, keep = [], []
    for op, body_src, how in cases:
        src = f"lambda e: {body_src}"
        try:
            lam = parse_expr(src)
            lam_enc = enc(lam)
        except (SyntaxError, Unsupported, ValueError) as e:
            ctx.skip(type(e).__name__)
            continue
        if special_call_names(lam.body):
            ctx.skip("abs/len call")
            continue
        n_nodes = sum(1 for _ in ast.walk(lam))
        ctx.count(f"{op}:{src}", n_nodes >= 4, sample={"op": op, "src": src, "how": how}, tags=[op, "how=" + how])
        want = expected(op, lam.body)
        mod = None
        try:
            if how == "str":
                arg = src
            elif how == "ast":
                arg = parse_expr(src)
            else:
                # the module has a global spelled like the lambda's parameter: the parameter must win at every depth
                text = f"e = 2.718\n\n\ndef build(ds):\n    return ds.{op}(lambda e: {body_src})\n"
                try:
                    mod = srcmod.make_module(text, "c10")
                except SyntaxError:
                    ctx.skip("module-syntax")
                    continue
            try:
                s = mod.build(dataset()) if how == "callable" else getattr(dataset(), op)(arg)
                got = ("ok", enc(s.query_ast.args[1]))
            except Unsupported:
                ctx.skip("unsupported-output")
                continue
            except Exception as e:
                got = ("err", impl.classify_exc(e))
        finally:
            if mod is not None:
                srcmod.drop_module(mod)
        if how == "callable":
            # a callable goes through capture rewriting: names that happen to be module globals / builtins are not
            # part of this claim (C04); only compare when the recovered lambda is the written one
            names = {n.id for n in ast.walk(lam) if isinstance(n, ast.Name)} - {"e"}
            if names & set(dir(__builtins__) if not isinstance(__builtins__, dict) else __builtins__.keys()):
                pass
        if got[0] == "err" and got[1] != "ValueError":
            ctx.violate({"op": op, "src": src, "how": how, "got": got[1]}, f"internal error {got[1]} on a valid untyped expression")
        elif want == "ok":
            if got[0] != "ok":
                ctx.violate({"op": op, "src": src, "how": how}, "a valid expression with no designed refusal was refused (ValueError)")
            elif got[1] != lam_enc:
                ctx.violate({"op": op, "src": src, "how": how, "emitted": got[1][:300]}, "the emitted lambda is not structurally identical to the one given")
        else:
            if got[0] == "ok":
                ctx.violate({"op": op, "src": src, "how": how}, "a designed refusal (ValueError) was expected but the query was accepted")
        reqs.append(("streamOp", [MODEL_UNTYPED, op, "any", lam_enc]))
        keep.append((op, src, how, got))
    res = ctx.driver.batch(reqs)
    # hypotheses of the theorem streamOp_untyped_identity, evaluated on every case; where they hold the implementation
    # (not only the model) must emit the lambda it was given or refuse
    hyp = ctx.driver.batch([("untypedHyp", [r[1][0], r[1][2], r[1][3]]) for r in reqs])
    for (op, src, how, got), h in zip(keep, hyp):
        if tuple(h) == ("ok", "true"):
            ctx.dist["hypotheses of streamOp_untyped_identity hold"] += 1
            if got[0] == "ok" and got[1] != enc(parse_expr(src)):
                ctx.violate({"op": op, "src": src, "how": how, "emitted": got[1][:300]},
                            "the hypotheses of the identity theorem hold but the implementation emitted a different lambda")
        else:
            ctx.dist["hypotheses of streamOp_untyped_identity do not hold"] += 1
    # hypotheses of streamOp_untyped_no_internal (untyped, no registered function called by name, a tree the parser can
    # produce): where they hold the implementation (not only the model) must not fail with anything but ValueError
    wf = ctx.driver.batch([("wfU", [r[1][3]]) for r in reqs])
    for (op, src, how, got), h, w in zip(keep, hyp, wf):
        if tuple(h) == ("ok", "true") and tuple(w) == ("ok", "true"):
            ctx.dist["hypotheses of streamOp_untyped_no_internal hold"] += 1
            if got[0] == "err":
                ctx.dist["… and the implementation refused"] += 1
                if got[1] != "ValueError":
                    ctx.violate({"op": op, "src": src, "how": how, "got": got[1]},
                                "the hypotheses of the no-internal-error theorem hold but the implementation failed with an internal error")
        else:
            ctx.dist["hypotheses of streamOp_untyped_no_internal do not hold"] += 1
    for (op, src, how, got), (st, payload) in zip(keep, res):
        if got[0] == "ok":
            from sexpr import parse as sparse, render

            if st != "ok" or render(sparse(payload)[0]) != got[1]:
                ctx.disagree("streamOp(untyped)", {"op": op, "src": src, "how": how}, got[1][:400], (st, payload[:400]))
        else:
            if st != "err" or payload != got[1]:
                ctx.disagree("streamOp(untyped)", {"op": op, "src": src, "how": how}, got, (st, payload[:300]))


def run(ctx):
    rng = ctx.rng
    g = UGen(rng)
    small = enumerate_small()
    if ctx.tier == "quick" and ctx.scale == 1:
        small = rng.sample(small, 500)
    cases = [(rng.choice(["Select", "Select", "SelectMany", "Where"]), s, rng.choice(["str", "str", "ast", "callable"])) for s in small]
    n = ctx.n(900, 40000)
    for _ in range(n):
        op = rng.choice(["Select", "Select", "SelectMany", "Where", "Where"])
        d = rng.choice([1, 2, 2, 3, 4])
        body = g.where_body(d) if op == "Where" and rng.random() < 0.8 else g.expr(d)
        cases.append((op, body, rng.choice(["str", "str", "ast", "callable"])))
    # nested lambdas whose body uses the OUTER parameter as a bare name in a generically visited position
    for _ in range(ctx.n(80, 3000)):
        v = rng.choice(["j", "y", "value", "x"])
        inner = g.expr(rng.choice([1, 2]))
        use = rng.choice([f"({inner} + e)", f"f({inner}, e)", f"({inner}, e)", f"[e, {inner}][0]", f"(e if {inner} else 1)",
                          f"({v} < e)", f"(-e)", f"g(k=e)", f"{{'a': e}}", f"f(lambda z: (z, {v}, e))"])
        cases.append((rng.choice(["Select", "SelectMany", "Where"]), f"e.m(lambda {v}: {use})", rng.choice(["callable", "callable", "str", "ast"])))
    # a subscripted attribute that is called, on receivers whose type the library knows without any class model
    # (literals, callables, comparison results): not a parameterized property, must pass through
    for recv in ["'a'", "(1)", "(2.5)", "abs", "(lambda y: y)", "(e.x > 1)", "(not e)", "b'x'", "True"]:
        for at in rng.sample(["args", "pt", "jets", "value", "keys"], 2):
            cases.append((rng.choice(["Select", "SelectMany"]), f"{recv}.{at}[{rng.choice(['0', chr(39) + 'zz' + chr(39), 'e.n'])}]({rng.choice(['e', 'e.pt', '1, k=e'])})",
                          rng.choice(["str", "ast", "callable"])))
    # the same on a field of a dictionary literal (its dataclass is a class, but a field is not a property) and on a value
    # built from one (repo fix for `{'a': e.x, 'pt': abs}.pt['a'](1)`)
    for recv in ["{'a': e.x, 'pt': abs}", "{'pt': e, 'n': 1}", "(lambda d: d)({'pt': e.x, 'n': 2})"]:
        for at in ["pt", "n", "a"]:
            if f"'{at}'" not in recv:
                continue
            for sl in ["'a'", "0", "e.k"]:
                cases.append((rng.choice(["Select", "SelectMany"]), f"{recv}.{at}[{sl}]({rng.choice(['1', 'e', 'k=e.pt'])})", rng.choice(["str", "ast"])))
    # a dictionary literal looked up with a key that is itself a literal container (not hashable): a designed refusal
    for key in ["{}", "{'a': 1}", "[1]", "[]", "(1, [2])", "{1}", "('a',)", "b'a'", "None", "1.5"]:
        cases.append((rng.choice(["Select", "SelectMany", "Where"]), f"{{'pt': 1, 'q': e}}[{key}]", rng.choice(["str", "ast", "callable"])))
        cases.append(("Select", f"f({{'a': e.x, 'b': 2}}[{key}], 1)", "str"))
    # a dictionary literal some of whose keys are not Constant nodes (a negative number, a tuple, a name), read by
    # attribute, by key and left alone: attribute access must look at the constant keys only (repo fix a2ed5f2)
    for k1 in ["-1", "(1, 2)", "-2.5", "('a', 'b')", "+1", "()"]:
        for tail in [".a", ".b", "['a']", "", ".a.pt", ".zip"]:
            cases.append((rng.choice(["Select", "SelectMany"]), rng.choice([f"{{{k1}: 3, 'a': e.x}}{tail}", f"{{'a': e.x, {k1}: e}}{tail}", f"{{{k1}: e}}{tail}"]),
                          rng.choice(["str", "ast", "callable"])))
    # immediately called lambdas (given as text / AST: a Python callable has them inlined before, C05): parameters bound
    # positionally, by keyword, both, too few arguments, no parameter at all, a starred argument
    for _ in range(ctx.n(60, 1500)):
        v, w = rng.sample(["j", "y", "value", "x", "k"], 2)
        b1 = rng.choice([f"{v}.pt", f"{v}", f"({v}.pt, {w})", f"{v}.m({w})", f"{v} + e.n", f"{{'a': {v}}}.a", f"({v}, 1)[0]"])
        arg1, arg2 = g.expr(rng.choice([0, 1])), g.expr(rng.choice([0, 1]))
        shape = rng.choice([f"(lambda {v}: {b1})({arg1})", f"(lambda {v}: {b1})({v}={arg1})", f"(lambda {v}, {w}: {b1})({arg1}, {w}={arg2})",
                            f"(lambda {v}, {w}: {b1})({w}={arg2}, {v}={arg1})", f"(lambda {v}, {w}: {b1})({arg1})", f"(lambda: e.pt)()",
                            f"(lambda {v}: {b1})(*e.xs)", f"(lambda {v}, {w}: {b1})({arg1}, {arg2})", f"(lambda {v}: (lambda {w}: {b1})({w}={v}))({arg1})"])
        cases.append((rng.choice(["Select", "SelectMany", "Where"]), shape, rng.choice(["str", "ast"])))
    # method calls whose receiver is a constant or a value of builtin type (str / bytes / int / float methods, also through a
    # called lambda, a tuple element, a conditional): nothing is known about them to the follower - emitted as written
    for _ in range(ctx.n(40, 800)):
        recv = rng.choice(["'a,b'", "'a b'", "'pt={}'", "b'xy'", "(12)", "(2.5)", "'abc'", "(lambda s: s)('a,b')", "('a,b', 1)[0]"])
        call = rng.choice([".split(',')", ".split()", ".format(e.pt)", ".startswith(e.prefix)", ".bit_length()", ".hex()", ".upper()", ".join(e.names)",
                           ".split(',', 1)", ".replace('a', e.x)", ".is_integer()", ".strip()", ".encode()", ".count('a')"])
        wrap = rng.choice(["{}", "({}, e.x)", "{} == e.y", "e.f({})", "[{}]"])
        op = rng.choice(["Select", "Select", "SelectMany"]) if "==" not in wrap else rng.choice(["Select", "Where"])
        cases.append((op, wrap.format(recv + call), rng.choice(["str", "ast"])))
    # called lambdas whose LATER argument mentions a name spelled like an EARLIER parameter (the stream's own variable e, or
    # the parameter of an enclosing called lambda): arguments are typed in the enclosing scope, all of them, before any
    # parameter is bound (seed C10-w7-2) - the earlier argument is of another kind (dictionary literal, string, tuple)
    for _ in range(ctx.n(40, 800)):
        p2 = rng.choice(["q", "w", "d2"])
        first = rng.choice(["{'eta': e.eta}", "'none'", "(e.a, 1)", "{'b': 1}", "1.5", "{'a': e.x, 'pt': 2}"])
        use = rng.choice([f"{p2}.pt", f"{p2}.eta", f"{p2}['a']", f"({p2} if {p2}.ok else 0)", f"{p2}.a", f"({p2}, e)[1].pt", f"{p2}"])
        shape = rng.choice([
            f"(lambda e, {p2}: {use})({first}, e)",
            f"(lambda e, {p2}: {use})({p2}=e, e={first})",
            f"(lambda d: (lambda d, {p2}: {use})({first}, d))({{'a': e.a}})",
            f"(lambda d: (lambda d, {p2}: {use})(1, d))({{'a': e.a}})",
            f"(lambda x, y: y if y.ok else 0)('none', e)",
            f"(lambda e, {p2}: ({use}, e))({first}, e)",
        ])
        cases.append((rng.choice(["Select", "Select", "SelectMany", "Where"]), shape, rng.choice(["str", "ast"])))
    for i in range(0, len(cases), 300):
        typed_noise(rng)
        check_cases(ctx, cases[i : i + 300])


def replay(ctx, case):
    c = case if "src" in case else case.get("case", {})
    src = c["src"]
    check_cases(ctx, [(c["op"], src[len("lambda e: "):], c.get("how", "str"))])
