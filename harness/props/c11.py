"""C11 — see streams.py (shared history machinery for C11 / C12 / C16)."""
from __future__ import annotations

import streams

ID = "C11"
THEOREMS = ["streams_immutable", "siblings_independent", "step_appends", "inv_run"]
LEANCHECKER_MODULES = ["Fadl.Props.C11", "Fadl.Lemmas.StreamInv"]  # re-checked by leanchecker in the thorough tier
EXPLANATION = ("Theorems (over the heap model of the stream plumbing, Model/Stream.lean): every operation only appends cells and stream objects (step_appends); for every well-formed history and every continuation, each existing stream is the same object with the same item type and the same query field tree afterwards (streams_immutable), and its visible query metadata is unchanged (siblings_independent). Correspondence: every observation (query tree, item type, executor, lookups, call log) after every step of generated histories, real library vs compiled Lean state machine. Oracle: ast.dump + item_type snapshot of every live stream compared after every step.")
ASSUMPTIONS = ["lambdas are modelled as immutable values: a user-owned ast.Lambda OBJECT passed to several operator calls is outside the model (the library copies such a lambda since the repair of C11-shared-ast-lambda-object; exercised by a dedicated oracle)", "the type follower's in-place edits inside fresh lambda nodes are invisible to other streams (fresh nodes per call)"]
RULE = (
    "seeded histories (harness/streams.py: gen_history) of 4-20 operations over a forest of streams on 1-4 datasets "
    "(root EventDataset(...) nodes with 0-2 extra arguments): "
    "Select/Where/SelectMany with text lambdas, MetaData (empty and non-empty, empty ones stacked directly on each other and then executed), QMetaData (new keys, falsy values 0 and '', repeated keys with "
    "equal/different values, consecutive calls, on roots and derived streams), the four As* terminals, value()/value_async() "
    "with and without override executor and title, executors that return or raise, and batches of 2-4 concurrently awaited "
    "value_async() calls completed in a generated permutation; after EVERY step every live stream is observed; "
    "non-trivial = history with at least 4 operations; distinct = distinct operation list"
)


def shared_lambda_oracle(ctx):
    """One user-owned ast.Lambda object passed to operator calls on two streams (the second one typed):
    the first stream's query must not change.  (It did on the pinned tree: formerly the open finding
    C11-shared-ast-lambda-object, repaired; a recurrence is an ordinary violation.)"""
    import ast
    from typing import Iterable
    from func_adl import EventDataset

    class Jet:
        def pt(self, scale: int = 7) -> int: ...

    class Evt:
        def Jets(self, name: str = "dflt") -> Iterable[Jet]: ...
        def met(self, unit: int = 1) -> int: ...

    class U(EventDataset):
        async def execute_result_async(self, a, title=None):
            return a

    class T(EventDataset[Evt]):
        def __init__(self):
            super().__init__(Evt)

        async def execute_result_async(self, a, title=None):
            return a

    bodies = ["(e.Jets(), 1)", "[e.met(), 2]", "e.met() + 1", "(e.met(unit=3), e.Jets())", "e.x", "(e.x, e.y)"]
    for body in bodies:
        for op in ("Select", "SelectMany" if "Jets" in body and body.startswith("e.") else "Select"):
            lam = ast.parse("lambda e: " + body, mode="eval").body
            first = getattr(U(), op)(lam)
            before = ast.dump(first.query_ast)
            for second_ds in (U(), T()):
                try:
                    getattr(second_ds, op)(lam)
                except Exception:
                    pass
                ctx.count(f"shared-lambda:{body}:{type(second_ds).__name__}", True, tags=["shared-ast-lambda-object"])
                after = ast.dump(first.query_ast)
                if after != before:
                    ctx.violate({"body": body, "op": op, "second_dataset": type(second_ds).__name__,
                                 "before": ast.unparse(ast.parse(before and "0")) if False else before[-200:], "after": after[-200:]},
                                "C11: passing the same ast.Lambda object to an operator on a second (typed) stream changed the first stream's query")
                    before = after


from typing import Iterable  # noqa: E402


class _EQ_Trk:
    def pt(self, scale: int = 7) -> int: ...


class _EQ_Jet:
    def tracks(self) -> Iterable[_EQ_Trk]: ...
    def pt(self, scale: float = 1.0) -> float: ...


class _EQ_Jet2:
    def tracks(self, kind: str = "all") -> Iterable[_EQ_Trk]: ...
    def pt(self, scale: float = 2.0, extra: int = 5) -> float: ...


class _EQ_Evt:
    def Jets(self, name: str = "dflt") -> Iterable[_EQ_Jet]: ...


def lambda_from_earlier_query_oracle(ctx):
    """An ast.Lambda object taken OUT OF the finished query of a typed stream (a nested Select / Where lambda that the type
    follower edited where it stood) and handed to an operator of another stream: the earlier stream's query must not change
    (wave-10 review of repo fix af4d3c6: the mark that let the nested lambda be followed in place stayed on the node, so it
    was not copied the second time; repaired by f8437e2)."""
    import ast
    from typing import Iterable
    from func_adl import EventDataset

    Trk, Jet, Jet2, Evt = _EQ_Trk, _EQ_Jet, _EQ_Jet2, _EQ_Evt

    def mk(cls):
        class T(EventDataset[cls]):  # type: ignore
            def __init__(self):
                super().__init__(cls)

            async def execute_result_async(self, a, title=None):
                return a
        return T()

    for text in ["lambda e: e.Jets().Select(lambda j: j.tracks())", "lambda e: e.Jets().Select(lambda j: j.pt())",
                 "lambda e: e.Jets().Where(lambda j: j.pt() > 2)", "lambda e: e.Jets().Select(lambda j: j.tracks().Select(lambda t: t.pt()))"]:
        for how in ("str", "ast"):
            first = mk(Evt).Select(text if how == "str" else ast.parse(text, mode="eval").body)
            before = ast.dump(first.query_ast)
            nested = [n for n in ast.walk(first.query_ast.args[1].body) if isinstance(n, ast.Lambda)]
            for lam in nested:
                for op in ("Select", "Where"):
                    try:
                        getattr(mk(Jet2), op)(lam)
                    except Exception:
                        pass
                    ctx.count(f"lambda-from-earlier-query:{text}:{how}:{op}", True, tags=["lambda-from-earlier-query"])
                    after = ast.dump(first.query_ast)
                    if after != before:
                        ctx.violate({"text": text, "how": how, "op": op, "before": ast.unparse(ast.parse(ast.unparse(first.query_ast)))[:0] + before[-240:], "after": after[-240:]},
                                    "C11: handing a lambda taken out of an earlier stream's query to an operator of another stream changed the earlier stream's query")
                        before = after


def shared_text_oracle(ctx):
    """The same lambda TEXT (and the same Python callable) given to operators on streams of different item types - untyped,
    and two typed datasets whose classes declare different defaults: every stream keeps the query it had when it was made
    (seed C11-w6-2: one parsed tree per text, shared between streams and then edited in place by type following)."""
    import ast
    from typing import Iterable
    from func_adl import EventDataset

    class Jet:
        def pt(self, scale: int = 7) -> int: ...

    class Evt:
        def Jets(self, name: str = "dflt") -> Iterable[Jet]: ...
        def met(self, unit: int = 1) -> int: ...

    class Jet2:
        def pt(self, scale: int = 8, extra: str = "x") -> int: ...

    class Evt2:
        def Jets(self, name: str = "other", n: int = 2) -> Iterable[Jet2]: ...
        def met(self, unit: int = 5, k: int = 0) -> int: ...

    def mk(cls):
        if cls is None:
            class U(EventDataset):
                async def execute_result_async(self, a, title=None):
                    return a
            return U()

        class T(EventDataset[cls]):  # type: ignore
            def __init__(self):
                super().__init__(cls)

            async def execute_result_async(self, a, title=None):
                return a
        return T()

    rng = ctx.rng
    texts = ["lambda e: e.Jets()", "lambda e: (e.met(), 1)", "lambda e: e.Jets().Select(lambda j: j.pt())", "lambda e: e.met() > 2",
             "lambda e: e.Jets(name='a')", "lambda e: [e.met(unit=3), e.met()]"]
    f_callable = lambda e: e.met()  # noqa: E731
    for text in texts + [f_callable]:
        order = [None, Evt, Evt2, None, Evt2, Evt]
        rng.shuffle(order)
        made = []
        for cls in order:
            op = "Where" if isinstance(text, str) and ">" in text else "Select"
            try:
                s = getattr(mk(cls), op)(text)
            except Exception:
                continue
            made.append((s, ast.dump(s.query_ast), s.item_type, cls.__name__ if cls else "untyped"))
            ctx.count(f"shared-text:{text if isinstance(text, str) else 'callable'}:{[c.__name__ if c else 'U' for c in order]}", True,
                      tags=["same lambda text on streams of different item types"])
            for (s0, d0, t0, n0) in made:
                if ast.dump(s0.query_ast) != d0 or s0.item_type != t0:
                    ctx.violate({"text": text if isinstance(text, str) else "lambda e: e.met()", "order": [c.__name__ if c else "untyped" for c in order],
                                 "changed_stream_on": n0, "before": d0[-250:], "after": ast.dump(s0.query_ast)[-250:]},
                                "C11: deriving a stream with the same lambda text on another dataset changed an existing stream's query")
                    return


def run(ctx):
    streams.run_histories(ctx, ctx.n(150, 4000), ID)
    shared_lambda_oracle(ctx)
    shared_text_oracle(ctx)
    lambda_from_earlier_query_oracle(ctx)


def replay(ctx, case):
    import ast as _ast

    ops = _ast.literal_eval(case.get("ops") or case.get("case", {}).get("ops"))
    r = streams.Runner(ctx, ops, ID)
    obs = r.run()
    if obs is not None:
        (st, payload), = ctx.driver.batch([("history", [streams.lean_ops(ops, [streams.type_name(s.item_type) for s in r.streams]), "(" + " ".join('"%s"' % k for k in streams.KEYS) + ")"])])
        if st != "ok" or payload != obs:
            ctx.disagree("stream-history", {"ops": repr(ops)}, "replay differs", st)
