"""C19 — aggregate shortcuts lower to equivalent folds."""
from __future__ import annotations

import ast
import copy
import functools

from common import compare_ev, fixed_datasets
from astcodec import Unsupported, enc, parse_expr
from gen.expr import Opt, gen_query
import impl  # noqa: F401

ID = "C19"
THEOREMS = ["aggT_sem", "aggT_no_shortcuts_left", "aggT_frame", "shortcut_fold",
            "sumInts_eq", "maxInts_eq", "minInts_eq", "seqOp1_len", "seqOp1_count"]
LEANCHECKER_MODULES = ["Fadl.Props.C19"]  # re-checked by leanchecker in the thorough tier
RULE = (
    "seeded sort-directed queries containing len/Count/Sum/Max/Min in function-call, method, nested "
    "(inside the sequence argument and inside lambdas) and non-call positions, plus calls with 0, 2, 3 "
    "arguments and near-miss names; non-trivial = contains at least one one-argument shortcut call; "
    "distinct = distinct source text; plus integer sequences (including empty) for the fold oracle"
)
ASSUMPTIONS = ["Sum/Max/Min are claimed on integer sequences (the property's quantifier); bool/float elements are outside"]
EXPLANATION = (
    "Theorems: aggT_sem (ev preserved whenever the original evaluates), shortcut_fold + sumInts_eq/maxInts_eq/"
    "minInts_eq/seqOp1_len (the folds equal len / sum / max-with-0 / min-with-0), aggT_no_shortcuts_left, "
    "aggT_frame. Correspondence: aggregate_node_transformer vs compiled aggT. Oracles on the implementation: "
    "declarative parallel-walk reference, residual-shortcut scan, CPython evaluation of the emitted fold "
    "against len/sum/max/min on integer lists, ev equality on datasets."
)

SHORT = ("len", "Count", "Sum", "Max", "Min")
LAMBDA_SRC = {
    "len": "lambda acc,v: acc+1", "Count": "lambda acc,v: acc+1", "Sum": "lambda acc,v: acc + v",
    "Max": "lambda acc,v: acc if acc > v else v", "Min": "lambda acc,v: acc if acc < v else v",
}


def is_shortcut_call(n) -> bool:
    return (
        isinstance(n, ast.Call) and isinstance(n.func, ast.Name) and n.func.id in SHORT and len(n.args) == 1
        # exactly one argument: a keyword argument or a starred argument makes it a call with another argument count,
        # which the property says is left unchanged (wave-9 audit)
        and not n.keywords and not isinstance(n.args[0], ast.Starred)
    )


def reference_ok(a: ast.AST, b: ast.AST) -> bool:
    if is_shortcut_call(a):
        if not (isinstance(b, ast.Call) and isinstance(b.func, ast.Name) and b.func.id == "Aggregate"):
            return False
        if b.keywords or len(b.args) != 3:
            return False
        if not (isinstance(b.args[1], ast.Constant) and b.args[1].value == 0 and type(b.args[1].value) is int):
            return False
        want = ast.dump(ast.parse(LAMBDA_SRC[a.func.id], mode="eval").body)
        if ast.dump(b.args[2]) != want:
            return False
        return reference_ok(a.args[0], b.args[0])
    if type(a) is not type(b):
        return False
    for f in a._fields:
        x, y = getattr(a, f, None), getattr(b, f, None)
        if isinstance(x, list):
            if not isinstance(y, list) or len(x) != len(y):
                return False
            for p, q in zip(x, y):
                if isinstance(p, ast.AST):
                    if not reference_ok(p, q):
                        return False
                elif p != q:
                    return False
        elif isinstance(x, ast.AST):
            if not isinstance(y, ast.AST) or not reference_ok(x, y):
                return False
        elif x != y:
            return False
    return True


def _variants(op):
    return [op + "s", op.lower() if op != "len" else "Len", op.upper(), "x" + op, op + "_", op[:-1]]


def decorate(rng, src: str) -> str:
    import re

    r = rng.random()
    if r < 0.25:
        # method form of the same name stays (Count/Sum/... as method) – generator 'method' form gives these
        return src
    if r < 0.4:
        n = rng.choice(SHORT)
        extra = rng.choice([f"{n}()", f"{n}(ds, ds)", f"{n}(ds, 1, 2)", f"ds.{n}", n, f"{n}.x", f"ds.{n}(ds)",
                            f"{rng.choice(_variants(n))}(ds)", f"{n}(*ds)", f"{n}(k=ds)",
                            # another argument count: the call itself stays, the shortcuts INSIDE its arguments are lowered
                            f"{n}(len(ds), Count(ds))", f"{n}(Select(ds, lambda r: len(r.nums)), 100)", f"{n}(Sum(ds), k={rng.choice(SHORT)}(ds))",
                            f"{n}({rng.choice(SHORT)}(ds), {rng.choice(SHORT)}(ds), 3)", f"ds.{n}(len(ds), 1)", f"{n}(k={rng.choice(SHORT)}(ds.nums))"])
        return f"({src}, {extra})"
    if r < 0.55:
        n, m = rng.choice(SHORT), rng.choice(SHORT)
        return f"{n}(Select({src} if False else ds, lambda q: {m}(q.nums) + {rng.choice(SHORT)}(q.jets.Select(lambda j: {m}(j.vals)))).pack.items)"
    if r < 0.62:
        # a lambda parameter spelled like a shortcut: the property says every one-argument call of these names is lowered, at
        # any depth inside lambdas, whatever else the name may mean there (seed C19-w7-2)
        n, m = rng.choice(SHORT), rng.choice(SHORT)
        return rng.choice([
            f"({src}, Select(ds, lambda {n}: {n}(ds)))",
            f"Select(ds, lambda {n}: Select({n}.jets, lambda v: v.pt + {n}(ds) + {m}(v.vals)))",
            f"({src}, (lambda {n}, k: {n}(k.nums) + {m}(k.nums))(1, First(ds)))",
        ])
    if r < 0.7:
        sites = [m for m in re.finditer(r"\b(len|Count|Sum|Max|Min)\(", src)]
        if sites:
            m = rng.choice(sites)
            return src[: m.start()] + rng.choice(_variants(m.group(1))) + src[m.end() - 1 :]
    return src


def check_cases(ctx, srcs):
    from func_adl.ast.aggregate_shortcuts import aggregate_node_transformer

    reqs, keep = [], []
    for src in srcs:
        try:
            a = parse_expr(src)
            a_enc = enc(a)
        except (Unsupported, SyntaxError) as e:
            ctx.skip(type(e).__name__)
            continue
        orig = copy.deepcopy(a)
        try:
            out = aggregate_node_transformer().visit(a)
            out_enc = enc(out)
        except Exception as e:
            ctx.violate({"src": src}, f"aggregate_node_transformer raised {type(e).__name__}: {e}")
            continue
        nontrivial = any(is_shortcut_call(n) for n in ast.walk(orig))
        ctx.count(src, nontrivial, sample={"src": src, "out": ast.unparse(out)},
                  tags=["has-shortcut" if nontrivial else "no-shortcut"])
        if any(is_shortcut_call(n) for n in ast.walk(out)):
            ctx.violate({"src": src, "out": ast.unparse(out)}, "a one-argument shortcut call remains")
        kw = False
        if not kw and not reference_ok(orig, out):
            ctx.violate({"src": src, "out": ast.unparse(out)},
                        "result is not the original with exactly the one-argument shortcut calls replaced by Aggregate folds")
        reqs.append(("aggT", [a_enc]))
        keep.append((src, a_enc, out_enc, kw))
    res = ctx.driver.batch(reqs)
    pairs = []
    for (src, a_enc, out_enc, kw), (st, payload) in zip(keep, res):
        if st != "ok" or payload != out_enc:
            ctx.disagree("aggT", {"src": src}, out_enc, payload)
        if not kw:
            pairs.append(({"src": src}, a_enc, out_enc))
    ds = fixed_datasets(ctx.rng, 3)
    compare_ev(ctx, ctx.driver, pairs, ds, "the lowered expression evaluates differently from the original")


def fold_oracle(ctx):
    "run the emitted folds in CPython against len/sum/max/min on integer lists (including empty)"
    from func_adl.ast.aggregate_shortcuts import aggregate_node_transformer

    def Aggregate(seq, init, f):
        return functools.reduce(f, seq, init)

    refs = {
        "len": len, "Count": len, "Sum": sum,
        "Max": lambda s: max([0] + list(s)), "Min": lambda s: min([0] + list(s)),
    }
    seqs = [[], [0], [5], [-3], [1, 2, 3], [-1, -2], [3, -7, 7, 0]]
    for _ in range(ctx.n(40, 400)):
        seqs.append([ctx.rng.randint(-50, 50) for _ in range(ctx.rng.randint(0, 7))])
    for name, ref in refs.items():
        node = aggregate_node_transformer().visit(parse_expr(f"{name}(s)"))
        code = compile(ast.fix_missing_locations(ast.Expression(node)), "<agg>", "eval")
        for s in seqs:
            try:
                got = eval(code, {"Aggregate": Aggregate, "s": s})
            except Exception as e:
                got = f"raised {type(e).__name__}"
            ctx.count(f"fold:{name}:{s}", True, tags=["fold-oracle"])
            if got != ref(s) or type(got) is not int:
                ctx.violate({"shortcut": name, "sequence": s, "emitted": ast.unparse(node)},
                            f"fold gives {got!r}, Python gives {ref(s)!r}")


def run(ctx):
    fold_oracle(ctx)
    n = ctx.n(1200, 40000)
    done = 0
    while done < n:
        srcs = []
        for _ in range(min(2000, n - done)):
            opt = Opt(form=ctx.rng.choice(["func", "func", "mixed", "method"]), comps=ctx.rng.random() < 0.3,
                      max_depth=ctx.rng.choice([2, 3, 4]))
            src, _ = gen_query(ctx.rng, opt, top_sort=ctx.rng.choice([None, ("int",), ("seq", ("int",))]))
            srcs.append(decorate(ctx.rng, src))
        check_cases(ctx, srcs)
        done += len(srcs)


def replay(ctx, case):
    if "shortcut" in case:
        fold_oracle(ctx)
        return
    src = case.get("src") or case.get("case", {}).get("src")
    check_cases(ctx, [src])
