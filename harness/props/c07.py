"""C07 — see typed.py (shared machinery for C07 / C08 / C09)."""
from __future__ import annotations

import typed

ID = "C07"
THEOREMS = ["fill_matches_bind", "fillLoop_tail", "fillLoop_skip", "fill_missing_required", "operators_untouched", "findKeyword_eq"]
LEANCHECKER_MODULES = ["Fadl.Props.C07"]  # re-checked by leanchecker in the thorough tier
RULE = (
    "generated class models (gen/classes.py: Trk, Cal, Jet, Vec[T](Iterable[T]), JVec(Vec[Jet]), Evt, an optional registered "
    "collection class, two registered functions; 0-4 parameters per method with a random suffix of defaults of int/float/"
    "str/bool type; class-level, method-level, function and parameterized-property callbacks placed at random, class-level callbacks also on the generic bases Vec / Grouped and their subclasses JVec / ListGroups so that inherited methods and inherited callbacks both occur) and "
    "lambdas over them: every positional/keyword split Python accepts, collection-operator lambdas passed positionally or by keyword (f=, filter=), shuffled keyword order, missing required "
    "parameters, calls at every nesting depth through Select/Where/SelectMany/First/Count on collections and through "
    "dictionary fields, lambda parameter names re-used across nesting levels, method names shared between classes; "
    "non-trivial = every case; distinct = distinct (class model, operator, lambda source)"
)
EXPLANATION = ("Theorems: fill_matches_bind (the normalised call = the user's positional arguments followed, in declaration order, by what Python's binding gives for every further parameter - keyword value, else declared default - with the consumed keywords removed; any number of parameters, any keyword order), fill_missing_required (ValueError), operators_untouched (Select/Where/SelectMany calls inside lambdas keep the user's arguments: the internal known_types parameter is skipped). Correspondence: the whole follower (ObjectStream.Select/SelectMany/Where on typed datasets over generated class models) vs the compiled Lean streamOp: emitted lambda, item type, MetaData list, callback log. Oracle on the implementation: the generator computes, from the signature alone (positional prefix + shuffled keywords + declared defaults), the fully positional text every typed call site must have at every nesting depth; missing required parameter => ValueError.")
ASSUMPTIONS = ["the follower's net effect on nested lambdas is modelled functionally (DESIGN 4.6); typing internals are replaced by the Ty/Model algebra (single-inheritance chains)"]


def run(ctx):
    typed.run_cases(ctx, ctx.n(30, 200), 60, ID)


def replay(ctx, case):
    typed.run_cases(ctx, 6, 60, ID)
