"""C07 — see typed.py (shared machinery for C07 / C08 / C09)."""
from __future__ import annotations

import typed

ID = "C07"
THEOREMS = ["follow_spec", "streamOp_spec_ok", "streamOp_spec_error", "follow_fuel_irrelevant", "follow_elabSound", "follow_emits_elab", "streamOp_emits_elab", "methodElab_full_positional", "candElab_full", "fillDefaults_full", "fillLoop_full", "follow_refusals_are_declared", "fill_matches_bind", "fillLoop_tail", "fillLoop_skip", "fill_missing_required", "operators_untouched", "findKeyword_eq"]
LEANCHECKER_MODULES = ["Fadl.Props.FuelMono", "Fadl.Props.FollowSpec", "Fadl.Props.C07", "Fadl.Props.C07Elab"]  # re-checked by leanchecker in the thorough tier
RULE = (
    "generated class models (gen/classes.py: Trk, Cal, Jet, Vec[T](Iterable[T]), JVec(Vec[Jet]), Evt, an optional registered "
    "collection class, two registered functions; 0-4 parameters per method with a random suffix of defaults of int/float/"
    "str/bool type; class-level, method-level, function and parameterized-property callbacks placed at random, class-level callbacks also on the generic bases Vec / Grouped and their subclasses JVec / ListGroups so that inherited methods and inherited callbacks both occur) and "
    "lambdas over them: every positional/keyword split Python accepts, collection-operator lambdas passed positionally or by keyword (f=, filter=), shuffled keyword order, missing required "
    "parameters, calls at every nesting depth through Select/Where/SelectMany/First/Count on collections and through "
    "dictionary fields, lambda parameter names re-used across nesting levels, method names shared between classes; "
    "non-trivial = every case; distinct = distinct (class model, operator, lambda source)"
)
EXPLANATION = ("Main theorem follow_elabSound (Props/C07Elab.lean; induction over the fuel through all five mutually recursive functions of the follower model): for EVERY class model, environment, stream state and expression, whenever the follower accepts the expression the tree it returns is elabOf of the expression THE USER WROTE (Model/ElabSpec.lean: a compositional function of the declarations, the types in scope and the expression; no stream state) - so at every nesting depth each call node of the output is the elaboration of the corresponding call node of the input. For a method call on a receiver of declared type the elaboration is the deciding candidate's call handed to the class-level and then the method-level callback, and methodElab_full_positional / candElab_full / fillDefaults_full / fillLoop_full prove that this call carries every declared parameter of the candidate's method positionally, after the positional arguments the user wrote; registered functions likewise. follow_refusals_are_declared (Props/C08Complete.lean): a refusal of the follower, in particular 'Argument x is required' for an omitted parameter without default at any depth, is a refusal of the declared-type checker on the expression as written. The specification is executed too: driver op streamOpElab is compared with the lambda the implementation emits for every accepted generated lambda (unit streamOpElab(spec); spec:emitted-lambda-compared). Local theorems: fill_matches_bind (the normalised call = the user's positional arguments followed, in declaration order, by what Python's binding gives for every further parameter - keyword value, else declared default - with the consumed keywords removed; any number of parameters, any keyword order), fill_missing_required (ValueError), operators_untouched (Select/Where/SelectMany calls inside lambdas keep the user's arguments: the internal known_types parameter is skipped). Correspondence: the whole follower (ObjectStream.Select/SelectMany/Where on typed datasets over generated class models) vs the compiled Lean streamOp: emitted lambda, item type, MetaData list, callback log. Oracle on the implementation: the generator computes, from the signature alone (positional prefix + shuffled keywords + declared defaults), the fully positional text every typed call site must have at every nesting depth; missing required parameter => ValueError.")
ASSUMPTIONS = ["the follower's net effect on nested lambdas is modelled functionally (DESIGN 4.6); typing internals are replaced by the Ty/Model algebra (single-inheritance chains)"]


def run(ctx):
    import interp_types_probe

    interp_types_probe.run(ctx, "C07")
    typed.run_cases(ctx, ctx.n(30, 200), 60, ID)


def replay(ctx, case):
    typed.run_cases(ctx, 6, 60, ID)
