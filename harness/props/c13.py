"""C13 — Python values embedded in a query keep their exact value."""
from __future__ import annotations

import ast
import math

from astcodec import Unsupported, enc
from common import pyval_sexpr, same_value
from gen.values import gen_columns, gen_metadata, gen_scalar, gen_str, gen_value
import impl
import srcmod

ID = "C13"
THEOREMS = ["asAst_exact", "terminals_exact", "checkAst_iff", "checkAst_refuses", "dictOfPairs_distinct"]
LEANCHECKER_MODULES = ["Fadl.Props.C13"]  # re-checked by leanchecker in the thorough tier
RULE = (
    "seeded values (gen/values.py): strings over quote / backslash / control / bracket+operator / Latin-1 / "
    "BMP / astral alphabets and code-like texts, ints (incl. > 64 bit), finite floats (incl. -0.0, 1e22, "
    "subnormals, random bit patterns), bool, None, bytes, nested list/tuple/dict; pushed through as_ast, "
    "MetaData, AsPandasDF, AsROOTTTree, AsParquetFiles, AsAwkwardArray, declared default values of typed "
    "methods and captured closure/global variables; non-trivial = value is not an ASCII-alphanumeric "
    "string or small int; distinct = distinct (entry point, repr(value))"
)
EXPLANATION = (
    "Theorems: asAst_exact (literal_eval of the emitted literal is the value, same type, all nestings), "
    "terminals_exact (every literal argument of the five terminals), checkAst_iff / checkAst_refuses "
    "(exactly the transportable scalar constants pass, anything else is a ValueError). Correspondence: "
    "as_ast, the terminals and check_ast vs the compiled Lean definitions. Oracle on the implementation: "
    "ast.literal_eval of the literal nodes in stream.query_ast, compared by value and type with what was "
    "handed in, at every entry point; ValueError for non-transportable defaults / captures."
)
ASSUMPTIONS = [
    "CPython's tokenizer/parser/repr are outside the Lean model: valToExpr states what as_ast returns; "
    "the correspondence run compares it with the real as_ast on every generated value",
    "floats are finite (inf/nan are outside the property); None inside a lambda is a designed refusal",
]


def trivial(v) -> bool:
    return (isinstance(v, str) and v.isascii() and v.replace("_", "a").isalnum()) or (type(v) is int and abs(v) < 100)


def encodable(v) -> bool:
    try:
        pyval_sexpr(v)
        return True
    except TypeError:
        return False


def has_surrogate(v) -> bool:
    if isinstance(v, str):
        return any(0xD800 <= ord(c) <= 0xDFFF for c in v)
    if isinstance(v, (list, tuple)):
        return any(has_surrogate(x) for x in v)
    if isinstance(v, dict):
        return any(has_surrogate(k) or has_surrogate(x) for k, x in v.items())
    return False


_DS = None


def dataset():
    global _DS
    if _DS is None:
        from func_adl import EventDataset

        class DS(EventDataset):
            async def execute_result_async(self, a, title=None):
                return a

        _DS = DS
    return _DS()


def check_literal(ctx, where, given, node, reqs, model_req):
    "oracle + queue the correspondence request"
    try:
        back = ast.literal_eval(node)
        if not same_value(back, given):
            ctx.violate({"entry": where, "value": repr(given), "emitted": ast.dump(node)[:300], "evaluates_to": repr(back)},
                        f"{where}: the emitted literal does not evaluate back to the value handed in")
    except Exception as e:
        ctx.violate({"entry": where, "value": repr(given), "emitted": ast.dump(node)[:300]},
                    f"{where}: emitted node is not a literal ({type(e).__name__})")
    if model_req is not None:
        try:
            reqs.append((where, repr(given), enc(node), model_req))
        except Unsupported:
            ctx.skip("unsupported-node")


def run_values(ctx, n):
    from func_adl.util_ast import as_ast

    reqs = []
    for _ in range(n):
        v = gen_value(ctx.rng, 3)
        if has_surrogate(v):
            continue
        ctx.count("as_ast:" + repr(v), not trivial(v), sample={"entry": "as_ast", "value": repr(v)[:200]},
                  tags=["as_ast", "type=" + type(v).__name__])
        try:
            node = as_ast(v)
        except Exception as e:
            ctx.violate({"entry": "as_ast", "value": repr(v)}, f"as_ast raised {type(e).__name__}: {e}")
            continue
        check_literal(ctx, "as_ast", v, node, reqs, ("asAst", [pyval_sexpr(v)]) if encodable(v) else None)
    # terminals on a real stream
    for _ in range(n // 2):
        ds = dataset()
        kind = ctx.rng.choice(["MetaData", "AsPandasDF", "AsAwkwardArray", "AsROOTTTree", "AsParquetFiles"])
        src_enc = enc(ds.query_ast)
        try:
            if kind == "MetaData":
                md = gen_metadata(ctx.rng)
                if has_surrogate(md):
                    continue
                q = ds.MetaData(md).query_ast
                given = [md]
                nodes = [q.args[1]]
                vals = [md]
            elif kind in ("AsPandasDF", "AsAwkwardArray"):
                cols = gen_columns(ctx.rng)
                q = getattr(ds, kind)(cols).query_ast
                given = [[cols] if isinstance(cols, str) else cols]
                nodes = [q.args[1]]
                vals = [cols]
            elif kind == "AsROOTTTree":
                f, t, cols = gen_str(ctx.rng), gen_str(ctx.rng), gen_columns(ctx.rng)
                q = ds.AsROOTTTree(f, t, cols).query_ast
                given = [[cols] if isinstance(cols, str) else cols, t, f]
                nodes = [q.args[1], q.args[2], q.args[3]]
                vals = [f, t, cols]
            else:
                f, cols = gen_str(ctx.rng), gen_columns(ctx.rng)
                q = ds.AsParquetFiles(f, cols).query_ast
                given = [[cols] if isinstance(cols, str) else cols, f]
                nodes = [q.args[1], q.args[2]]
                vals = [f, cols]
        except Exception as e:
            ctx.violate({"entry": kind}, f"{kind} raised {type(e).__name__}: {e}")
            continue
        ctx.count(kind + ":" + repr(vals), any(not trivial(x) for x in vals), sample={"entry": kind, "values": repr(vals)[:200]}, tags=[kind])
        for g, nd in zip(given, nodes):
            check_literal(ctx, kind, g, nd, [], None)
        if all(encodable(x) for x in vals):
            try:
                reqs.append((kind, repr(vals), enc(q), ("terminal", [kind, src_enc] + [pyval_sexpr(x) for x in vals])))
            except Unsupported:
                ctx.skip("unsupported-node")
    res = ctx.driver.batch([r[3] for r in reqs])
    for (where, given, impl_enc, _), (st, payload) in zip(reqs, res):
        if st != "ok" or payload != impl_enc:
            ctx.disagree(where, {"entry": where, "value": given}, impl_enc, payload)


LEGAL = (str, int, float, bool, complex, bytes)


def run_lambda_constants(ctx, n):
    "declared defaults and captured variables: scalars are embedded exactly, anything else is a ValueError"
    from func_adl.util_ast import check_ast

    reqs = []
    for i in range(n):
        v = ctx.rng.choice([gen_scalar, gen_scalar, lambda r: gen_value(r, 2)])(ctx.rng)
        if has_surrogate(v) or (isinstance(v, float) and not math.isfinite(v)):
            continue
        mode = ctx.rng.choice(["closure", "global", "default"])
        text = (
            "from typing import Iterable\nfrom func_adl import ObjectStream\n"
            f"G = {v!r}\n"
            "class Evt:\n"
            f"    def m(self, a: int, b = {v!r}) -> int: ...\n"
            "def build_closure(ds, val):\n"
            "    return ds.Select(lambda e: e.call(val))\n"
            "def build_global(ds):\n"
            "    return ds.Select(lambda e: e.call(G))\n"
            "def build_default(ds):\n"
            "    return ds.Select(lambda e: e.m(1))\n"
        )
        try:
            mod = srcmod.make_module(text, "c13")
        except SyntaxError:
            ctx.skip("module-syntax")
            continue
        try:
            from func_adl import EventDataset

            class TDS(EventDataset[mod.Evt]):  # type: ignore
                def __init__(self):
                    super().__init__(mod.Evt)

                async def execute_result_async(self, a, title=None):
                    return a

            ctx.count(f"{mode}:{v!r}", not trivial(v), sample={"entry": mode, "value": repr(v)[:120]}, tags=["lambda-" + mode, "type=" + type(v).__name__])
            legal = isinstance(v, LEGAL)
            try:
                if mode == "closure":
                    s = mod.build_closure(dataset(), v)
                elif mode == "global":
                    s = mod.build_global(dataset())
                else:
                    s = mod.build_default(TDS())
                lam = s.query_ast.args[1]
                call = lam.body
                node = call.args[-1]
                outcome = "ok"
            except ValueError:
                outcome = "ValueError"
            except Exception as e:
                outcome = f"{type(e).__name__}: {e}"
            if legal:
                if outcome != "ok":
                    ctx.violate({"entry": mode, "value": repr(v)}, f"transportable value refused or crashed: {outcome}")
                else:
                    if not (isinstance(node, ast.Constant) and same_value(node.value, v)):
                        try:
                            back = ast.literal_eval(node)
                        except Exception:
                            back = "<not a literal>"
                        if not same_value(back, v):
                            ctx.violate({"entry": mode, "value": repr(v), "emitted": ast.dump(node)[:200]},
                                        "value embedded in the lambda is not the value given")
                    # everything inside the emitted lambda is legal
                    for c in ast.walk(lam):
                        if isinstance(c, ast.Constant) and not isinstance(c.value, LEGAL):
                            ctx.violate({"entry": mode, "value": repr(v), "constant": repr(c.value)[:100]},
                                        "emitted lambda contains a constant of a non-transportable type")
            else:
                if outcome == "ok":
                    bad = [c for c in ast.walk(lam) if isinstance(c, ast.Constant) and not isinstance(c.value, LEGAL)]
                    if bad:
                        ctx.violate({"entry": mode, "value": repr(v), "constant": repr(bad[0].value)[:100]},
                                    "non-transportable value emitted as a constant instead of ValueError")
                    elif mode != "default":
                        # lists/dicts captured could be emitted as literal nodes - must evaluate back
                        try:
                            if not same_value(ast.literal_eval(node), v):
                                ctx.violate({"entry": mode, "value": repr(v)}, "captured value altered")
                        except Exception:
                            ctx.violate({"entry": mode, "value": repr(v), "emitted": ast.dump(node)[:200]}, "captured value emitted as a non-literal")
                elif outcome != "ValueError":
                    ctx.violate({"entry": mode, "value": repr(v)}, f"non-transportable value: expected ValueError, got {outcome}")
        finally:
            srcmod.drop_module(mod)
    # check_ast correspondence on hand-built lambdas with all constant kinds
    import types

    import decimal
    import fractions

    class _IntLike(int):
        pass

    # numbers that are not the builtin number types (Fraction, Decimal), sets, ranges, bytearray: not transportable
    consts = [1, 1.5, "s", b"b", True, None, ..., 1j, (1, 2), [1], {"a": 1}, types, int, len, object(), frozenset(),
              fractions.Fraction(1, 3), decimal.Decimal("1.5"), range(3), bytearray(b"x"), {1, 2}, float("inf"), -0.0, 10 ** 30]
    for c in consts:
        lam = ast.Lambda(args=ast.arguments(posonlyargs=[], args=[ast.arg(arg="e")], kwonlyargs=[], kw_defaults=[], defaults=[]),
                         body=ast.Call(func=ast.Attribute(value=ast.Name("e", ast.Load()), attr="f", ctx=ast.Load()),
                                       args=[ast.Constant(value=c), ast.Tuple(elts=[ast.Constant(value=2)], ctx=ast.Load())], keywords=[]))
        try:
            check_ast(lam)
            got = ("ok", "unit")
        except Exception as e:
            got = ("err", impl.classify_exc(e))
        ctx.count(f"check_ast:{type(c).__name__}", True, tags=["check_ast"])
        want_legal = isinstance(c, (str, int, float, bool, complex, bytes, types.ModuleType))
        if (got[0] == "ok") != want_legal:
            ctx.violate({"entry": "check_ast", "constant": repr(c)}, f"check_ast verdict {got} for a constant of type {type(c).__name__}")
        reqs.append((f"check_ast:{type(c).__name__}", got, ("checkAst", [enc(lam)])))
    res = ctx.driver.batch([r[2] for r in reqs])
    for (what, got, _), m in zip(reqs, res):
        if tuple(m) != tuple(got):
            ctx.disagree("checkAst", {"entry": what}, got, m)


def _retype(rng, v):
    "a value that compares equal to v but differs in the type of some (possibly nested) scalar: 1 / True / 1.0"
    if isinstance(v, bool):
        return rng.choice([int(v), float(v)])
    if isinstance(v, int) and v in (0, 1):
        return rng.choice([bool(v), float(v)])
    if isinstance(v, int) and abs(v) < 2 ** 50:
        return float(v)
    if isinstance(v, float) and v.is_integer() and abs(v) < 2 ** 50:
        return int(v)
    if isinstance(v, list):
        return [_retype(rng, x) for x in v]
    if isinstance(v, tuple):
        return tuple(_retype(rng, x) for x in v)
    if isinstance(v, dict):
        return {k: _retype(rng, x) for k, x in v.items()}
    return v


def run_metadata_sequences(ctx, n):
    """several MetaData calls in a row whose dictionaries are equal under == but differ in the type of a value (seed
    C13-w7-1), or are identical, or differ: every block handed in is on the stream, in order, with its exact values"""
    for _ in range(n):
        md = gen_metadata(ctx.rng)
        if has_surrogate(md):
            continue
        md.setdefault("n_jets", ctx.rng.choice([0, 1, True, 2.0, 7]))
        blocks = [md]
        for _k in range(ctx.rng.choice([1, 1, 2])):
            r = ctx.rng.random()
            blocks.append(_retype(ctx.rng, blocks[-1]) if r < 0.6 else (dict(blocks[-1]) if r < 0.8 else gen_metadata(ctx.rng)))
        if any(has_surrogate(b) for b in blocks):
            continue
        ctx.count("mdseq:" + repr(blocks), True, tags=["MetaData sequence"])
        try:
            s = dataset()
            between = ctx.rng.random() < 0.2
            for i, b in enumerate(blocks):
                if between and i == 1:
                    s = s.Select("lambda e: e")
                s = s.MetaData(b)
        except Exception as e:
            ctx.violate({"entry": "MetaData sequence", "blocks": repr(blocks)[:400]}, f"MetaData raised {type(e).__name__}: {e}")
            continue
        found = []
        node = s.query_ast
        while isinstance(node, ast.Call) and isinstance(node.func, ast.Name) and node.func.id in ("MetaData", "Select"):
            if node.func.id == "MetaData":
                try:
                    found.append(ast.literal_eval(node.args[1]))
                except Exception:
                    found.append("<not a literal>")
            node = node.args[0]
        found.reverse()
        if len(found) != len(blocks) or not all(same_value(f, b) for f, b in zip(found, blocks)):
            ctx.violate({"entry": "MetaData sequence", "given": repr(blocks)[:400], "on_the_stream": repr(found)[:400]},
                        "MetaData: the blocks on the stream are not exactly the dictionaries handed in, in order")


def run_nested_lambda_constants(ctx):
    """a captured value that is not a transportable scalar, used inside a NESTED lambda on an object of unknown or of known
    type: the operator call must raise ValueError (seed C13-w7-2: the constant gate skipped nested lambdas)"""
    text = (
        "from typing import Iterable\n"
        "class Jet:\n    def pt(self) -> float: ...\n"
        "class Evt:\n    def jets(self) -> Iterable[Jet]: ...\n"
        "def b0(ds, cuts):\n    return ds.Select(lambda e: e.jets().Where(lambda j: j.pt() > cuts))\n"
        "def b1(ds, cuts):\n    return ds.Select(lambda e: e.jets().Select(lambda j: (j.pt(), cuts)))\n"
        "def b2(ds, cuts):\n    return ds.Where(lambda e: e.jets().Where(lambda j: e.things().Select(lambda t: t.x == cuts).Count() > 0).Count() > 0)\n"
        "def b3(ds, cuts):\n    return ds.SelectMany(lambda e: e.jets().Select(lambda j: [j.pt(), cuts]))\n"
        "def build(ds, cuts):\n    return [lambda: b0(ds, cuts), lambda: b1(ds, cuts), lambda: b2(ds, cuts), lambda: b3(ds, cuts)]\n"
    )
    mod = srcmod.make_module(text, "c13n")
    from func_adl import EventDataset

    class TDS(EventDataset[mod.Evt]):  # type: ignore
        def __init__(self):
            super().__init__(mod.Evt)

        async def execute_result_async(self, a, title=None):
            return a

    bad_values = [[30.0, 40.0], {"a": 1}, None, object(), (1, 2), {1, 2}, 3 + 4j, [], Ellipsis]
    good_values = [30.0, 5, "pt", True, b"x"]
    for typed in (False, True):
        for v in bad_values + good_values:
            for i, thunk in enumerate(mod.build(TDS() if typed else dataset(), v)):
                legal = isinstance(v, LEGAL)
                ctx.count(f"nested:{typed}:{i}:{v!r}", True, tags=["nested-lambda constant", "typed" if typed else "untyped"])
                try:
                    s = thunk()
                    got = "ok"
                except ValueError:
                    got = "ValueError"
                except Exception as e:
                    got = type(e).__name__
                if legal and got != "ok":
                    ctx.violate({"entry": "nested lambda", "typed": typed, "shape": i, "value": repr(v)}, f"a transportable constant in a nested lambda was refused ({got})")
                if not legal and got != "ValueError":
                    emitted = ""
                    if got == "ok":
                        emitted = ast.dump(s.query_ast)[-300:]
                    ctx.violate({"entry": "nested lambda", "typed": typed, "shape": i, "value": repr(v), "emitted": emitted},
                                f"a constant of type {type(v).__name__} inside a nested lambda was not refused with ValueError (got {got})")


def run(ctx):
    run_values(ctx, ctx.n(1500, 60000))
    run_lambda_constants(ctx, ctx.n(150, 3000))
    run_metadata_sequences(ctx, ctx.n(150, 3000))
    run_nested_lambda_constants(ctx)


def replay(ctx, case):
    run(ctx)
