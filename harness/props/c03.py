"""C03 — source recovery returns the lambda that was actually passed."""
from __future__ import annotations

import ast
import types

import impl
import srcmod
from gen.layout import gen_layout
from sexpr import q
from tracer import trace

ID = "C03"
THEOREMS = ["scanLine_calls", "pick_unique_ok", "findIdentifier_gap", "tokensTill_extent", "scanLine_step", "scanLine_newline", "pick_is_candidate", "pick_ambiguous_raises", "pick_none_raises"]
LEANCHECKER_MODULES = ["Fadl.Props.C03", "Fadl.Props.C03Scan"]  # re-checked by leanchecker in the thorough tier
RULE = (
    "generated source files (gen/layout.py) placing lambdas passed to Select/Where/SelectMany: single call; several calls "
    "on a line told apart by method name or by argument names; the same method and argument names twice on a line (must "
    "raise); black-style wrapped chains; an argument on its own lines; multi-line bodies; comments and string literals "
    "containing brackets, commas and the word lambda; enclosing if / class method / nested def / call argument; one-line "
    "defs; other lambdas on the same line (before a semicolon, in another call's keyword, as a default argument); several "
    "operator calls side by side in a tuple / list / dict / keyword arguments reached through short aliases of the dataset "
    "(d, a, b, l, m, la ...); a passed lambda that is not the written argument but differs from its neighbour in argument "
    "names (conditional expression, pass-through helper: right or raise); the "
    "not-written-as-the-argument family (conditional expression, tuple) of the known finding; indentation 4/8; "
    "non-trivial = every case; distinct = module text"
)
EXPLANATION = (
    "Theorems (selection logic only): pick_is_candidate (whatever is recorded is a lambda found under the caller's name "
    "with the callable's parameter names), pick_ambiguous_raises (two such candidates => ValueError, never a silent "
    "choice), pick_none_raises. Correspondence: the candidates the real scan produced (recorded by wrapping "
    "_get_lambda_in_stream / find_identifier from the harness) pushed through the compiled Lean pickLambda vs what "
    "_parse_source_for_lambda returned. Oracle: the recovered lambda, compiled and run on symbolic tracer arguments (both truth values), must perform "
    "the same operations with the same constants as the callable that was passed, traced at the moment it was passed "
    "(captured variables included); documented layouts must "
    "not raise; ambiguous ones must raise. PARTIAL by nature: tokenize / inspect.findsource / ast.parse are CPython."
)
ASSUMPTIONS = ["tokenize, untokenize, inspect.findsource and ast.parse are CPython and outside the model"]


def recorded_callable(node: ast.Lambda):
    mod = ast.Expression(body=node)
    ast.fix_missing_locations(mod)
    return eval(compile(mod, "<recorded>", "eval"), {})


class Recorder:
    "wraps the scanner's helpers to see the candidates it considered"

    def __init__(self):
        import func_adl.util_ast as ua

        self.ua = ua
        self.cands = []
        self.orig_get = ua._get_lambda_in_stream
        self.orig_find = ua._token_runner.find_identifier
        self.orig_till = ua._token_runner.tokens_till
        self.last_key = None
        self.extents = []      # per _get_lambda_in_stream: (key, texts of the tokens handed to the parser after `lambda`)
        self.first = None      # (runner, key token, start token) of the scan that found the first `lambda`
        rec = self

        def find_identifier(self_, identifier, can_encounter_newline=True):
            r = rec.orig_find(self_, identifier, can_encounter_newline)
            rec.last_key = r[0].string if r[0] is not None else None
            if "def" in identifier and r[1] is not None:
                rec.first = (self_, r[0], r[1])
            return r

        def tokens_till(self_, stop_condition):
            got = []
            rec.extents.append((rec.last_key, got))
            for t in rec.orig_till(self_, stop_condition):
                got.append(t.string)
                yield t

        def get_lambda(t_stream, start_token):
            lda, nl = rec.orig_get(t_stream, start_token)
            rec.cands.append((rec.last_key, lda))
            return lda, nl

        self.find_identifier, self.get_lambda, self.tokens_till = find_identifier, get_lambda, tokens_till

    def scan_request(self):
        "the tokens after the first `lambda` keyword (re-tokenized independently) and the key, for the model's scanLine"
        import tokenize

        if self.first is None or self.first[2].string != "lambda":
            return None
        runner, key_tok, start = self.first
        toks = []
        try:
            for t in tokenize.generate_tokens(self.ua._line_string_reader(runner._source, runner._initial_line).readline):
                toks.append(t)
        except Exception:
            pass  # the tokenizer gave up later than the scan needed (the scan itself would have failed otherwise)
        idx = next((i for i, t in enumerate(toks) if t.start == start.start and t.string == "lambda"), None)
        if idx is None:
            return None
        kinds = {tokenize.NAME: "name", tokenize.OP: "op", tokenize.NEWLINE: "newline", tokenize.NL: "nl", tokenize.COMMENT: "comment"}
        body = " ".join(f"({kinds.get(t.type, 'other')} {q(t.string)})" for t in toks[idx + 1:])
        return [q(key_tok.string) if key_tok is not None else "none", "(" + body + ")"]

    def __enter__(self):
        self.ua._token_runner.find_identifier = self.find_identifier
        self.ua._get_lambda_in_stream = self.get_lambda
        self.ua._token_runner.tokens_till = self.tokens_till
        return self

    def __exit__(self, *a):
        self.ua._token_runner.find_identifier = self.orig_find
        self.ua._get_lambda_in_stream = self.orig_get
        self.ua._token_runner.tokens_till = self.orig_till


def run(ctx):
    from func_adl import EventDataset
    from func_adl.util_ast import _parse_source_for_lambda

    received = []

    class DS(EventDataset):
        async def execute_result_async(self, a, title=None):
            return a

        def _op(self, name, f, *a, **k):
            tr = trace(f) if callable(f) else None  # behaviour of the callable at the moment it is passed
            s = getattr(EventDataset, name)(self, f, *a, **k)
            received.append((name, f, s, tr))
            return s

        def Select(self, f, *a, **k):
            return self._op("Select", f, *a, **k)

        def Where(self, f, *a, **k):
            return self._op("Where", f, *a, **k)

        def SelectMany(self, f, *a, **k):
            return self._op("SelectMany", f, *a, **k)

    reqs, keep = [], []
    scan_reqs, scan_keep = [], []
    n = ctx.n(300, 8000)
    for _ in range(n):
        text, expect = gen_layout(ctx.rng)
        try:
            mod = srcmod.make_module(text, "c03")
        except SyntaxError:
            ctx.skip("module-syntax")
            continue
        received.clear()
        ctx.count(text, True, sample={"module": text, "expect": expect}, tags=["layout-" + expect])
        try:
            # ---- the real pipeline
            try:
                mod.build(DS())
                outcome = "ok"
            except ValueError as e:
                outcome = "ValueError"
            except SyntaxError as e:
                outcome = "SyntaxError"
            except Exception as e:
                outcome = type(e).__name__ + ": " + str(e)[:80]
            key = {"known-mispick": "C03-lambda-not-written-as-the-argument",
                   "known-mispick-keyword": "C03-lambda-keyed-by-the-token-before-it"}.get(expect)
            wrong = False
            for name, f, s, tr in received:
                lam = s.query_ast.args[1]
                if tr is None or not isinstance(lam, ast.Lambda):
                    continue
                try:
                    got_tr = trace(recorded_callable(lam))
                except Exception as e:
                    got_tr = ("uncompilable " + type(e).__name__,)
                if got_tr != tr:
                    wrong = True
                    ctx.violate({"module": text, "operator": name, "recorded": ast.unparse(lam), "trace_recorded": list(got_tr),
                                 "trace_passed": list(tr)},
                                "the lambda recorded in the query does not behave like the callable that was passed", key=key)
            if expect == "supported" and outcome != "ok":
                ctx.violate({"module": text, "outcome": outcome}, "a documented supported layout was not recovered")
            # ---- correspondence of the selection logic
            for name, f, s, _tr in received:
                if not callable(f) or f.__code__.co_name != "<lambda>":
                    continue
                with Recorder() as rec:
                    try:
                        lda = _parse_source_for_lambda(f, name)
                        got = ("ok", lda)
                    except ValueError:
                        got = ("err", "ValueError")
                    except Exception as e:
                        got = ("err", impl.classify_exc(e))
                if got[0] == "err" and got[1] != "ValueError":
                    continue  # tokenizer / parser failure: outside the model
                cands = rec.cands
                if not cands or any(c[1] is None for c in cands):
                    continue
                import inspect

                argnames = inspect.getfullargspec(f).args
                cs = "(" + " ".join(f"({q(k) if k is not None else 'none'} ({' '.join(q(a.arg) for a in l.args.args)}))" for k, l in cands) + ")"
                want = ("ok", str(next(i for i, (k, l) in enumerate(cands) if l is got[1]))) if got[0] == "ok" else got
                reqs.append(("pick", [q(name), "(" + " ".join(q(a) for a in argnames) + ")", cs]))
                keep.append(({"module": text, "operator": name}, want))
                # ---- correspondence of the token scan: extents and keys of the lambdas of the logical line
                sreq = rec.scan_request()
                if sreq is not None:
                    want_scan = "(" + " ".join(f"({q(k) if k is not None else 'none'} ({' '.join(q(x) for x in texts)}))" for k, texts in rec.extents) + ")"
                    scan_reqs.append(("scanLine", sreq))
                    scan_keep.append(({"module": text, "operator": name}, ("ok", want_scan)))
                    ctx.dist["scan:lines-compared"] += 1
                    ctx.dist[f"scan:lambdas-on-line={min(len(rec.extents), 4)}"] += 1
        finally:
            srcmod.drop_module(mod)
    for (case, want), m in zip(keep, ctx.driver.batch(reqs)):
        if tuple(m) != tuple(want):
            ctx.disagree("pickLambda", case, want, m)
    for (case, want), m in zip(scan_keep, ctx.driver.batch(scan_reqs)):
        if tuple(m) != tuple(want):
            ctx.disagree("scanLine", case, want[1][:600], (m[0], m[1][:600]))


def replay(ctx, case):
    run(ctx)
