"""C15 — MetaData extraction and empty-metadata removal are exact."""
from __future__ import annotations

import ast
import copy

from astcodec import Unsupported, enc, parse_expr
from common import pyval_sexpr, same_value
from gen.expr import Opt, gen_query
import impl

ID = "C15"
THEOREMS = ["extract_exact", "extract_strips_all", "stripMD_frame", "collectMD_outer_first",
            "removeEmpty_noEmpty", "removeEmpty_frame", "removeEmpty_idempotent"]
LEANCHECKER_MODULES = ["Fadl.Props.C15"]  # re-checked by leanchecker in the thorough tier
RULE = (
    "seeded queries (gen/expr.py) into which MetaData wrappers are inserted at random expression "
    "positions: stream sources, operator arguments, inside lambda bodies, adjacent (wrapper of a wrapper), "
    "empty and non-empty dictionaries with str/int/bool/None/list/dict values, duplicate dictionaries, "
    "plus look-alikes (x.MetaData(...), a bare MetaData name, extra positional arguments); non-trivial = at "
    "least one wrapper; distinct = distinct source text"
)
EXPLANATION = (
    "Theorems: extract_exact (result = stripMD input, list = literal values of collectMD input, outer "
    "first), extract_strips_all, stripMD_frame, removeEmpty_noEmpty / _frame / _idempotent. "
    "Correspondence: extract_metadata and remove_empty_metadata vs the compiled Lean extractMetadata / "
    "removeEmptyMD (tree and metadata list). Oracles on the implementation: independent declarative "
    "reference in Python (strip / collect / strip-empty), ast.dump of the argument before and after "
    "remove_empty_metadata (non-mutation), preservation of non-field node attributes."
)
ASSUMPTIONS = [
    "the non-mutation clause of remove_empty_metadata is decided by the before/after dump oracle on the real "
    "code; the Lean model of this function is a tree function and cannot express aliasing"
]


def _is_wrapper(n):
    return isinstance(n, ast.Call) and isinstance(n.func, ast.Name) and n.func.id == "MetaData" and len(n.args) >= 2


# ---- declarative references (independent of both the code and the Lean model) -----------------------
def ref_strip(n):
    if _is_wrapper(n):
        return ref_strip(n.args[0])
    if isinstance(n, ast.AST):
        new = copy.copy(n)
        for f, v in ast.iter_fields(n):
            if isinstance(v, list):
                setattr(new, f, [ref_strip(x) for x in v])
            elif isinstance(v, ast.AST):
                setattr(new, f, ref_strip(v))
        return new
    return n


def ref_collect(n, out):
    if _is_wrapper(n):
        out.append(ast.literal_eval(n.args[1]))
        ref_collect(n.args[0], out)
        return
    if isinstance(n, ast.AST):
        for f, v in ast.iter_fields(n):
            if isinstance(v, list):
                for x in v:
                    ref_collect(x, out)
            elif isinstance(v, ast.AST):
                ref_collect(v, out)


def ref_strip_empty(n):
    if isinstance(n, ast.AST):
        new = copy.copy(n)
        for f, v in ast.iter_fields(n):
            if isinstance(v, list):
                setattr(new, f, [ref_strip_empty(x) for x in v])
            elif isinstance(v, ast.AST):
                setattr(new, f, ref_strip_empty(v))
        if (isinstance(new, ast.Call) and isinstance(new.func, ast.Name) and new.func.id == "MetaData"
                and len(new.args) == 2):
            d = ast.literal_eval(new.args[1])
            if isinstance(d, dict) and len(d) == 0:
                return new.args[0]
        return new
    return n


# ---- generation -----------------------------------------------------------------------------------------
def rand_value(rng, d=2):
    r = rng.random()
    if d <= 0 or r < 0.5:
        return rng.choice(["v", "jets", "x y", "it's", 'a"b', "", 0, 1, -3, 42, True, False, None, 2.5])
    if r < 0.75:
        return [rand_value(rng, d - 1) for _ in range(rng.randint(0, 3))]
    return {rng.choice(["k", "name", "n", "a b"]) + str(i): rand_value(rng, d - 1) for i in range(rng.randint(0, 2))}


def rand_dict(rng):
    r = rng.random()
    if r < 0.35:
        return {}
    return {rng.choice(["metadata_type", "name", "k", "body", "x"]) + ("" if i == 0 else str(i)): rand_value(rng)
            for i in range(rng.randint(1, 3))}


class Inserter(ast.NodeTransformer):
    def __init__(self, rng, rate, pool):
        self.rng = rng
        self.rate = rate
        self.pool = pool
        self.n = 0

    def wrap(self, node):
        d = self.rng.choice(self.pool) if self.pool and self.rng.random() < 0.3 else rand_dict(self.rng)
        self.pool.append(d)
        self.n += 1
        r = self.rng.random()
        dnode = ast.parse(repr(d), mode="eval").body
        if r < 0.05:
            return ast.Call(ast.Attribute(node, "MetaData", ast.Load()), [dnode], [])  # method look-alike
        if r < 0.08:
            return ast.Call(ast.Name("MetaData", ast.Load()), [node, dnode, ast.Constant(1)], [])  # extra arg
        return ast.Call(ast.Name("MetaData", ast.Load()), [node, dnode], [])

    def generic_visit(self, node):
        node = super().generic_visit(node)
        if isinstance(node, ast.expr) and not isinstance(node, (ast.Lambda, ast.Starred, ast.Slice)) \
                and not isinstance(getattr(node, "ctx", None), ast.Store):
            while self.rng.random() < self.rate:
                node = self.wrap(node)
        return node

    def visit_comprehension(self, node):
        node.iter = self.visit(node.iter)
        node.ifs = [self.visit(i) for i in node.ifs]
        return node

    def visit_keyword(self, node):
        node.value = self.visit(node.value)
        return node


def gen_case(rng):
    opt = Opt(form=rng.choice(["func", "mixed", "method"]), comps=rng.random() < 0.2, max_depth=rng.choice([1, 2, 3]))
    src, _ = gen_query(rng, opt)
    a = parse_expr(src)
    ins = Inserter(rng, rng.choice([0.03, 0.08, 0.15, 0.3]), [])
    a = ast.fix_missing_locations(ins.visit(a))
    out = ast.unparse(a)
    if rng.random() < 0.03:
        out = f"({out}, MetaData, MetaData.x)"
    return out


def check_cases(ctx, srcs):
    from func_adl.ast.meta_data import extract_metadata, remove_empty_metadata

    reqs, keep = [], []
    for src in srcs:
        try:
            a = parse_expr(src)
            a_enc = enc(a)
        except (Unsupported, SyntaxError) as e:
            ctx.skip(type(e).__name__)
            continue
        nw = sum(1 for n in ast.walk(a) if _is_wrapper(n))
        odd = any(isinstance(n, ast.Call) and isinstance(n.func, ast.Name) and n.func.id == "MetaData"
                  and (len(n.args) != 2 or n.keywords) for n in ast.walk(a))
        ctx.count(src, nw > 0, sample={"src": src}, tags=[f"wrappers={min(nw, 6)}"] + (["odd-arity"] if odd else []))
        # tag an attribute on a node to see that non-field attributes survive
        # ---- extract_metadata
        want_tree = ast.dump(ref_strip(copy.deepcopy(a)))
        want_md = []
        ref_collect(a, want_md)
        try:
            got_tree, got_md = extract_metadata(copy.deepcopy(a))
            ext = ("ok", enc(got_tree), got_md)
            if ast.dump(got_tree) != want_tree:
                ctx.violate({"src": src, "got": ast.unparse(got_tree)}, "extract_metadata: result is not the query with every wrapper replaced by its source")
            if not same_value(list(got_md), want_md):
                ctx.violate({"src": src, "got": repr(got_md), "want": repr(want_md)},
                            "extract_metadata: list of dictionaries differs (all wrappers, outer before the wrappers inside its source)")
        except Exception as e:
            ext = ("err", impl.classify_exc(e), None)
            if not odd:
                ctx.violate({"src": src}, f"extract_metadata raised {type(e).__name__}: {e}")
        # the same query with ONE node object standing in two places (Concat(x, x), as ObjectStream queries share sub-trees):
        # every wrapper of every occurrence is reported, as for the tree built from separate nodes (wave-9 audit, C15 d2)
        if nw > 0 and not odd and ctx.rng.random() < 0.4:
            shared = copy.deepcopy(a)
            twice = ast.Call(func=ast.Name("Concat", ast.Load()), args=[shared, shared], keywords=[])
            fresh = ast.Call(func=ast.Name("Concat", ast.Load()), args=[copy.deepcopy(a), copy.deepcopy(a)], keywords=[])
            try:
                w_tree, w_md = extract_metadata(fresh)
                g_tree, g_md = extract_metadata(twice)
                ctx.dist["extract_metadata on a tree with a shared node object"] += 1
                if ast.dump(g_tree) != ast.dump(w_tree) or not same_value(list(g_md), list(w_md)):
                    ctx.violate({"src": src, "shape": "Concat(x, x) with x one node object", "got": repr(g_md)[:200], "want": repr(w_md)[:200]},
                                "extract_metadata: a node object that stands in two places hides the dictionaries of its second occurrence")
            except Exception as e:
                ctx.violate({"src": src}, f"extract_metadata raised {type(e).__name__} on a tree with a shared node object")
        # ---- remove_empty_metadata
        arg = copy.deepcopy(a)
        marked = [n for n in ast.walk(arg) if isinstance(n, ast.Name) and n.id == "ds"]
        for m in marked:
            m._func_adl_executor = "EXE"  # type: ignore
        before = ast.dump(arg)
        want_clean = ast.dump(ref_strip_empty(copy.deepcopy(a)))
        try:
            got = remove_empty_metadata(arg)
            rem = ("ok", enc(got))
            if ast.dump(got) != want_clean:
                ctx.violate({"src": src, "got": ast.unparse(got)}, "remove_empty_metadata: not exactly the empty wrappers removed")
            if ast.dump(arg) != before:
                ctx.violate({"src": src, "after": ast.unparse(arg)}, "remove_empty_metadata modified the AST it was given")
            lost = [n for n in ast.walk(got) if isinstance(n, ast.Name) and n.id == "ds" and not hasattr(n, "_func_adl_executor")]
            if lost:
                ctx.violate({"src": src}, "remove_empty_metadata lost a non-field attribute (executor reference) of a node")
        except Exception as e:
            rem = ("err", impl.classify_exc(e))
            ctx.violate({"src": src}, f"remove_empty_metadata raised {type(e).__name__}: {e}")
        reqs.append(("extractMD", [a_enc]))
        reqs.append(("removeEmptyMD", [a_enc]))
        keep.append((src, ext, rem))
    res = ctx.driver.batch(reqs)
    for i, (src, ext, rem) in enumerate(keep):
        m_ext, m_rem = res[2 * i], res[2 * i + 1]
        if ext[0] == "ok":
            try:
                want = "(" + ext[1] + " (" + " ".join(pyval_sexpr(d) for d in ext[2]) + "))"
            except TypeError:
                ctx.skip("metadata value outside PyVal")
                want = None
            if want is not None and (m_ext[0] != "ok" or m_ext[1] != want):
                ctx.disagree("extractMetadata", {"src": src}, want, m_ext)
        else:
            if m_ext[0] != "err" or m_ext[1] != ext[1]:
                ctx.disagree("extractMetadata", {"src": src}, ext[1], m_ext)
        if rem[0] == "ok":
            if m_rem[0] != "ok" or m_rem[1] != rem[1]:
                ctx.disagree("removeEmptyMD", {"src": src}, rem[1], m_rem)
        else:
            if m_rem[0] != "err" or m_rem[1] != rem[1]:
                ctx.disagree("removeEmptyMD", {"src": src}, rem[1], m_rem)


FIXED = [
    "MetaData(MetaData(ds, {}), {})",
    "MetaData(MetaData(ds, {'a': 1}), {'a': 1})",
    "Select(MetaData(Select(MetaData(ds, {}), lambda e: MetaData(e.jets, {})), {'k': []}), lambda j: MetaData(MetaData(j, {}), {}).pt)",
    "f(k=MetaData(x, {}), *MetaData(y, {'q': None}))",
    "MetaData(ds, {})",
    "Where(MetaData(ds, {'m': 'a'}), lambda e: MetaData(e.met, {'m': 'a'}) > MetaData(0, {'m': 'b'}))",
]


def run(ctx):
    check_cases(ctx, FIXED)
    n = ctx.n(1000, 30000)
    done = 0
    while done < n:
        srcs = [gen_case(ctx.rng) for _ in range(min(2000, n - done))]
        check_cases(ctx, srcs)
        done += len(srcs)


def replay(ctx, case):
    src = case.get("src") or case.get("case", {}).get("src")
    check_cases(ctx, [src])
