"""C17 — method-form and function-form queries are interchangeable."""
from __future__ import annotations

import ast
import copy

from common import compare_ev, fixed_datasets, table
from astcodec import Unsupported, enc, parse_expr
from gen.expr import Opt, gen_query
import impl

ID = "C17"
THEOREMS = [
    "toCalls_preserves",
    "toCalls_no_method_ops",
    "toCalls_idempotent",
    "toCalls_frame",
]
LEANCHECKER_MODULES = ["Fadl.Props.C17"]  # re-checked by leanchecker in the thorough tier
RULE = (
    "seeded sort-directed queries (gen/expr.py) mixing method-form and function-form operator calls at "
    "all depths, with look-alike non-operator methods, keywords on non-operator methods and bare attribute "
    "references to operator names; a case is non-trivial when it contains at least one method-form "
    "operator call; distinct = distinct source text"
)
ASSUMPTIONS = [
    "operator calls carry no keyword arguments (DESIGN section 8 decision 4); such calls are modelled "
    "(keywords dropped, as the code does) but not part of the semantic claim"
]
EXPLANATION = (
    "Theorems: toCalls preserves ev in every world/environment, leaves no method-form operator call, is "
    "idempotent, and is the identity on queries without method-form operator calls. Correspondence: "
    "change_extension_functions_to_calls vs compiled Lean toCalls on generated queries. Oracle on the "
    "implementation: declarative parallel-walk reference, no-method-ops scan, idempotence, ev equality."
)


def ties():
    from func_adl.ast.func_adl_ast_utils import default_list_of_functions
    import leanio

    names = table(leanio.Driver(), "opNames")
    if list(names) != list(default_list_of_functions):
        return [f"default_list_of_functions {default_list_of_functions} != Lean opNames {list(names)}"]
    return []


def _variants(op: str):
    return [op + "s", op + "_", op[:-1], op.lower(), op.upper(), "x" + op, op + op, op + "1", "_" + op, op[0].lower() + op[1:]]


def _mutate_lookalikes(rng, src: str) -> str:
    "sprinkle non-operator look-alikes (names adjacent to the operator names) into the text"
    import re
    from func_adl.ast.func_adl_ast_utils import default_list_of_functions as ops

    r = rng.random()
    if r < 0.35:
        # rename one or two method-form / function-form operator occurrences to a near-miss name
        sites = [m for m in re.finditer(r"\b(" + "|".join(ops) + r")\(", src)]
        for m in rng.sample(sites, min(len(sites), rng.choice([1, 1, 2]))):
            if m.start() > 0 and src[m.start() - 1] == ".":
                v = rng.choice(_variants(m.group(1)))
                src = src[: m.start()] + v + " " * (len(m.group(1)) - len(v)) + src[m.end() - 1 :] if len(v) <= len(m.group(1)) else src[: m.start()] + v + src[m.end() - 1 :]
                break
        return src.replace(" (", "(") if False else src
    if r < 0.42:
        return f"({src}, ds.Select, ds.Where.x, Select)"
    if r < 0.5:
        op = rng.choice(ops)
        return f"ds.helper({src}, key=ds.{op}(lambda q: q.met)).{rng.choice(_variants(op))}(k=ds.jets.{op}())"
    if r < 0.55:
        return f"ds.Select(lambda q: q.met, extra=1)"
    if r < 0.6:
        return f"ds.ResultTTree({src}, 'a', 'b').Max()"
    return src


def reference_ok(a: ast.AST, b: ast.AST, ops) -> bool:
    "declarative check: b is a with exactly the method-form operator calls rewritten"
    if (
        isinstance(a, ast.Call)
        and isinstance(a.func, ast.Attribute)
        and a.func.attr in ops
    ):
        if not (isinstance(b, ast.Call) and isinstance(b.func, ast.Name) and b.func.id == a.func.attr):
            return False
        # Op(seq, args...) with the SAME keyword arguments (wave-9 audit: they used to be dropped)
        if len(b.args) != len(a.args) + 1 or len(b.keywords) != len(a.keywords):
            return False
        return reference_ok(a.func.value, b.args[0], ops) and all(
            reference_ok(x, y, ops) for x, y in zip(a.args, b.args[1:])
        ) and all(ka.arg == kb.arg and reference_ok(ka.value, kb.value, ops) for ka, kb in zip(a.keywords, b.keywords))
    if type(a) is not type(b):
        return False
    for f in a._fields:
        x, y = getattr(a, f, None), getattr(b, f, None)
        if isinstance(x, list):
            if not isinstance(y, list) or len(x) != len(y):
                return False
            for p, q in zip(x, y):
                if isinstance(p, ast.AST):
                    if not reference_ok(p, q, ops):
                        return False
                elif p != q:
                    return False
        elif isinstance(x, ast.AST):
            if not isinstance(y, ast.AST) or not reference_ok(x, y, ops):
                return False
        elif x != y:
            return False
    return True


def has_method_op(a: ast.AST, ops) -> bool:
    return any(
        isinstance(n, ast.Call) and isinstance(n.func, ast.Attribute) and n.func.attr in ops
        for n in ast.walk(a)
    )


def has_kw_on_method_op(a: ast.AST, ops) -> bool:
    return any(
        isinstance(n, ast.Call) and isinstance(n.func, ast.Attribute) and n.func.attr in ops and n.keywords
        for n in ast.walk(a)
    )


def check_cases(ctx, srcs):
    from func_adl.ast.func_adl_ast_utils import change_extension_functions_to_calls, default_list_of_functions

    ops = list(default_list_of_functions)
    reqs, keep = [], []
    for src in srcs:
        try:
            a = parse_expr(src)
            a_enc = enc(a)
        except (Unsupported, SyntaxError) as e:
            ctx.skip(type(e).__name__)
            continue
        orig = copy.deepcopy(a)
        try:
            out = change_extension_functions_to_calls(a)
            out_enc = enc(out)
            again = enc(change_extension_functions_to_calls(copy.deepcopy(out)))
        except Exception as e:  # the function has no designed failure
            ctx.violate({"src": src}, f"change_extension_functions_to_calls raised {type(e).__name__}: {e}")
            continue
        nontrivial = has_method_op(orig, ops)
        ctx.count(src, nontrivial, sample={"src": src, "out": ast.unparse(out)},
                  tags=["has-method-op" if nontrivial else "no-method-op"])
        # oracle on the implementation
        kw = False  # keyword arguments on operator calls are kept by the rewrite (repo fix after the wave-9 audit)
        if has_method_op(out, ops):
            ctx.violate({"src": src, "out": ast.unparse(out)}, "method-form operator call remains")
        if again != out_enc:
            ctx.violate({"src": src, "out": ast.unparse(out)}, "second application changes the result")
        if not kw and not reference_ok(orig, out, ops):
            ctx.violate({"src": src, "out": ast.unparse(out)}, "result differs from Op(seq, args...) rewrite of exactly the operator calls")
        # node objects that stand in several places / several queries grown from one base object (seed C17-w7-1): the
        # result is the one obtained from trees in which every position is its own node
        if nontrivial and ctx.rng.random() < 0.35:
            try:
                base = parse_expr(src)
                q1 = ast.Call(func=ast.Attribute(value=base, attr="Where", ctx=ast.Load()), args=[parse_expr("lambda z: z")], keywords=[])
                q2 = ast.Call(func=ast.Attribute(value=base, attr="Count", ctx=ast.Load()), args=[], keywords=[])
                q3 = ast.Tuple(elts=[base, base], ctx=ast.Load())
                wants = [enc(change_extension_functions_to_calls(copy.deepcopy(q))) for q in (q1, q2)]
                want3 = enc(change_extension_functions_to_calls(ast.Tuple(elts=[parse_expr(src), parse_expr(src)], ctx=ast.Load())))
                gots = [enc(change_extension_functions_to_calls(q)) for q in (q1, q2)]
                got3 = enc(change_extension_functions_to_calls(ast.Tuple(elts=[b2 := parse_expr(src), b2], ctx=ast.Load())))
                ctx.dist["shared node objects"] += 1
                if gots != wants or got3 != want3:
                    ctx.violate({"src": src, "shape": "base.Where(..), base.Count() and (base, base) built from ONE base node object"},
                                "converting trees that share a node object gives another result than converting the same trees built from separate nodes")
            except Unsupported:
                pass
        reqs.append(("toCalls", [a_enc]))
        keep.append((src, a_enc, out_enc, kw))
    res = ctx.driver.batch(reqs)
    pairs = []
    for (src, a_enc, out_enc, kw), (st, payload) in zip(keep, res):
        if st != "ok" or payload != out_enc:
            ctx.disagree("toCalls", {"src": src}, out_enc, payload)
        if not kw:
            pairs.append(({"src": src}, a_enc, out_enc))
    ds = fixed_datasets(ctx.rng, 3)
    compare_ev(ctx, ctx.driver, pairs, ds, "toCalls changed the value of the query")


def run(ctx):
    n = ctx.n(1200, 40000)
    chunk = 2000
    done = 0
    while done < n:
        srcs = []
        for _ in range(min(chunk, n - done)):
            opt = Opt(form=ctx.rng.choice(["mixed", "mixed", "method", "func"]), comps=ctx.rng.random() < 0.3,
                      max_depth=ctx.rng.choice([2, 3, 4]))
            src, _ = gen_query(ctx.rng, opt)
            srcs.append(_mutate_lookalikes(ctx.rng, src))
        check_cases(ctx, srcs)
        done += len(srcs)


def replay(ctx, case):
    src = case.get("src") or case.get("case", {}).get("src")
    check_cases(ctx, [src])
