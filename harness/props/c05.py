"""C05 — captured one-line helper functions are inlined faithfully."""
from __future__ import annotations

import ast

import capture
from astcodec import enc, parse_expr

ID = "C05"
THEOREMS = ["resolveCalled_preserves", "resolveCalled_refines", "resolveCalled_sem_both", "inl_of_inlB", "hideRename_avoids", "hideLoop_avoids", "hideLoop_new_not_taken", "freshLocal_fresh", "resolveCalled_frame", "uninlinable_left", "resolveCalled_frame_both"]
LEANCHECKER_MODULES = ["Fadl.Props.C05Sem", "Fadl.Props.C05"]  # re-checked by leanchecker in the thorough tier
RULE = (
    "generated modules (harness/capture.py) with one-line helpers (def and lambda): identity body, arithmetic, "
    "helper calling helpers, helper containing a nested lambda re-using its parameter name, helper taking a "
    "sequence, a multi-statement function that cannot be inlined, helpers that call a helper by keyword with their "
    "own parameter (a call left in place inside an inlined body); called positionally, by keyword and re-ordered, "
    "with argument expressions over the schema; plus direct (lambda ...)(...) texts; non-trivial = body contains a "
    "helper call; distinct = distinct lambda body"
)
EXPLANATION = (
    "Semantic theorem resolveCalled_refines / resolveCalled_preserves (Props/C05Sem.lean; induction over the expression with the "
    "refinement transfer principles of Lemmas/RefineCall.lean): for every expression in the domain Inl (no comprehension; every "
    "immediately called lambda binds positionally, so it is inlined; every other lambda has one parameter; no lambda parameter "
    "is used as a function name), every well-behaved world and well-formed environment: whenever the expression evaluates "
    "(deferred execution), what _resolve_called_lambdas returns evaluates to a refinement of that value - to the same value when "
    "it has no deferred failure. The renaming of locals that an argument mentions is inside the theorem (it is what makes the "
    "substitution capture free), as are nested calls, shadowing parameters and arguments that are themselves inlined calls. The "
    "executable form inlB of the domain is evaluated on what the inliner is given for every generated case (evidence: inside / "
    "outside the domain). "
    "Theorems: hideRename_avoids / hideLoop_avoids (capture avoidance of the inliner: after _visit_hiding no lambda parameter or "
    "comprehension variable inside a body being inlined is a name that an argument being substituted mentions - such locals "
    "are renamed), hideLoop_new_not_taken + freshLocal_fresh (the new name x_i is not a name of any argument, of the other "
    "locals or of the body: found among the first n+1 candidates by pigeonhole), resolveCalled_frame (nothing to inline => "
    "unchanged, under any hiding), uninlinable_left; worked instances (bare-parameter body, shadowing nested lambda, helper "
    "calling helper) by rfl. PARTIAL: outside Inl (comprehensions, keyword-called lambdas that stay calls, two-parameter "
    "operator lambdas) only the correspondence and the oracle apply; the remaining direction of capture (a "
    "call-site binder named like a free name of an inserted helper body) is an open finding. Correspondence: "
    "_resolve_called_lambdas / parse_as_ast vs compiled Lean resolveCalled / parseCallable, including the renaming (same new "
    "names). Oracle: CPython calling the real helper vs the recorded lambda on generated events; dedicated witnesses of the "
    "repaired capture and of the open one."
)
ASSUMPTIONS = ["a call-site binder named like a name that is free in an inserted helper body captures it (open finding)"]

TEXTS = [
    "(lambda x: x)(y)", "(lambda x: s.Select(lambda x: x+1))(y)", "(lambda x: [x for x in s])(y)",
    "(lambda x: [x for x in x.jets if x.pt > x0])(y)", "(lambda x, z: x + z)(1)", "(lambda x: (lambda y: x + y)(x))(1)",
    "(lambda x: s.Select(lambda y: x+y))(z)", "(lambda a, b: a - b)(1, b=2)", "(lambda a: a)(1, k=2)",
    "f((lambda a: a + 1)(2), (lambda: 3)())", "(lambda f: f(1))(lambda x: x + 1)", "(lambda x: x.y)(z).w",
    "(lambda x: (x for x in x))(q)", "(lambda x, y: (x, y))(y, x)",
    # a call that cannot be inlined (keywords, wrong count) inside one that is, mentioning the outer parameter
    "(lambda q: (lambda x: x + 1)(x=q))(z)", "(lambda q, a: (lambda x: x.n())(x=a.First()))(c, e.jets)",
    "(lambda q: (lambda x, y: x + y)(q))(z)", "(lambda q: f((lambda x: x)(x=q), k=(lambda x: x)(q, 1)))(z)",
    "(lambda q: s.Select(lambda j: (lambda x: x + j)(x=q)))(z)",
    # an argument mentions a name that a lambda / comprehension inside the inlined body binds: the local is renamed
    "(lambda x: s.Select(lambda j: j.pt + x.met))(j)", "(lambda x: [j + x for j in s])(j)", "(lambda x: s.Select(lambda j: j + j_1 + x))(j)",
    "(lambda x: s.Select(lambda j, k: j + k + x))(j + k)", "(lambda x, y: (lambda j: x + j)(1) + s.Select(lambda j: y))(j, j)",
    "(lambda x: (lambda q, j: x + j)(q=1))(j)", "(lambda x: s.Select(lambda j: t.Select(lambda j: j + x)))(j)",
    "(lambda x: [j + x for j in [j * 2 for j in x]])(j)", "(lambda x: (j + x for (j, k) in s if j > k))(j)",
    "(lambda x: s.Select(lambda j: j + x).Where(lambda j_1: j_1 > x))(j + j_1)",
    # a renamed parameter of a call that stays a call: its keyword follows
    "(lambda x: (lambda q, j: x + j)(q=1, j=2))(j)", "(lambda x: (lambda q, j: x + j)(1, j=x))(j)",
    "(lambda b: (lambda b: (lambda b: K)(b=10))(b.n))(b)", "(lambda x: (lambda j, k: x)(k=1))(j + k)",
]


def direct_texts(ctx):
    from func_adl.util_ast import _resolve_called_lambdas

    reqs, keep = [], []
    for src in TEXTS:
        a = parse_expr(src)
        try:
            out = enc(_resolve_called_lambdas().visit(parse_expr(src)))
        except Exception as e:
            ctx.violate({"src": src}, f"_resolve_called_lambdas raised {type(e).__name__}: {e}")
            continue
        ctx.count("text:" + src, True, tags=["direct-text"])
        reqs.append(("resolveCalled", [enc(a)]))
        keep.append((src, out))
    for (src, out), (st, payload) in zip(keep, ctx.driver.batch(reqs)):
        if st != "ok" or payload != out:
            ctx.disagree("resolveCalled", {"src": src}, out, payload)


def run(ctx):
    direct_texts(ctx)
    capture.run_cases(ctx, ctx.n(250, 6000), ID)
    capture.run_same_callable_twice(ctx, ctx.n(6, 60))
    capture.known_capture_oracle(ctx)


def replay(ctx, case):
    run(ctx)
