"""C08 — see typed.py (shared machinery for C07 / C08 / C09)."""
from __future__ import annotations

import typed

ID = "C08"
THEOREMS = ["where_keeps_item_type", "where_rejects_nonbool", "select_gives_body_type", "selectMany_gives_element_type", "unwrapIterable_iterable", "resolveRet_generic"]
LEANCHECKER_MODULES = ["Fadl.Props.C08"]  # re-checked by leanchecker in the thorough tier
RULE = (
    "generated class models (gen/classes.py: Trk, Cal, Jet, Vec[T](Iterable[T]), JVec(Vec[Jet]), Evt, an optional registered "
    "collection class, two registered functions; 0-4 parameters per method with a random suffix of defaults of int/float/"
    "str/bool type; class-level, method-level, function and parameterized-property callbacks placed at random, class-level callbacks also on the generic bases Vec / Grouped and their subclasses JVec / ListGroups so that inherited methods and inherited callbacks both occur) and "
    "lambdas over them: every positional/keyword split Python accepts, collection-operator lambdas passed positionally or by keyword (f=, filter=), shuffled keyword order, missing required "
    "parameters, calls at every nesting depth through Select/Where/SelectMany/First/Count on collections and through "
    "dictionary fields, lambda parameter names re-used across nesting levels, method names shared between classes; "
    "non-trivial = every case; distinct = distinct (class model, operator, lambda source)"
)
EXPLANATION = ('Theorems: where_keeps_item_type, where_rejects_nonbool, select_gives_body_type, selectMany_gives_element_type (stream-level typing rules), unwrapIterable through custom Iterable subclasses and re-binding generic subclasses (worked instances), resolveRet_generic. Correspondence: as C07 (the item type of the derived stream is part of the compared observation). Oracle: the generator knows the type of every expression it builds from the annotations (method returns with class type variables substituted through Vec[T](Iterable[T]), JVec(Vec[Jet]), ListGroups[T](Grouped[Iterable[T]]); First/Count; comparisons/and/or; int/float promotion; dict fields) and compares with stream.item_type; non-boolean Where => ValueError. The soundness theorem against a declarative typing relation is not proved yet (partial).')
ASSUMPTIONS = ['typing introspection is replaced by the Ty algebra; multiple inheritance is outside the model and the generator']


def run(ctx):
    typed.run_cases(ctx, ctx.n(30, 200), 60, ID)


def replay(ctx, case):
    typed.run_cases(ctx, 6, 60, ID)
