"""C08 — see typed.py (shared machinery for C07 / C08 / C09)."""
from __future__ import annotations

import typed

ID = "C08"
THEOREMS = ["follow_tySound", "follow_type_is_declared", "streamOp_type_is_declared", "follow_rewrites_calls_only", "follow_type_independent_of_state",
            "where_keeps_item_type", "where_rejects_nonbool", "select_gives_body_type", "selectMany_gives_element_type", "unwrapIterable_iterable", "resolveRet_generic"]
LEANCHECKER_MODULES = ["Fadl.Props.C08", "Fadl.Props.C08Sound"]  # re-checked by leanchecker in the thorough tier
RULE = (
    "generated class models (gen/classes.py: Trk, Cal, Jet, Vec[T](Iterable[T]), JVec(Vec[Jet]), Evt, an optional registered "
    "collection class, two registered functions; 0-4 parameters per method with a random suffix of defaults of int/float/"
    "str/bool type; class-level, method-level, function and parameterized-property callbacks placed at random, class-level callbacks also on the generic bases Vec / Grouped and their subclasses JVec / ListGroups so that inherited methods and inherited callbacks both occur) and "
    "lambdas over them: every positional/keyword split Python accepts, collection-operator lambdas passed positionally or by keyword (f=, filter=), shuffled keyword order, missing required "
    "parameters, calls at every nesting depth through Select/Where/SelectMany/First/Count on collections and through "
    "dictionary fields, lambda parameter names re-used across nesting levels, method names shared between classes; "
    "non-trivial = every case; distinct = distinct (class model, operator, lambda source)"
)
EXPLANATION = ('Main theorem follow_tySound (Props/C08Sound.lean; induction over the fuel through all five mutually recursive functions of the follower model: follow, followL, methodCall, candLoop, onStreamObj): for EVERY class model, environment, stream state and expression, whenever the follower accepts the expression the type it reports is the one the declared-type checker tyOf (Model/TypeSpec.lean) computes for the expression THE USER WROTE. tyOf is the specification: it reads only declarations (classes, inheritance chains, type parameters, signatures, return annotations, registered collection classes) and the types of the names in scope; it has no stream state, runs no callback, rewrites no tree and fills in no default value. Its rules are the ones the property states: a method call gives the annotated return type with the class type variables substituted along the inheritance chain (resolveRet / findMethod), Select on a collection gives Iterable of the type of the lambda body under the parameter bound to the item type, SelectMany the element type of that, Where keeps the item type and refuses a non-boolean filter; subscripting and First give the element type (unwrapIterable through custom Iterable subclasses), comparisons / and / or / not give bool, arithmetic follows Any > float > true-division > int (binTy), a conditional needs equal or two number-like branch types, a field of a dictionary literal or of a value built from one gives the type of that field, a constant index into a tuple literal the type of that element. Corollaries: follow_type_is_declared, streamOp_type_is_declared (the item type of the derived stream: streamOpTy), follow_type_independent_of_state, follow_rewrites_calls_only (Sim: the returned tree differs from the input in call nodes only). The proof needs that filling in defaults, literal evaluation and dictionary-key lookup do not see the rewriting of call nodes (Lemmas/FollowSim.lean). Direction proved: follower accepts => declared type; the converse (every expression tyOf types is accepted) is NOT claimed: check_ast can refuse a filled-in default (e.g. None), which tyOf does not look at. Stream-level and local rules as before: where_keeps_item_type, where_rejects_nonbool, select_gives_body_type, selectMany_gives_element_type, resolveRet_generic. Correspondence: as C07 (the item type of the derived stream is part of the compared observation), and additionally the specification itself is run against the implementation: for every generated lambda the implementation accepts, streamOpTy on the lambda as written must give the implementation\'s item type (unit streamOpTy(spec); counted as spec:item-type-compared in the distribution). Oracle: the generator knows the type of every expression it builds from the annotations and compares with stream.item_type; non-boolean Where => ValueError. Preparing this theorem exposed a model infidelity (the model re-followed rewritten subtrees where the code looks up recorded types; differs under renaming callbacks), corrected in the model and the generator (DESIGN 12.6a).')
ASSUMPTIONS = ['typing introspection is replaced by the Ty algebra; multiple inheritance is outside the model and the generator']


def run(ctx):
    typed.run_cases(ctx, ctx.n(30, 200), 60, ID)


def replay(ctx, case):
    typed.run_cases(ctx, 6, 60, ID)
