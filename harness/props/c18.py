"""C18 — simplification is total on well-formed queries."""
from __future__ import annotations

import simplify

ID = "C18"
THEOREMS = ["simp_fuelMono", "simp_fuel_irrelevant", "simplify_fuel_irrelevant", "simplify_total", "simplify_no_internal_error", "simplify_output_wf", "simp_total", "wfq_rename", "simp_sub_nonconst", "simp_sub_negative", "simp_sub_tuple_const", "simp_sub_dict_absent"]
LEANCHECKER_MODULES = ["Fadl.Props.C18Fuel", "Fadl.Props.C18Total", "Fadl.Props.C18"]  # re-checked by leanchecker in the thorough tier
RULE = (
    "queries of C02's grammar into which literal projections are inserted at random expression positions: a tuple / list / "
    "dict literal wrapped around a sub-expression and indexed with a valid constant, an out-of-range constant, a variable, a "
    "negative index, a slice, a bool, a float, None, a present / absent string key or attribute; dict literals with a "
    "key that is not a constant before or after the wanted key; non-trivial = at least 8 "
    "AST nodes; distinct = source text"
)
EXPLANATION = (
    "Main theorem simplify_total (Props/C18Total.lean, by simp_total: induction over the fuel and every clause of the visitor "
    "and of call_Select / call_SelectMany / call_Where): for every well-formed query (wfq, Model/WfQuery.lean: operator names "
    "only in callee position; First with one argument; Select / SelectMany / Where with two arguments the second of which is a "
    "one-parameter lambda), every counter and every fuel, the visitor model either returns a query that is again well formed "
    "(simplify_output_wf) or fails with the dedicated index error - or runs out of the model's fuel; an internal error "
    "(IndexError / AssertionError / Exception of the Python) is impossible (simplify_no_internal_error). The invariant carried "
    "through the rewrites: everything on the argument stack and everything re-visited (pushed under First, fused lambdas, "
    "nested SelectMany) is well formed, renaming keeps well-formedness (wfq_rename), generated names are never operator names. "
    "Termination itself (that some fuel suffices) is not proved: the run uses fuel 400*size+400 and any fuel error would be a "
    "disagreement with the implementation. First-layer theorems about visit_Subscript: simp_sub_nonconst, simp_sub_negative, "
    "simp_sub_tuple_const (index error exactly when past the end), simp_sub_dict_absent. The hypothesis wfq is evaluated on "
    "every generated query (evidence: 'wfq: hypothesis ... holds'); the generator also produces queries outside it (an operator "
    "name wrapped in a literal and called), which only the correspondence and the oracles cover. Correspondence: as C02 with "
    "the selector stream. Oracle: exception class of the real call (only FuncADLIndexError, and only when some constant "
    "non-negative index can be past the end of a literal), ast.unparse + compile of the result, ev equality."
)


def comprehension_probe(ctx, key):
    "the known finding: a comprehension that reaches the simplifier comes out as an AST that does not compile"
    import ast
    import copy

    from props.c02 import COMP_PROBE

    a = simplify.parse_query(COMP_PROBE)
    try:
        out = simplify.run_simplifier(copy.deepcopy(a))
        compile(ast.fix_missing_locations(ast.Expression(copy.deepcopy(out))), "<simplified>", "eval")
    except Exception as e:
        ctx.violate({"src": COMP_PROBE, "error": f"{type(e).__name__}: {e}"[:200]},
                    "C18: the simplified AST of a query with a comprehension cannot be compiled", key=key)


def substitution_family(rng, n):
    """an argument that needs parentheses in some positions (conditional, and/or, comparison, arithmetic, not, lambda) substituted
    into SEVERAL positions of different binding strength: the text of the result must be the text of the tree (ast.unparse
    keeps its parenthesisation state per node object)"""
    out = []
    for _ in range(n):
        v = rng.choice(["e", "x", "j"])
        arg = rng.choice([f"({v}.met if {v}.run > 1 else 3)", f"({v}.met or {v}.run)", f"({v}.met < {v}.run)", f"({v}.met + 2)", f"(not {v}.met)",
                          f"({v}.met if {v}.run else ({v}.run if {v}.met else 1))", f"({v}.met and {v}.run or 7)", f"(-{v}.met)", f"({v}.met ** 2)"])
        w = rng.choice(["w", "q", "a"])
        body = rng.choice([f"(3 if {w} else 4) < {w}", f"({w} if {w} > 1 else 2) + {w}", f"[{w}, 0][0] * {w}", f"({w} or 1) and {w}",
                           f"-({w}) - {w}", f"({w}, 1)[0] < {w}", f"{{'k': {w}}}['k'] + {w} * 2", f"(2 if ({w} < 3) else {w}) ** {w}",
                           f"({w} if {w} else {w}) if {w} else {w}", f"not ({w} if 1 else 2) == {w}", f"({w} < {w}) < ({w} if {w} else 0) < {w}",
                           f"(lambda k: k + {w})(({w} if 0 else 1)) * {w}"])
        out.append(rng.choice([f"Select(ds, lambda {v}: (lambda {w}: {body})({arg}))", f"Where(ds, lambda {v}: (lambda {w}: {body})({arg}) > 0)",
                               f"Select(ds, lambda {v}: (lambda {w}, z: {body})({arg}, z=1))"]))
    return out


def starred_probe(ctx, key):
    """the known finding: a starred element in a tuple / list literal counts as ONE element when the literal is indexed with a
    constant - wrong value, spurious index error, or a bare starred node that does not compile"""
    import ast
    import copy

    env = {"t": (1, 2), "m": 9}
    for text in ["[*t, m][1]", "(*t, m)[2]", "(*t, m)[0]", "(m, *t)[1]"]:
        a = ast.parse(text, mode="eval").body
        want = eval(text, {}, dict(env))
        ctx.count("starred-probe:" + text, True, tags=["starred element probe"])
        try:
            out = simplify.run_simplifier(copy.deepcopy(a))
            got = eval(compile(ast.fix_missing_locations(ast.Expression(out)), "<probe>", "eval"), {}, dict(env))
        except Exception as e:
            got = f"raises {type(e).__name__}"
        if got != want:
            ctx.violate({"src": text, "python_original": repr(want), "simplified": repr(got)},
                        "a tuple / list literal with a starred element indexed with a constant: the starred element is counted as one element", key=key)
            return


def handbuilt_arguments_probe(ctx):
    """a called lambda whose ast.arguments node was built by hand without the optional fields (posonlyargs, kwonlyargs, ...;
    legal on Python < 3.13): the call is substituted as for a parsed lambda, nothing but the index error may be raised
    (wave-10 review of repo fix 8f72987, which read the fields directly; repaired by 55520b1)"""
    import ast

    for n_params in (1, 2):
        names = ["x", "y"][:n_params]
        for drop in (["posonlyargs"], ["posonlyargs", "kwonlyargs", "kw_defaults"], ["posonlyargs", "vararg", "kwarg"]):
            fields = {"args": [ast.arg(arg=p) for p in names], "vararg": None, "kwonlyargs": [], "kw_defaults": [], "kwarg": None, "defaults": []}
            for d in drop:
                fields.pop(d, None)
            args = ast.arguments(**fields)
            for d in drop:   # newer Pythons fill missing optional fields in; the probe is about nodes that lack them
                if hasattr(args, d) and d in ("posonlyargs", "kwonlyargs", "kw_defaults"):
                    try:
                        delattr(args, d)
                    except AttributeError:
                        pass
            body = ast.Tuple(elts=[ast.Name(p, ast.Load()) for p in names], ctx=ast.Load())
            call = ast.Call(ast.Lambda(args=args, body=ast.Subscript(body, ast.Constant(0), ast.Load())), [ast.Constant(5 + i) for i in range(n_params)], [])
            ctx.count(f"handbuilt-arguments:{n_params}:{','.join(drop)}", True, tags=["hand-built arguments node"])
            try:
                out = simplify.run_simplifier(call)
                got = ast.dump(out)
            except Exception as e:
                got = f"raises {type(e).__name__}: {e}"[:160]
            if got != ast.dump(ast.Constant(5)):
                ctx.violate({"params": names, "fields_missing": drop, "got": got[:200]},
                            "C18: a called lambda whose hand-built arguments node lacks optional fields is not substituted (or the simplifier raised)")


def run(ctx):
    comprehension_probe(ctx, "C18-comprehension-target-load-context")
    handbuilt_arguments_probe(ctx)
    starred_probe(ctx, "C18-starred-element-in-indexed-literal")
    simplify.check_queries(ctx, substitution_family(ctx.rng, ctx.n(80, 2000)), "c18-substitution")
    n = ctx.n(1000, 50000)
    done = 0
    while done < n:
        srcs = [simplify.gen_c18(ctx.rng) for _ in range(min(1500, n - done))]
        simplify.check_queries(ctx, srcs, "c18")
        done += len(srcs)


def replay(ctx, case):
    src = case.get("src") or case.get("case", {}).get("src")
    simplify.check_queries(ctx, [src], "replay")
