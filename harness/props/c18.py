"""C18 — simplification is total on well-formed queries."""
from __future__ import annotations

import simplify

ID = "C18"
THEOREMS = ["simp_sub_nonconst", "simp_sub_negative", "simp_sub_tuple_const", "simp_sub_dict_absent"]
RULE = (
    "queries of C02's grammar into which literal projections are inserted at random expression positions: a tuple / list / "
    "dict literal wrapped around a sub-expression and indexed with a valid constant, an out-of-range constant, a variable, a "
    "negative index, a slice, a bool, a float, None, a present / absent string key or attribute; dict literals with a "
    "key that is not a constant before or after the wanted key; non-trivial = at least 8 "
    "AST nodes; distinct = source text"
)
EXPLANATION = ('Theorems so far (first layer, about the model of visit_Subscript): a selector that is not an int/str constant leaves the subscript intact around the simplified children (simp_sub_nonconst), a negative constant index leaves a tuple literal intact (simp_sub_negative), a non-negative constant index returns the component or raises the dedicated index error exactly when it is past the end (simp_sub_tuple_const), an absent key leaves a well-formed subscript (simp_sub_dict_absent). Termination / no-internal-error for the whole grammar is in progress. Correspondence: as C02 with the selector stream. Oracle: exception class of the real call (only FuncADLIndexError, and only when some constant non-negative index can be past the end of a literal), ast.unparse + compile of the result, ev equality (semantically intact).')


def comprehension_probe(ctx, key):
    "the known finding: a comprehension that reaches the simplifier comes out as an AST that does not compile"
    import ast
    import copy

    from props.c02 import COMP_PROBE

    a = simplify.parse_query(COMP_PROBE)
    try:
        out = simplify.run_simplifier(copy.deepcopy(a))
        compile(ast.fix_missing_locations(ast.Expression(copy.deepcopy(out))), "<simplified>", "eval")
    except Exception as e:
        ctx.violate({"src": COMP_PROBE, "error": f"{type(e).__name__}: {e}"[:200]},
                    "C18: the simplified AST of a query with a comprehension cannot be compiled", key=key)


def run(ctx):
    comprehension_probe(ctx, "C18-comprehension-target-load-context")
    n = ctx.n(1000, 50000)
    done = 0
    while done < n:
        srcs = [simplify.gen_c18(ctx.rng) for _ in range(min(1500, n - done))]
        simplify.check_queries(ctx, srcs, "c18")
        done += len(srcs)


def replay(ctx, case):
    src = case.get("src") or case.get("case", {}).get("src")
    simplify.check_queries(ctx, [src], "replay")
