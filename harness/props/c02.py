"""C02 — chained-call simplification preserves query results."""
from __future__ import annotations

import simplify

ID = "C02"
THEOREMS = ["nextArg_fresh", "simplify_start_names_fresh", "argIdx_argName", "simplify_fuel_irrelevant", "simplify_sound_of_checked", "simpCk_refines_simp", "simplifyCk_refines_simplify", "simplifyCk_preserves", "simplifyCk_refines", "simpCk_sound", "sem_attr_first", "sem_called_lambda", "rename_le_both",
            "select_identity_sem", "makeSelect_sem", "makeArgsUnique_counter", "freshNames_mem", "lambdaIsIdentity_sound",
            "rule_select_select", "rule_selectMany_select", "rule_where_select", "rule_where_where", "rule_select_selectMany",
            "rule_where_selectMany", "rule_selectMany_selectMany", "rule_first_attr", "rule_first_sub", "rule_tuple_index", "rule_list_index",
            "denLz_coincide", "denLz_mono", "denLz_wf", "denLz_noPoison", "sel_sel", "whr_whr", "whr_sel", "many_sel", "sel_many", "whr_many", "many_many", "first_sel"]
LEANCHECKER_MODULES = ["Fadl.Props.C02Fresh", "Fadl.Props.C18Fuel", "Fadl.Props.C02Refine", "Fadl.Props.C02Main", "Fadl.Props.C02Sound", "Fadl.Props.C02Called", "Fadl.Lemmas.Rename", "Fadl.Props.C02", "Fadl.Props.C02Rules", "Fadl.Lemmas.Coincide", "Fadl.Lemmas.MonoLz", "Fadl.Lemmas.LazyRules"]  # re-checked by leanchecker in the thorough tier
RULE = (
    "seeded sort-directed closed queries over Select/Where/SelectMany/First/Count/len/Sum/Max/Min in function form (half "
    "of them converted from method form by the shipped pass), nested lambdas, called lambdas with positional and keyword "
    "arguments, tuple/list/dict construction with constant projection, arithmetic/boolean/conditional expressions, method "
    "calls with arguments; binder naming schemes all-distinct / all-identical / inner re-use of a live outer name / one to "
    "three parameters renamed to arg_0 .. arg_5 (the names the simplifier generates next); each on "
    "three datasets (Lean ev) and a sample on two more in CPython; non-trivial = at least 8 AST nodes; distinct = source text"
)
EXPLANATION = (
    "Main theorem simplifyCk_preserves (Props/C02Main.lean): for every world whose functions return well-formed values, "
    "every well-formed environment (every dataset), every query e and every fuel / counter: if the checked simplifier model "
    "returns e' and e evaluates under deferred execution to a value v without deferred failures, then e' evaluates to v "
    "(simplifyCk_refines: in general to a refinement of the value). It is proved by induction over every clause of the "
    "visitor (simpCk_sound) from: the refinement order on values and monotonicity of the semantics (denLz_mono), coincidence "
    "on free names (denLz_coincide), the renaming lemma for make_args_unique (rename_le_both), the argument stack as a "
    "substitution (EnvRel, sem_called_lambda: positional and keyword binding), and the rule theorems rule_* for every "
    "fusion / push-down / projection rule. The checked model simpCk is simp with its side conditions (freshness of generated "
    "names, no capture when a lambda is nested under another's parameter, parameters not used as callee names) as explicit "
    "guards. Theorem simpCk_refines_simp: whenever simpCk returns a result, simp - the model compared with the code on every "
    "run - returns the same result, so simplify_sound_of_checked states the preservation for the output of simp itself on "
    "every query the checked model accepts. simplify / simplifyCk start, like the code since repo fix e08ed1d, from the counter "
    "moved past every arg_N name the query holds (nextArg); theorem nextArg_fresh (Props/C02Fresh.lean): a name generated "
    "from a counter at or past nextArg e occurs nowhere in e, as a Name or as a lambda parameter (argIdx_argName: the index "
    "read back from a generated name is the counter it was made from - Nat.repr round trip), simplify_start_names_fresh for "
    "the names make_args_unique draws there; the generated family c02-argN renames parameters to arg_0 .. arg_5. A query on which a guard fires (a lambda parameter used as a function, "
    "...) is outside the theorem's domain and is covered by the correspondence and "
    "the evaluation oracles only; the evidence counts them per guard (outside-checked-model). Comprehensions are refused "
    "by simpCk (they are lowered by the sugar pass before the simplifier runs; the implementation captures a comprehension "
    "target, see DESIGN 12.5). Per run: simplify_chained_calls vs the compiled Lean simp on every generated query (modulo "
    "alpha), Lean ev of original vs simplified on three datasets, CPython evaluation of both on two datasets for a sample."
)


COMP_PROBE = "Select(ds, lambda x: (lambda a: [a.met + x.pt for x in x.jets])(x))"


def comprehension_probe(ctx, key):
    "the known finding: a comprehension that reaches the simplifier has its target captured / renamed"
    import ast
    import copy

    import pyworld
    from common import rich_dataset

    a = simplify.parse_query(COMP_PROBE)
    try:
        out = simplify.run_simplifier(copy.deepcopy(a))
    except Exception as e:
        ctx.violate({"src": COMP_PROBE, "error": f"{type(e).__name__}: {e}"[:200]}, "the simplifier raised on a comprehension", key=key)
        return
    w = pyworld.to_world(rich_dataset(ctx.rng))
    want = pyworld.from_world(pyworld.py_eval(a, w))
    try:
        have = pyworld.from_world(pyworld.py_eval(out, w))
    except Exception as e:
        have = f"raises {type(e).__name__}: {e}"[:160]
    if have != want:
        ctx.violate({"src": COMP_PROBE, "out": ast.unparse(out), "python_original": repr(want)[:150], "python_simplified": repr(have)[:150]},
                    "a comprehension inside a simplified query: the result does not compute what the original computes", key=key)


ARGN_PROBE = "Select(ds, lambda x: Select(x.jets, lambda arg_0: arg_0.pt + x.met))"


def argn_family(rng, n):
    """queries that already hold names of the form arg_N (for instance the simplifier's own output, simplified again in a
    fresh process): one to three lambda parameters of a generated query are renamed, consistently, to arg_0 .. arg_5 - the
    names the simplifier would generate next (formerly the open finding C02-generated-name-already-in-use; repaired in
    the repo by reserve_arg_names, modelled by nextArg in Model/Simplify.lean)"""
    import ast
    import re

    # ... and a number far past anything a counter reaches (wave-11 review of e08ed1d: int() of 4400 digits raised)
    out = [ARGN_PROBE, f"Select(Select(ds, lambda e: e.met + arg_{'7' * 4400}), lambda x: x + 1)"]
    # ... and a number next to a bound on the digits looked at (wave-12 review of e26a402: 18 digits; the counter went on to
    # 19-digit names that were not reserved)
    out.append("Select(ds, lambda arg_999999999999999999: Select(Select(arg_999999999999999999.jets, lambda x: x.pt), "
               "lambda y: y + arg_1000000000000000000))")
    # ... and a number of exactly the longest length Python converts (wave-13 review of 4bddb63: the counter, one more, could
    # not be formatted any longer and every later query of the process failed)
    import sys as _sys
    lim = getattr(_sys, "get_int_max_str_digits", lambda: 0)()
    if lim:
        out.append(f"Select(Select(ds, lambda e: e.met + arg_{'9' * lim}), lambda x: x + 1)")
        # ... and one digit shorter, next to a name of the limit length (wave-14 review of 67dbec6: a bound on the LENGTH
        # stopped reserving the whole family the counter had just been moved into)
        near, big = "arg_" + "9" * (lim - 1), "arg_1" + "0" * (lim - 2) + "1"
        out.append(f"Select(Select(ds, lambda {near}: {near}), lambda x: Select(x.jets, lambda {big}: {big}.pt + x.met))")
        # ... and the last but one number of the limit length (wave-15 review of 6d2d5ea: the counter was moved to the last
        # one, and the second name drawn could not be written - in this and in every later query of the process)
        out.append(f"Select(Select(ds, lambda e: e.met + arg_{'9' * (lim - 1)}8), lambda x: x + 1)")
    tries = 0
    while len(out) < n and tries < 20 * n:
        tries += 1
        src = rng.choice([simplify.gen_c02, simplify.gen_c02, lambda r: reuse_family(r, 1)[0]])(rng)
        try:
            tree = ast.parse(src, mode="eval")
        except SyntaxError:
            continue
        params = sorted({a.arg for nd in ast.walk(tree) if isinstance(nd, ast.Lambda) for a in nd.args.args})
        if not params:
            continue
        chosen = rng.sample(params, min(len(params), rng.choice([1, 1, 2, 3])))
        ks = rng.sample(range(6), len(chosen))
        for old, k in zip(chosen, ks):
            src = re.sub(rf"(?<![\w.'\"]){re.escape(old)}(?![\w'\"])", f"arg_{k}", src)
        out.append(src)
    return out


# called lambdas with parameters that are not plain: since repo fixes 8f72987 / 55520b1 they are left as calls (or substituted
# when only plain parameters are involved) - either way the value is the original's (seed C02-w9-0; not keyed: a failure
# here is an ordinary violation)
CALLED_NONPLAIN_PROBES = ["(lambda x, *, k=3: x + k)(1)", "(lambda p=1, /, q=2: p + q)(5)", "(lambda x, *r: x + 1)(4)",
                          "Select(seq, lambda v: (lambda x, *, k=3: x + k)(v))", "(lambda x, *, k=3: x + k)(1, k=2)",
                          "Select(seq, lambda v: (lambda a, b=2: a * b)(v))"]
KWONLY_PROBES = ["(lambda k: Select(seq, lambda x, *, k=1: x + k))(5)", "(lambda k: Select(seq, lambda x, /, k=1: x + k))(5)"]


def kwonly_binder_probe(ctx, key):
    """the known finding: a keyword-only / positional-only parameter of a lambda that stays in the query is not treated as a
    binder - an outer argument of the same name is substituted for it (make_args_unique / visit_Lambda know args.args only)"""
    import ast

    def Select(s, f):
        return [f(v) for v in s]

    for text in CALLED_NONPLAIN_PROBES + KWONLY_PROBES:
        want = eval(text, {"Select": Select, "seq": [1, 2, 3]})
        ctx.count("kwonly-binder-probe:" + text, True, tags=["keyword-only / positional-only binder probe"])
        try:
            out = simplify.run_simplifier(ast.parse(text, mode="eval").body)
            have = eval(compile(ast.fix_missing_locations(ast.Expression(out)), "<s>", "eval"), {"Select": Select, "seq": [1, 2, 3]})
            shown = ast.unparse(out)
        except Exception as e:
            have, shown = f"raises {type(e).__name__}: {e}"[:160], ""
        if have != want:
            ctx.violate({"src": text, "out": shown, "python_original": repr(want), "python_simplified": repr(have)},
                        "a parameter that is not among args.args (keyword-only / positional-only) is not treated as a binder",
                        key=key if text in KWONLY_PROBES else None)


def reuse_family(rng, n):
    """a stage lambda that re-uses the still-live parameter name of the ENCLOSING (un-called) lambda, followed by a stage whose
    lambda mentions the enclosing parameter: fusing the two stages must not let the inner binder capture it"""
    out = []
    for _ in range(n):
        P = rng.choice(["e", "x", "j", "evt"])
        Q = rng.choice([P, P, P, "q"])           # mostly the re-use; sometimes distinct (must behave the same)
        seq, fld = rng.choice([("jets", "trks"), ("jets", "vals"), ("els", "vals"), ("els", "trks")])
        leaf = "y.pt" if fld == "trks" else "y"
        outer_int = rng.choice(["met", "run"])
        inner = f"SelectMany({P}.{seq}, lambda {Q}: {Q}.{fld})"
        body = rng.choice([
            f"Select({inner}, lambda y: {leaf} + {P}.{outer_int})",
            f"Where({inner}, lambda y: {leaf} > {P}.{outer_int})",
            f"SelectMany({inner}, lambda y: {P}.nums)",
            f"Count(Where({inner}, lambda y: {leaf} < {P}.{outer_int}))",
            f"First(Select({inner}, lambda y: ({leaf}, {P}.{outer_int})))[1]",
            f"Select(Select({P}.{seq}, lambda {Q}: {Q}.pt), lambda y: y + {P}.{outer_int})",
            f"Where(Where({P}.{seq}, lambda {Q}: {Q}.pt > 1), lambda y: y.pt > {P}.{outer_int})",
        ])
        top = rng.choice([f"Select(ds, lambda {P}: {body})", f"Select(Where(ds, lambda {P}: {P}.met > 0), lambda {P}: {body})",
                          f"SelectMany(ds, lambda {P}: Select({P}.jets, lambda k: {body}))" if P != "k" else f"Select(ds, lambda {P}: {body})"])
        out.append(top)
    return out


def run(ctx):
    comprehension_probe(ctx, "C02-comprehension-target-captured")
    simplify.check_queries(ctx, argn_family(ctx.rng, ctx.n(150, 4000)), "c02-argN")
    kwonly_binder_probe(ctx, "C02-non-plain-parameter-not-a-binder")
    simplify.check_queries(ctx, reuse_family(ctx.rng, ctx.n(60, 1500)), "c02-reuse")
    n = ctx.n(1200, 60000)
    done = 0
    while done < n:
        srcs = [simplify.gen_c02(ctx.rng) for _ in range(min(1500, n - done))]
        simplify.check_queries(ctx, srcs, "c02")
        done += len(srcs)


def replay(ctx, case):
    src = case.get("src") or case.get("case", {}).get("src")
    simplify.check_queries(ctx, [src], "replay")
