"""C02 — chained-call simplification preserves query results."""
from __future__ import annotations

import simplify

ID = "C02"
THEOREMS = ["select_identity_sem", "makeSelect_sem", "makeArgsUnique_counter", "freshNames_mem", "lambdaIsIdentity_sound"]
RULE = (
    "seeded sort-directed closed queries over Select/Where/SelectMany/First/Count/len/Sum/Max/Min in function form (half "
    "of them converted from method form by the shipped pass), nested lambdas, called lambdas with positional and keyword "
    "arguments, tuple/list/dict construction with constant projection, arithmetic/boolean/conditional expressions, method "
    "calls with arguments; binder naming schemes all-distinct / all-identical / inner re-use of a live outer name; each on "
    "three datasets (Lean ev) and a sample on two more in CPython; non-trivial = at least 8 AST nodes; distinct = source text"
)
EXPLANATION = ("Theorems so far (first layer): make_Select's identity elimination preserves the value under deferred execution (select_identity_sem, makeSelect_sem); the fresh-name supply (makeArgsUnique_counter, freshNames_mem). The preservation theorem for the whole simplifier is in progress (DESIGN). Correspondence: simplify_chained_calls vs the compiled Lean simp on every generated query, compared modulo alpha-equivalence of lambda binders. Oracles on the implementation: Lean ev (deferred-execution semantics) of original vs simplified on three datasets; CPython evaluation of both on two datasets for a sample; unbound / wrongly bound names show up as evaluation differences.")


def run(ctx):
    n = ctx.n(1200, 60000)
    done = 0
    while done < n:
        srcs = [simplify.gen_c02(ctx.rng) for _ in range(min(1500, n - done))]
        simplify.check_queries(ctx, srcs, "c02")
        done += len(srcs)


def replay(ctx, case):
    src = case.get("src") or case.get("case", {}).get("src")
    simplify.check_queries(ctx, [src], "replay")
