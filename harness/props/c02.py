"""C02 — chained-call simplification preserves query results."""
from __future__ import annotations

import simplify

ID = "C02"
THEOREMS = ["simplifyCk_preserves", "simplifyCk_refines", "simpCk_sound", "sem_called_lambda", "rename_le_both",
            "select_identity_sem", "makeSelect_sem", "makeArgsUnique_counter", "freshNames_mem", "lambdaIsIdentity_sound",
            "rule_select_select", "rule_selectMany_select", "rule_where_select", "rule_where_where", "rule_select_selectMany",
            "rule_where_selectMany", "rule_selectMany_selectMany", "rule_first_attr", "rule_first_sub", "rule_tuple_index", "rule_list_index",
            "denLz_coincide", "denLz_mono", "denLz_wf", "denLz_noPoison", "sel_sel", "whr_whr", "whr_sel", "many_sel", "sel_many", "whr_many", "many_many", "first_sel"]
RULE = (
    "seeded sort-directed closed queries over Select/Where/SelectMany/First/Count/len/Sum/Max/Min in function form (half "
    "of them converted from method form by the shipped pass), nested lambdas, called lambdas with positional and keyword "
    "arguments, tuple/list/dict construction with constant projection, arithmetic/boolean/conditional expressions, method "
    "calls with arguments; binder naming schemes all-distinct / all-identical / inner re-use of a live outer name; each on "
    "three datasets (Lean ev) and a sample on two more in CPython; non-trivial = at least 8 AST nodes; distinct = source text"
)
EXPLANATION = (
    "Theorems: (1) every fusion rule the simplifier applies is value preserving under deferred execution, for every source, "
    "every pair of lambdas, every world and environment: rule_select_select, rule_selectMany_select, rule_where_select, "
    "rule_where_where, rule_select_selectMany, rule_where_selectMany, rule_selectMany_selectMany (built on the value-level "
    "laws sel_sel, whr_whr, whr_sel, many_sel, sel_many, whr_many, many_many), rule_first_attr / rule_first_sub (first_sel), "
    "rule_tuple_index / rule_list_index, make_Select's identity elimination (select_identity_sem, makeSelect_sem); (2) "
    "denLz_coincide: the value depends only on the free names (basis of the freshness side conditions); (3) the fresh-name "
    "supply (makeArgsUnique_counter, freshNames_mem). PARTIAL: the theorem for the whole visitor (substitution stack, "
    "re-visiting) is not proved; that composition is covered per run by: correspondence of simplify_chained_calls vs the "
    "compiled Lean simp on every generated query (modulo alpha), Lean ev of original vs simplified on three datasets, "
    "CPython evaluation of both on two datasets for a sample."
)


def run(ctx):
    n = ctx.n(1200, 60000)
    done = 0
    while done < n:
        srcs = [simplify.gen_c02(ctx.rng) for _ in range(min(1500, n - done))]
        simplify.check_queries(ctx, srcs, "c02")
        done += len(srcs)


def replay(ctx, case):
    src = case.get("src") or case.get("case", {}).get("src")
    simplify.check_queries(ctx, [src], "replay")
