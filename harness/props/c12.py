"""C12 — see streams.py (shared history machinery for C11 / C12 / C16)."""
from __future__ import annotations

import streams

ID = "C12"
THEOREMS = ["build_calls_nothing", "value_calls_once", "value_changes_nothing_else", "root_recoverable", "no_or_many_roots_rejected", "inv_run",
            "conc_state", "complete_changes_nothing", "start_invokes_once", "task_gets_own_outcome", "invocation_task_bijective", "cinv_run"]
LEANCHECKER_MODULES = ["Fadl.Props.C12", "Fadl.Props.C12Conc", "Fadl.Lemmas.StreamInv"]  # re-checked by leanchecker in the thorough tier
EXPLANATION = ("Theorems: no operation other than value() appends to the call log (build_calls_nothing); in every reachable state value() appends exactly one invocation, of the override if given else of the executor of the dataset the stream was derived from, with removeEmptyMD of the stream's query and the title (value_calls_once; the executor invariant survives the shallow copy QMetaData makes); the root dataset is recoverable (root_recoverable) and 0 / >= 2 roots are rejected. Correspondence: call log and executor of every stream after every step. Oracle (real asyncio): exactly one call per value(), right dataset, query = declarative strip-empty reference, title, returned value / raised exception identity, concurrently awaited calls completed in a generated permutation. Concurrency (Props/C12Conc.lean over the event model Model/Concurrent.lean: op / start / complete events in ANY order): conc_state - the streams, the heap and the log of executor invocations of a concurrent history are those of the sequential history in which every value_async is a value() at the point where it was started, completions change nothing (complete_changes_nothing); start_invokes_once - in every reachable concurrent state a start appends exactly the one invocation value_calls_once describes; task_gets_own_outcome - a task that ended with an outcome from invocation c is the task that made invocation c and the outcome is what a completion event of c delivered; invocation_task_bijective. The event model is executable (driver op conc) and every generated history with concurrently awaited batches is run through it: final state and what each awaiting call got (named by invocation number) must equal the real asyncio run. PARTIAL: delivery of an awaited coroutine's outcome to its awaiter and make_sync's thread hand-off are asyncio/runtime behaviour, exercised by the oracle, not proved.")
ASSUMPTIONS = ["asyncio delivers an awaited coroutine's outcome to its awaiter; make_sync runs the coroutine to completion (runtime, exercised not proved)"]
RULE = (
    "seeded histories (harness/streams.py: gen_history) of 4-20 operations over a forest of streams on 1-4 datasets "
    "(root EventDataset(...) nodes with 0-2 extra arguments): "
    "Select/Where/SelectMany with text lambdas, MetaData (empty and non-empty, empty ones stacked directly on each other and then executed), QMetaData (new keys, falsy values 0 and '', repeated keys with "
    "equal/different values, consecutive calls, on roots and derived streams), the four As* terminals, value()/value_async() "
    "with and without override executor and title, executors that return or raise, and batches of 2-4 concurrently awaited "
    "value_async() calls completed in a generated permutation; after EVERY step every live stream is observed; "
    "non-trivial = history with at least 4 operations; distinct = distinct operation list"
)


def run(ctx):
    streams.run_histories(ctx, ctx.n(150, 4000), ID)


def replay(ctx, case):
    import ast as _ast

    ops = _ast.literal_eval(case.get("ops") or case.get("case", {}).get("ops"))
    r = streams.Runner(ctx, ops, ID)
    obs = r.run()
    if obs is not None:
        (st, payload), = ctx.driver.batch([("history", [streams.lean_ops(ops, [streams.type_name(s.item_type) for s in r.streams]), "(" + " ".join('"%s"' % k for k in streams.KEYS) + ")"])])
        if st != "ok" or payload != obs:
            ctx.disagree("stream-history", {"ops": repr(ops)}, "replay differs", st)
