"""C06 — comprehension and data-class sugar lowers to equivalent queries."""
from __future__ import annotations

import ast
import copy
import dataclasses
from typing import NamedTuple

from astcodec import Unsupported, const_tag, enc, parse_expr
from common import compare_ev, fixed_datasets
from gen.data import gen_dataset
from gen.expr import Opt, gen_query
from sexpr import q
import capture
import impl
import pyworld

ID = "C06"
THEOREMS = ["sugar_preserves", "lower_sem", "ctor_binding", "surplus_args_refused", "surplus_positional_refused", "convertCall_plain", "unknown_keyword_refused",
            "nonname_target_refused", "async_refused"]
LEANCHECKER_MODULES = ["Fadl.Props.C06"]  # re-checked by leanchecker in the thorough tier
RULE = (
    "seeded queries with list comprehensions / generator expressions (one for, 0-2 ifs) nested in element, "
    "iterable and condition position and inside operator lambdas, target names colliding with live outer "
    "names; malformed comprehensions (tuple target, async); generated dataclass and NamedTuple classes "
    "(1-4 fields, with and without defaults) called with every positional/keyword split, keyword order, "
    "unknown and surplus arguments, nested in lambdas; lambdas given as python callables in generated modules whose "
    "comprehensions use loop variables spelled like captured names (closure cells, module globals, classes) with "
    "the captured value mentioned in the iterable (harness/capture.py comp_template); non-trivial = contains a comprehension or a "
    "constructor call; distinct = distinct source text / call shape"
)
EXPLANATION = (
    "Theorems: sugar_preserves (whenever the original, with Python's native comprehension semantics, "
    "evaluates, the lowered Where/Select chain evaluates to the same value; any nesting; every world), "
    "lower_sem (the core lemma), ctor_binding (dictionary keys/values = Python's constructor binding), "
    "the four refusal theorems (ValueError). Correspondence: resolve_syntatic_sugar vs compiled "
    "resolveSugar. Oracles on the implementation: CPython evaluation of the original comprehension vs "
    "CPython evaluation of the lowered chain on generated data; real constructor call vs lowered dict; "
    "ValueError for the malformed uses; ev equality."
)
ASSUMPTIONS = ["comprehensions with exactly one for clause (the property's quantifier); a positional argument "
               "repeated as a keyword is outside (DESIGN section 8 decision 5)"]


# ---- comprehension cases ----------------------------------------------------------------------------------
def has_comp(a):
    return any(isinstance(n, (ast.ListComp, ast.GeneratorExp)) for n in ast.walk(a))


def check_comp_cases(ctx, srcs):
    from func_adl.ast.syntatic_sugar import resolve_syntatic_sugar

    reqs, keep = [], []
    rng = ctx.rng
    from common import rich_dataset

    worlds = [pyworld.to_world(rich_dataset(rng)), pyworld.to_world(gen_dataset(rng))]
    from common import fixed_datasets as _fd  # noqa
    for src in srcs:
        try:
            a = parse_expr(src)
            a_enc = enc(a)
        except (Unsupported, SyntaxError) as e:
            ctx.skip(type(e).__name__)
            continue
        malformed = any(isinstance(n, (ast.ListComp, ast.GeneratorExp)) and
                        (not isinstance(n.generators[0].target, ast.Name) or n.generators[0].is_async)
                        for n in ast.walk(a))
        ctx.count(src, has_comp(a), sample={"src": src}, tags=["comprehension" if has_comp(a) else "plain"] + (["malformed"] if malformed else []))
        try:
            out = resolve_syntatic_sugar(copy.deepcopy(a))
            got = ("ok", enc(out))
        except Exception as e:
            out = None
            got = ("err", impl.classify_exc(e))
        if malformed:
            if got != ("err", "ValueError"):
                ctx.violate({"src": src, "got": got[1][:200]}, "malformed comprehension (tuple target / async) was not refused with ValueError")
        else:
            if got[0] != "ok":
                ctx.violate({"src": src}, f"resolve_syntatic_sugar raised {got[1]} on a well-formed comprehension")
            else:
                if has_comp(out):
                    ctx.violate({"src": src, "out": ast.unparse(out)}, "a comprehension remains after lowering")
                # CPython: original vs lowered on data
                for wds in worlds:
                    try:
                        want = pyworld.from_world(pyworld.py_eval(a, wds))
                    except Exception:
                        ctx.dist["py-original-raises"] += 1
                        continue
                    ctx.dist["py-original-ok"] += 1
                    try:
                        have = pyworld.from_world(pyworld.py_eval(out, wds))
                    except Exception as e:
                        have = f"raises {type(e).__name__}: {e}"
                    if have != want:
                        ctx.violate({"src": src, "lowered": ast.unparse(out), "python": repr(want)[:200], "lowered_value": repr(have)[:200]},
                                    "lowered query does not compute what Python computes for the comprehension")
                        break
        reqs.append(("sugar", ["()", a_enc]))
        keep.append((src, a_enc, got, malformed))
    res = ctx.driver.batch(reqs)
    pairs = []
    for (src, a_enc, got, malformed), (st, payload) in zip(keep, res):
        if (st, payload) != got:
            ctx.disagree("resolveSugar", {"src": src}, got, (st, payload))
        if got[0] == "ok":
            pairs.append(({"src": src}, a_enc, got[1]))
    compare_ev(ctx, ctx.driver, pairs, fixed_datasets(ctx.rng, 3), "lowering changed the value of the query (ev)")


def literal_iter_template(rng) -> str:
    """comprehensions over a written-out list, whose element holds a nested comprehension / lambda that re-uses the loop
    variable's name (seed C06-w6-2: an unrolling that substitutes the variable without regard for inner binders)"""
    v = rng.choice(["v", "x", "k", "e"])
    w = v if rng.random() < 0.6 else rng.choice(["w", "y"])
    lit = rng.choice(["[10, 20]", "[1, 2, 3]", "[0]", "[5, 5, 7]", "[e.met, 3]" if v != "e" else "[4, 3]"])
    cond = rng.choice(["", "", f" if {v} > 2"])
    ev = "e" if v != "e" and w != "e" else "q"
    body = rng.choice([
        f"[[{w} * 2 for {w} in {ev}.nums] for {v} in {lit}{cond}]",
        f"[Count([{w} for {w} in {ev}.nums if {w} > {v}]) + {v} for {v} in {lit}{cond}]",
        f"[(lambda {w}: {w} + 1)({v} + 1) + {v} for {v} in {lit}{cond}]",
        f"[{ev}.nums.Select(lambda {w}: {w} + 1).Count() + {v} for {v} in {lit}{cond}]",
        f"[{ev}.jets.Where(lambda {w}: {w}.pt > {v}).Count() for {v} in {lit}{cond}]",
        f"[Sum([{w} + {v} for {w} in {ev}.nums]) for {v} in {lit}{cond}]",
    ]).replace("[e.met, 3]", f"[{ev}.met, 3]")
    return f"Select(ds, lambda {ev}: {body})"


def gen_comp_src(rng):
    if rng.random() < 0.08:
        return literal_iter_template(rng)
    opt = Opt(form=rng.choice(["mixed", "method", "func"]), comps=True, comp_rate=rng.choice([0.2, 0.4, 0.6]),
              naming=rng.choice(["mixed", "reuse", "same"]), max_depth=rng.choice([2, 3, 4]))
    src, _ = gen_query(rng, opt, top_sort=rng.choice([None, ("seq", ("int",)), ("seq", ("seq", ("int",)))]))
    r = rng.random()
    if r < 0.04:
        src = f"[a for (a, b) in {src}]"
    elif r < 0.07:
        src = f"[a async for a in {src}]"
    elif r < 0.1:
        src = f"Select({src}, lambda q: (y for [y] in q))"
    return src


# ---- constructor cases -------------------------------------------------------------------------------------
def make_classes(rng):
    out = []
    for kind in ("dataclass", "namedtuple"):
        n = rng.choice([1, 2, 3, 4])
        names = rng.sample(["x", "y", "z", "pt", "eta", "name", "n"], n)
        ndef = rng.randint(0, n)
        fields = [(nm, i >= n - ndef) for i, nm in enumerate(names)]
        if kind == "dataclass":
            spec = [(nm, int, dataclasses.field(default=7)) if d else (nm, int) for nm, d in fields]
            odd = rng.random()
            if odd < 0.25:
                # a derived field that is not a constructor parameter, declared in the middle
                spec.insert(rng.randint(0, len(spec)), ("derived_", int, dataclasses.field(default=0, init=False)))
            elif odd < 0.4 and len(spec) >= 2:
                # a keyword-only field declared first: positional arguments skip it
                nm0 = spec[0][0]
                spec[0] = (nm0, int, dataclasses.field(default=7, kw_only=True))
            cls = dataclasses.make_dataclass("DC" + "".join(names), spec)
            import inspect

            names = [p.name for p in inspect.signature(cls).parameters.values()]
        else:
            ns = {"__annotations__": {nm: int for nm, _ in fields}}
            for nm, d in fields:
                if d:
                    ns[nm] = 7
            cls = type("NT" + "".join(names), (NamedTuple,), ns) if False else NamedTuple("NT" + "".join(names), [(nm, int) for nm, _ in fields])
            if ndef:
                cls.__new__.__defaults__ = (7,) * ndef
                cls._field_defaults = {nm: 7 for nm, d in fields if d}
        out.append((cls, names))
    return out


def check_ctor_cases(ctx, n):
    from func_adl.ast.syntatic_sugar import resolve_syntatic_sugar

    rng = ctx.rng
    reqs, keep = [], []
    for _ in range(n):
        cls, names = rng.choice(make_classes(rng))
        k = len(names)
        r = rng.random()
        npos = rng.randint(0, k)
        kw_names = [nm for nm in names[npos:] if rng.random() < 0.6]
        rng.shuffle(kw_names)
        shape = "accepted"
        if r < 0.12:
            kw_names.append(rng.choice(["bogus", "X", names[0] + "_"]))
            shape = "unknown-keyword"
        elif r < 0.22:
            npos = k + rng.choice([1, 2]) - len(kw_names) if rng.random() < 0.5 else k + 1
            npos = max(npos, 0)
            shape = "surplus"
        vals = {}
        counter = [100]

        def fresh():
            counter[0] += 1
            vals[f"v{counter[0]}"] = counter[0]
            return ast.Name(f"v{counter[0]}", ast.Load())

        call = ast.Call(func=ast.Constant(value=cls), args=[fresh() for _ in range(npos)],
                        keywords=[ast.keyword(arg=nm, value=fresh()) for nm in kw_names])
        if shape == "surplus" and len(call.args) + len(call.keywords) <= k:
            shape = "accepted" if all(nm in names for nm in kw_names) else "unknown-keyword"
        wrapped = rng.choice(["plain", "lambda", "nested"])
        if wrapped == "plain":
            node = call
        elif wrapped == "lambda":
            node = ast.Call(ast.Name("Select", ast.Load()), [ast.Name("ds", ast.Load()),
                            ast.Lambda(args=ast.arguments(posonlyargs=[], args=[ast.arg("e")], kwonlyargs=[], kw_defaults=[], defaults=[]), body=call)], [])
        else:
            node = ast.Tuple(elts=[call, ast.Attribute(value=copy.deepcopy(call), attr=names[0], ctx=ast.Load())], ctx=ast.Load())
        desc = {"class": cls.__name__, "fields": names, "positional": npos, "keywords": kw_names, "shape": shape, "wrapped": wrapped}
        ctx.count(repr(desc), True, sample=desc, tags=["ctor-" + shape, "ctor-" + ("dataclass" if dataclasses.is_dataclass(cls) else "namedtuple")])
        try:
            out = resolve_syntatic_sugar(copy.deepcopy(node))
            got = ("ok", enc(out))
        except Exception as e:
            out = None
            got = ("err", impl.classify_exc(e))
        # what Python's constructor does
        try:
            obj = cls(*[vals[a.id] for a in call.args], **{kw.arg: vals[kw.value.id] for kw in call.keywords})
            py = "ok"
        except TypeError:
            obj, py = None, "TypeError"
        import inspect as _inspect

        try:
            n_positional = sum(1 for p_ in _inspect.signature(cls).parameters.values() if p_.kind != p_.KEYWORD_ONLY)
        except (TypeError, ValueError):
            n_positional = k
        if py == "TypeError":
            supplied_all = len(call.args) + len(call.keywords)
            # more positional arguments than parameters that can be bound by position (the others are keyword-only) is a
            # surplus argument like any other
            missing_only = supplied_all <= k and all(nm in names for nm in kw_names) and len(call.args) <= n_positional
            if len(call.args) > n_positional:
                ctx.dist["ctor: positional argument for a keyword-only field"] += 1
            if not missing_only and got != ("err", "ValueError"):
                ctx.violate({**desc, "got": got[1][:200]}, "call that Python's constructor rejects (unknown / surplus argument) was not refused with ValueError")
        else:
            if got[0] != "ok":
                ctx.violate({**desc, "got": got[1]}, "call accepted by Python's constructor was refused")
            else:
                dicts = [n_ for n_ in ast.walk(out) if isinstance(n_, ast.Dict)]
                if not dicts or any(isinstance(n_, ast.Call) and isinstance(n_.func, ast.Constant) for n_ in ast.walk(out)):
                    ctx.violate({**desc, "out": ast.unparse(out)[:200]}, "constructor call was not lowered to a dictionary")
                else:
                    d = dicts[0]
                    try:
                        keys = [ast.literal_eval(k_) for k_ in d.keys]
                        values = [vals[v_.id] for v_ in d.values]
                    except Exception:
                        keys, values = None, None
                    supplied = names[:npos] + [nm for nm in names[npos:] if nm in kw_names]
                    want = {nm: getattr(obj, nm) for nm in supplied}
                    if keys is None or dict(zip(keys, values)) != want or keys != supplied:
                        ctx.violate({**desc, "lowered": ast.unparse(d), "python_binding": repr(want)},
                                    "dictionary keys/values differ from how Python's constructor binds the arguments")
        # the class table lists the constructor parameters as Python renders a signature: "*" where the keyword-only ones begin
        marked = list(names[:n_positional]) + (["*"] if n_positional < len(names) else []) + list(names[n_positional:])
        table = f"(({q(const_tag(cls))} (" + " ".join(q(nm) for nm in marked) + ")))"
        reqs.append(("sugar", [table, enc(node)]))
        keep.append((desc, got))
    res = ctx.driver.batch(reqs)
    for (desc, got), (st, payload) in zip(keep, res):
        if (st, payload) != got:
            ctx.disagree("resolveSugar/convertCallToDict", desc, got, (st, payload))


FIXED = ["[j.pt for j in ds]", "[j for j in ds if j.met > 1 if j.run < 5]", "(e.met + 1 for e in ds if e.met)",
         "[[t.pt for t in j.trks if t.q] for j in First(ds).jets if [v for v in j.vals if v > 0]]",
         "Select(ds, lambda e: [e.met + j.pt for j in e.jets])", "[e for e in [e for e in ds]]",
         "Select(ds, lambda e: [e.pt for e in e.jets if e.pt > 0])", "[x for x in ds][0]"]


def run(ctx):
    check_comp_cases(ctx, FIXED)
    n = ctx.n(700, 25000)
    done = 0
    while done < n:
        srcs = [gen_comp_src(ctx.rng) for _ in range(min(1500, n - done))]
        check_comp_cases(ctx, srcs)
        done += len(srcs)
    check_ctor_cases(ctx, ctx.n(400, 8000))
    # comprehensions in lambdas given as python callables, loop variables spelled like captured names: CPython on the
    # original lambda vs the recorded (capture-rewritten) lambda, and the Lean parseCallable correspondence
    capture.run_cases(ctx, ctx.n(120, 3000), ID)


def replay(ctx, case):
    src = case.get("src") or case.get("case", {}).get("src")
    if src:
        check_comp_cases(ctx, [src])
    else:
        check_ctor_cases(ctx, 400)
