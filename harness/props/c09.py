"""C09 — see typed.py (shared machinery for C07 / C08 / C09)."""
from __future__ import annotations

import typed

ID = "C09"
THEOREMS = ["follow_writer", "follow_appends", "follow_effects_appended", "follow_error_independent", "followL_appends", "no_callback_no_effect", "callback_effect", "class_before_method"]
LEANCHECKER_MODULES = ["Fadl.Props.C09Writer", "Fadl.Props.C09"]  # re-checked by leanchecker in the thorough tier
RULE = (
    "generated class models (gen/classes.py: Trk, Cal, Jet, Vec[T](Iterable[T]), JVec(Vec[Jet]), Evt, an optional registered "
    "collection class, two registered functions; 0-4 parameters per method with a random suffix of defaults of int/float/"
    "str/bool type; class-level, method-level, function and parameterized-property callbacks placed at random, class-level callbacks also on the generic bases Vec / Grouped and their subclasses JVec / ListGroups so that inherited methods and inherited callbacks both occur) and "
    "lambdas over them: every positional/keyword split Python accepts, collection-operator lambdas passed positionally or by keyword (f=, filter=), shuffled keyword order, missing required "
    "parameters, calls at every nesting depth through Select/Where/SelectMany/First/Count on collections and through "
    "dictionary fields, lambda parameter names re-used across nesting levels, method names shared between classes; "
    "non-trivial = every case; distinct = distinct (class model, operator, lambda source)"
)
EXPLANATION = (
    "Main theorem follow_writer (Props/C09Writer.lean; induction over the fuel through all five mutually recursive functions of "
    "the follower model: follow, followL, methodCall, candLoop, onStreamObj): the follower is a WRITER - for every class model, "
    "scope and expression, following from a stream state with MetaData list dm ++ m and callback log dl ++ l gives exactly the "
    "result of following from (m, l) with dm / dl put in front (same rewritten expression, same type, same failure). Hence "
    "follow_appends / follow_effects_appended: what an expression contributes (MetaData dictionaries, log entries, in order) is a "
    "function of the expression alone and is appended to whatever earlier call sites attached - nothing is dropped, duplicated or "
    "reordered, also through nested collection lambdas (where the model restarts the MetaData list and re-attaches it) and through "
    "the receiver being re-visited for its type; follow_error_independent: a refusal does not depend on earlier effects; "
    "followL_appends: arguments contribute left to right. Local laws: callback_effect (one log entry, MetaData appended, returned "
    "call site passed on), class_before_method, no_callback_no_effect. Correspondence: as C07 (callback log and MetaData list are "
    "part of the compared observation). Oracle: real callbacks that log (tag, call-site text) and attach tagged MetaData; the "
    "generator predicts the exact log (post-order of typed call sites: receiver, arguments, then the site itself, class-level "
    "before method-level, class-level callbacks inherited along the class chain; nothing for absent sites), the MetaData chain on "
    "args[0] of the resulting query upstream of the operator, and the rewritten call sites. PARTIAL: the list of sites itself is "
    "predicted by the generator, not derived from a declarative relation in Lean."
)
ASSUMPTIONS = ['callbacks are described by what they do (attach MetaData, rename, append an argument)']


def run(ctx):
    typed.run_cases(ctx, ctx.n(30, 200), 60, ID)


def replay(ctx, case):
    typed.run_cases(ctx, 6, 60, ID)
