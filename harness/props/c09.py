"""C09 — see typed.py (shared machinery for C07 / C08 / C09)."""
from __future__ import annotations

import typed

ID = "C09"
THEOREMS = ["extract_streamOpQuery", "extractMD_wrapMd", "follow_spec", "streamOp_spec_ok", "follow_effSound", "follow_effects_are_declared", "streamOp_effects_are_declared", "methodEff_order", "cbEff_log", "cbEff_md", "follow_writer", "follow_appends", "follow_effects_appended", "follow_error_independent", "followL_appends", "no_callback_no_effect", "callback_effect", "class_before_method"]
LEANCHECKER_MODULES = ["Fadl.Props.C09Placement", "Fadl.Props.FollowSpec", "Fadl.Props.C09Sound", "Fadl.Props.C09Writer", "Fadl.Props.C09"]  # re-checked by leanchecker in the thorough tier
RULE = (
    "generated class models (gen/classes.py: Trk, Cal, Jet, Vec[T](Iterable[T]), JVec(Vec[Jet]), Evt, an optional registered "
    "collection class, two registered functions; 0-4 parameters per method with a random suffix of defaults of int/float/"
    "str/bool type; class-level, method-level, function and parameterized-property callbacks placed at random, class-level callbacks also on the generic bases Vec / Grouped and their subclasses JVec / ListGroups so that inherited methods and inherited callbacks both occur) and "
    "lambdas over them: every positional/keyword split Python accepts, collection-operator lambdas passed positionally or by keyword (f=, filter=), shuffled keyword order, missing required "
    "parameters, calls at every nesting depth through Select/Where/SelectMany/First/Count on collections and through "
    "dictionary fields, lambda parameter names re-used across nesting levels, method names shared between classes; "
    "non-trivial = every case; distinct = distinct (class model, operator, lambda source)"
)
EXPLANATION = (
    "Main theorem follow_effSound (Props/C09Sound.lean; induction over the fuel through all five mutually recursive functions of "
    "the follower model, using the C08 soundness theorem for receiver types): for EVERY class model, environment, stream state and "
    "expression, whenever the follower accepts the expression, the MetaData list and the callback log it returns are the ones it "
    "started from followed by effOf of the expression THE USER WROTE. effOf (Model/EffectSpec.lean) is the specification: from the "
    "declarations (which classes, methods, functions and parameterized properties carry a callback; tag and MetaData of each) it "
    "lists the callback sites of an expression in visiting order - callee expression, positional arguments, keyword values, then "
    "the call itself: for a method call the sites inside the lambda of a collection operator, then the class-level callback of "
    "the deciding candidate's class (its own or the nearest inherited one), then the method-level callback (methodEff_order); a "
    "registered function's callback; a parameterized property's callback; the body of an immediately called lambda; a lambda that "
    "is neither called nor a collection operator's argument contributes nothing. So every declared site fires exactly once, in "
    "that order, class-level before method-level, its MetaData is attached (cbEff_md), and nothing else fires. Corollaries: "
    "follow_effects_are_declared, streamOp_effects_are_declared (the effects Select / SelectMany / Where record = streamOpEff). "
    "Placement (Props/C09Placement.lean, Model/StreamQuery.lean): extract_streamOpQuery - the query the operator returns is the operator applied to the source wrapped in one MetaData call per attached dictionary (later ones outside) and to the elaborated lambda, and extract_metadata (the function backends call, C15) finds exactly those dictionaries first, last attached first, then what the source carried, then what sits inside the lambda; the whole query AST of the returned stream is compared with streamOpQuery on every accepted generated lambda (unit streamOpQuery). Direction proved: follower accepts => effects are the declared ones (a refused lambda records nothing: the operator raises). "
    "The specification is also executed against the implementation: for every generated lambda the implementation accepts, the "
    "MetaData chain on the source and the list of callbacks that fired must equal streamOpEff on the lambda as written (unit "
    "streamOpEff(spec); counted as spec:callback-sites-compared / -nonempty in the distribution). "
    "Writer theorem follow_writer (Props/C09Writer.lean): following from a state with prefixes dm / dl gives the result of "
    "following without them with dm / dl in front (same expression, type, failure); follow_appends, follow_effects_appended, "
    "follow_error_independent, followL_appends. Local laws: callback_effect, class_before_method, no_callback_no_effect. "
    "Correspondence: as C07 (callback log and MetaData list are part of the compared observation). Oracle: real callbacks that log "
    "(tag, call-site text) and attach tagged MetaData; the generator predicts the exact log, the MetaData chain on args[0] of the "
    "resulting query upstream of the operator, and the rewritten call sites. Not modelled: what an arbitrary callback body does "
    "beyond attaching MetaData, renaming and appending an argument (CbSpec)."
)
ASSUMPTIONS = ['callbacks are described by what they do (attach MetaData, rename, append an argument)']


def run(ctx):
    import interp_types_probe

    interp_types_probe.run(ctx, "C09")
    typed.run_cases(ctx, ctx.n(30, 200), 60, ID)


def replay(ctx, case):
    typed.run_cases(ctx, 6, 60, ID)
