"""C04 — captured variables are frozen by value at the call, respecting scope."""
from __future__ import annotations

import capture

ID = "C04"
THEOREMS = ["rewriteCaptured_attrs_preserves", "rewriteCaptured_attrs_lambda", "rewriteCaptured_object", "rewriteCaptured_attr_sem_both",
            "rewriteCaptured_preserves", "rewriteCaptured_lambda", "rewriteCaptured_sem_both", "rewrite_depends_on_free_names", "bound_names_untouched", "frozen", "nontransportable_refused", "hrun_queries_prefix"]
LEANCHECKER_MODULES = ["Fadl.Props.C04Attr", "Fadl.Props.C04Sem", "Fadl.Props.C04"]  # re-checked by leanchecker in the thorough tier
RULE = (
    "generated modules (harness/capture.py) whose lambdas mention closure cells, module globals, nested class "
    "constants, module attributes, enum members, data classes and one-line helpers, with binder names (lambda "
    "parameters at every nesting level, comprehension targets) drawn so as to collide with the captured names; class constants inherited from a base class "
    "(Tight.threshold, Tighter.Inner.deep); parameters of an enclosing lambda used as bare names inside nested lambdas "
    "(call argument, tuple / list element) where the module has a global of the same name; comprehensions whose loop "
    "variable is spelled like a captured name that its iterable mentions; "
    "after the operator call a generated history rebinds / deletes the captured names; non-trivial = body mentions "
    "a captured name or helper; distinct = distinct lambda body"
)
EXPLANATION = (
    "Semantic theorem rewriteCaptured_preserves / rewriteCaptured_lambda (Props/C04Sem.lean; induction over the expression "
    "with the transfer principle of Lemmas/Agree.lean): for a snapshot of plain values and helpers left by name, in every "
    "world and every environment that binds the captured names - where no parameter or comprehension variable hides them - "
    "to the values of the snapshot, the rewritten lambda body evaluates (deferred execution) exactly like the original; so "
    "the recorded lambda computes what the Python lambda computes with the values its free variables had at the call. "
    "Class constants, nested classes, module attributes and captured objects are inside the theorem since Props/C04Attr.lean: "
    "rewriteCaptured_attrs_preserves / rewriteCaptured_attrs_lambda / rewriteCaptured_object (induction rewriteCaptured_attr_sem_both) - "
    "the snapshot may hold classes, modules and other objects (opaque constants), the attribute table says what getattr(object, name) "
    "gave at the call; with every captured name bound (where not hidden) to what the snapshot stands for and the table consistent "
    "with those objects (TableOK: getAttr (objs t) a is the value of the table's entry), a rewritten expression that holds no object "
    "constant any more evaluates exactly like the original, and wherever the rewriting yields the object constant itself the original "
    "evaluates to that object - so Cfg.threshold, Cfg.Inner.deep, module.attr folded to literals mean what Python's attribute access "
    "meant when the operator was called. Domain (ObjSnapshot, ConstTable: no inlined helper, no Enum namespace prefix) evaluated on "
    "every generated case (distribution 'C04Attr domain'). PARTIAL: data-class constructors (ctors) and helpers inserted as "
    "lambdas (C05's theorem) are outside this theorem. "
    "Theorems: rewrite_depends_on_free_names / bound_names_untouched (the recorded lambda depends on the scope only "
    "through names FREE in the lambda: parameters at any nesting level and comprehension variables are never "
    "replaced), frozen (over histories of bind/del/call: the lambda recorded by a call is computed from the scope "
    "at that call and never changes afterwards), nontransportable_refused. Correspondence: parse_as_ast's "
    "capture rewriting + called-lambda inlining vs the compiled Lean parseCallable, with the snapshot read from "
    "the real closure. Oracle: the original Python lambda executed by CPython on generated events vs the recorded "
    "lambda, at call time and again after the rebinding history; ast.dump of the stored query before/after. "
    "PARTIAL: that the snapshot equals what inspect.getclosurevars + __globals__ return is CPython behaviour."
)
ASSUMPTIONS = ["inspect.getclosurevars / __globals__ / inspect source lookup are CPython behaviour (exercised, not modelled)"]


def run(ctx):
    capture.run_cases(ctx, ctx.n(250, 6000), ID)
    capture.run_same_callable_twice(ctx, ctx.n(6, 60))
    capture.container_capture_oracle(ctx)


def replay(ctx, case):
    capture.run_cases(ctx, 250, ID)
