"""C14 — intermediate tuples and dictionaries are compiled away."""
from __future__ import annotations

import simplify

ID = "C14"
THEOREMS = ["simplify_pack_chain_eliminated", "typed_normal_form_constructions", "typed_nf_packed", "stage_src_opq", "simplify_normal_form", "simp_nf", "simplify_output_wf", "proj_of_tuple", "proj_of_list", "proj_of_dict_key", "proj_of_dict_attr", "name_substituted", "rule_tuple_index", "rule_list_index"]
LEANCHECKER_MODULES = ["Fadl.Props.C14Shape", "Fadl.Props.C14Normal", "Fadl.Props.C18Total", "Fadl.Props.C14", "Fadl.Props.C02Rules"]  # re-checked by leanchecker in the thorough tier
RULE = (
    "generated pack chains (harness/simplify.py: gen_packchain): 2-5 Select/Where/SelectMany stages over ds in function "
    "form; every intermediate stage packages leaf expressions into a random nesting (depth <= 2) of tuples, lists and "
    "dictionaries, or into the First(...) of a nested Select that builds such packs, every later stage takes them apart with constant indices / keys / attribute names only; SelectMany "
    "stages whose lambda contains a nested Select referring to other packaged fields; binder names all-distinct, "
    "all-identical or random; the last stage returns a plain value (then nothing may survive) or a pack (allowed only "
    "as the final result); non-trivial = every chain; distinct = source text"
)
EXPLANATION = ("Main theorem simplify_normal_form (Props/C14Normal.lean, from simp_nf: induction over the fuel and every clause of the visitor and of call_Select / call_SelectMany / call_Where, on top of the well-formedness invariant of C18): whatever the visitor model returns for a well-formed query is a normal form (nf, Model/WfQuery.lean) - no constant projection is left sitting on a tuple / list literal (non-negative index), on a dictionary literal that defines the key (subscript or attribute) or on a First(...); no Select / SelectMany / Where call is left on a source it fuses with. So wherever a later stage's projection meets the literal an earlier stage built neither survives, and stages never stay separate - for every chain, nesting and choice of binder names. Typing argument, now formal (Props/C14Shape.lean): typed_nf_packed / typed_normal_form_constructions - a query that obeys the pack-chain discipline (shapeOf, Model/Shape.lean: packs are built by literals only and taken apart by constant selectors only; operators, calls and attributes of objects handle pack-free values; the source of a stage is another stage or pack-free) and is in normal form holds tuple / list / dictionary constructions in RESULT position only (resOK), and none at all when its shape is pack-free (noLit): a projection with a pack-shaped base would have a literal base (a redex) or a First base (pushed inside), both excluded by nf, and the source of a stage in normal form is pack-free (stage_src_opq). With simplify_normal_form: simplify_pack_chain_eliminated. What stays unproved is subject reduction (that the OUTPUT of a pack chain obeys the discipline); it is evaluated on the real simplifier's output for every generated pack chain (driver op shape; distribution 'shape of the real output'), and where it holds the conclusion is demanded of the real output. PARTIAL (superseded by the above where the output obeys the discipline): that in a pack chain every projection does meet its literal (so that no construction remains at all) is a typing argument that is not formalised; it is checked per run by the node-kind oracle. The conclusion of the theorem is evaluated on the output of the REAL simplifier for every generated well-formed query (driver op nf). One-step rules: proj_of_tuple, proj_of_list, proj_of_dict_key, proj_of_dict_attr, name_substituted. Correspondence: as C02, on generated pack chains. Oracle: node kinds of the real output: no Tuple/List/Dict node and no constant projection may remain unless it is part of the final stage's result.")


def deep_nest(rng, levels: int) -> str:
    """`levels` pack / unpack stage pairs nested inside each other: the consumer's lambda holds the next pair, which works
    on one packaged field and mentions the other (seed C14-w6-2: a depth limit on the inlining of called lambdas)"""
    def pack(k, a, b):
        kind = rng.choice(["tup", "tup", "list", "dict"])
        if kind == "tup":
            return f"({a}, {b})", f"p{k}[0]", f"p{k}[1]"
        if kind == "list":
            return f"[{a}, {b}]", f"p{k}[0]", f"p{k}[1]"
        return f"{{'o': {a}, 'c': {b}}}", rng.choice([f"p{k}.o", f"p{k}['o']"]), rng.choice([f"p{k}.c", f"p{k}['c']"])

    def nest(k, src, acc):
        lit, fst, snd = pack(k, f"x{k}", acc)
        body = nest(k - 1, fst, f"{snd} + {fst}.run") if k > 1 else f"{fst}.run + {snd}"
        return f"Select(Select({src}.jets, lambda x{k}: {lit}), lambda p{k}: {body})"

    return f"Select(ds, lambda e: {nest(levels, 'e', 'e.met')})"


def run(ctx):
    n = ctx.n(700, 30000)
    deep = [deep_nest(ctx.rng, ctx.rng.choice([6, 9, 13, 17, 18, 21, 26, 33])) for _ in range(ctx.n(6, 60))]
    ctx.dist["deeply nested pack/unpack pairs (6-33 levels)"] += len(deep)
    simplify.check_queries(ctx, deep, "c14-deep", pack_check=simplify.pack_check_factory(False))
    for _ in range(0, n, 100):
        for final in (False, True):
            srcs = []
            tries = 0
            while len(srcs) < 50 and tries < 1000:
                tries += 1
                src, fp = simplify.gen_packchain(ctx.rng)
                if fp == final:
                    srcs.append(src)
            simplify.check_queries(ctx, srcs, "c14-final-pack" if final else "c14", pack_check=simplify.pack_check_factory(final))


def replay(ctx, case):
    src = case.get("src") or case.get("case", {}).get("src")
    simplify.check_queries(ctx, [src], "replay", pack_check=simplify.pack_check_factory(False))
