"""C14 — intermediate tuples and dictionaries are compiled away."""
from __future__ import annotations

import simplify

ID = "C14"
THEOREMS = ["proj_of_tuple", "proj_of_list", "proj_of_dict_key", "proj_of_dict_attr", "name_substituted", "rule_tuple_index", "rule_list_index"]
RULE = (
    "generated pack chains (harness/simplify.py: gen_packchain): 2-5 Select/Where/SelectMany stages over ds in function "
    "form; every intermediate stage packages leaf expressions into a random nesting (depth <= 2) of tuples, lists and "
    "dictionaries, or into the First(...) of a nested Select that builds such packs, every later stage takes them apart with constant indices / keys / attribute names only; SelectMany "
    "stages whose lambda contains a nested Select referring to other packaged fields; binder names all-distinct, "
    "all-identical or random; the last stage returns a plain value (then nothing may survive) or a pack (allowed only "
    "as the final result); non-trivial = every chain; distinct = source text"
)
EXPLANATION = ("Theorems so far (first layer): the projection-of-literal steps (a constant index / key / attribute applied to a simplified tuple, list or dictionary literal returns the component, so neither the construction nor the projection survives) and substitution of stacked names. The shape theorem for whole pack chains is in progress. Correspondence: as C02, on generated pack chains. Oracle: node kinds of the real output: no Tuple/List/Dict node and no constant projection may remain unless it is part of the final stage's result.")


def run(ctx):
    n = ctx.n(700, 30000)
    for _ in range(0, n, 100):
        for final in (False, True):
            srcs = []
            tries = 0
            while len(srcs) < 50 and tries < 1000:
                tries += 1
                src, fp = simplify.gen_packchain(ctx.rng)
                if fp == final:
                    srcs.append(src)
            simplify.check_queries(ctx, srcs, "c14-final-pack" if final else "c14", pack_check=simplify.pack_check_factory(final))


def replay(ctx, case):
    src = case.get("src") or case.get("case", {}).get("src")
    simplify.check_queries(ctx, [src], "replay", pack_check=simplify.pack_check_factory(False))
