"""C01 — a fluent query means what the user's Python chain computes (end to end)."""
from __future__ import annotations

import ast
import copy
import dataclasses
import logging

import impl
import pyworld
import srcmod
from astcodec import Unsupported, dec_text, enc
from common import rich_dataset
from gen.data import gen_dataset, val_sexpr
from gen.program import gen_program
from simplify import alpha

ID = "C01"
THEOREMS = ["chain_text_backend", "frontText_stepImp", "runChain_imp", "chain_backend", "backend_preserves", "den_to_denLz", "chain_den", "chain_built", "backend_front_preserves", "chain_backend_front_partial"]
LEANCHECKER_MODULES = ["Fadl.Props.C01Front", "Fadl.Props.C01Full", "Fadl.Lemmas.StrictLazy", "Fadl.Props.C01"]  # re-checked by leanchecker in the thorough tier
RULE = (
    "generated programs (gen/program.py): trees of 1-6 Select/Where/SelectMany calls with branching from shared parents "
    "and inner streams also asked for their value; lambdas as Python callables in a generated module file (captured module "
    "integers, helper def / helper lambda inlined, data-class and NamedTuple constructors positional and keyword), as source "
    "strings and as ASTs (Module and bare Lambda); bodies from the sort-directed generator (attributes, method calls with "
    "positional and keyword arguments, arithmetic, chained comparisons, and/or/not, conditionals, tuples, lists, records, "
    "constant projections, nested Select/Where/SelectMany/First/Count/Sum/Max/Min/len, single-for comprehensions and "
    "generator expressions with conditions, immediately called lambdas with keyword arguments, binder-name reuse); untyped "
    "EventDataset and typed EventDataset[Event] whose methods carry defaults (some non-zero) that the library must fill; "
    "optional As* terminal; two datasets per program (one without empty collections, one random incl. empty); non-trivial = "
    ">= 2 operator calls or a nested operator; distinct = module text"
)
EXPLANATION = (
    "Front to back for lambdas given as text / AST on an untyped dataset (Props/C01Front.lean): chain_text_backend - whatever the chain of WRITTEN lambdas (comprehensions and generator expressions with Python's own semantics) computes when Python runs it on the in-memory sequence, the AST the library builds from what its front end emits for each lambda (resolve_syntatic_sugar, then the type follower), after the three backend passes, computes under deferred execution; composition of sugar_preserves (C06), streamOp_untyped_identity (C10), runChain_imp and chain_backend; FrontText has a worked instance. Theorems: chain_backend (end to end: for every chain, lambda bodies, world and dataset, if the chain run on the "
    "in-memory sequence gives `out`, then the AST built for the chain, after all three backend passes - toCalls, aggT, "
    "checked simplifier - evaluates under deferred execution to `out`), from chain_den (the AST denotes the chain), "
    "chain_built (the stream machinery builds exactly that AST; heap model of C11/C12), backend_front_preserves, "
    "den_to_denLz (whenever the eager reading gives a value the deferred reading gives the same, complete, value) and "
    "C02's simplifyCk_preserves. The simplifier pass is the checked model simpCk (see C02). Per run: every generated program is executed "
    "twice - on func_adl streams (the AST handed to the executor by value()) and directly by CPython on in-memory "
    "sequences; whenever the direct run succeeds, the received AST and the AST after the real backend passes must evaluate "
    "to the same value under the Lean reference semantics (compiled `ev`) and under CPython evaluation of the AST. "
    "Correspondence: Lean `backend` (toCalls, aggT, simplify composed) on the received AST vs the real passes, modulo "
    "alpha. This run is also what validates the reference semantics itself against CPython (trusted-base item T4)."
)
ASSUMPTIONS = ["records of the data are objects with integer and sequence fields (gen/data.py); floats, strings as data and "
               "user-defined operators are not generated"]

logging.getLogger("func_adl").setLevel(logging.ERROR)
logging.getLogger().setLevel(logging.ERROR)

TERMINALS = {"AsAwkwardArray": "ResultAwkwardArray", "AsPandasDF": "ResultPandasDF", "AsROOTTTree": "ResultTTree",
             "AsParquetFiles": "ResultParquet"}


# fixed programs run first on every run: (module text, typed, key of the known finding it demonstrates or None)
PROBES = [
    ("helper_lam = lambda a: a * 2 + 5\n\nCAP = 3\n\ndef build(ds, L, A):\n    s1 = ds.Select(lambda e: helper_lam(e.met) + CAP)\n    return [s1]\n",
     False, "C01-helper-lambda-variable-not-inlined"),
    # helper parameters spelled like the names its later arguments mention: the arguments are bound in parallel
    ("def helper2(a, b): return a - b * 3\n\ndef ratio(x, y): return x * 10 - y\n\ndef build(ds, L, A):\n"
     "    s1 = ds.Select(lambda a: helper2(2, a.met))\n    s2 = ds.Select(lambda x: ratio(7, x.run) + ratio(x.met, 1))\n"
     "    s3 = s1.Select(lambda b: helper2(b + 1, b)).Where(lambda a: helper2(0, a) < 5)\n"
     "    s4 = ds.Select(lambda e: e.jets.Select(lambda y: ratio(y.pt, e.met)).Count() + helper2(b=e.met, a=e.run))\n"
     "    return [s1, s2, s3, s4]\n", False, None),
    # helpers with several defaulted parameters, called with none / some / all of them (seed C01-w6-1)
    ("def window(v, lo=10, hi=100): return v * 3 - lo * 7 + hi\n\ndef shift(x, scale=2, offset=1000, k=5): return x * scale + offset - k\n\n"
     "def build(ds, L, A):\n"
     "    s1 = ds.Select(lambda e: window(e.met, 20))\n    s2 = ds.Select(lambda e: window(e.met) + window(e.run, 1, 2))\n"
     "    s3 = ds.Select(lambda e: shift(e.met, 3) - shift(e.run, 3, 4))\n"
     "    s4 = ds.Where(lambda e: window(e.met, 20) > shift(e.run, 1, 50)).Select(lambda e: shift(e.met, 7, 8))\n"
     "    return [s1, s2, s3, s4]\n", False, None),
]


def plain(v):
    "direct-run result -> plain data"
    import c01world

    v = c01world.untyped(v)
    if dataclasses.is_dataclass(v) and not isinstance(v, type):
        return {f.name: plain(getattr(v, f.name)) for f in dataclasses.fields(v)}
    if hasattr(v, "_asdict"):
        return {k: plain(x) for k, x in v._asdict().items()}
    if isinstance(v, pyworld.Rec):
        return pyworld.from_world(v)
    if isinstance(v, bool):
        return v
    if isinstance(v, int):
        return int(v)
    if isinstance(v, (list, pyworld.Seq)):
        return [plain(x) for x in v]
    if isinstance(v, tuple):
        return tuple(plain(x) for x in v)
    if isinstance(v, dict):
        return {plain(k): plain(x) for k, x in v.items()}
    import types

    if isinstance(v, types.GeneratorType):
        return [plain(x) for x in v]
    return v


class _Canon(ast.NodeTransformer):
    """typed method calls: positional arguments -> the keywords Python binds them to (a0, a1, k in signature order), and
    parameters that the call site leaves out -> the method's declared default.  The second part is what Python itself
    does when the chain runs on the in-memory objects (the defaults belong to the object's class, which is known at
    run time even where the library could not know it statically, e.g. behind `[v.jets(), 30][0]`); that the library
    fills them in wherever it does know the type is C07's claim and C07's check."""

    def visit_Call(self, node):
        from c01world import INT_DEFAULTS, INT_METHODS, PARAMS

        self.generic_visit(node)
        names = {f for fs in INT_METHODS.values() for f in fs}
        if isinstance(node.func, ast.Attribute) and node.func.attr in names \
                and len(node.args) <= len(PARAMS) and not any(isinstance(a, ast.Starred) for a in node.args):
            kws = {k.arg: k.value for k in node.keywords}
            if any(k is None or k not in PARAMS for k in kws):
                return node
            for p, a in zip(PARAMS, node.args):
                if p in kws:
                    return node
                kws[p] = a
            dflt = next((d for (c, f), d in INT_DEFAULTS.items() if f == node.func.attr), (0, 0, 0))
            for p, d in zip(PARAMS, dflt):
                kws.setdefault(p, ast.Constant(value=d))
            return ast.Call(func=node.func, args=[], keywords=[ast.keyword(arg=p, value=kws[p]) for p in PARAMS])
        return node


def canon_typed(a):
    return ast.fix_missing_locations(_Canon().visit(copy.deepcopy(a)))


def direct_module(text: str):
    "the same module for the direct run: list displays / comprehensions build Seq, dict displays attribute-readable dicts"
    tree = pyworld._SeqLiterals().visit(ast.parse(text))
    import sys
    import types

    m = types.ModuleType("c01_direct")
    m.__dict__.update({"_Seq": pyworld.Seq, "_AttrDict": pyworld.AttrDict})
    sys.modules["c01_direct"] = m  # dataclasses looks the module up while the class is being built
    try:
        exec(compile(ast.fix_missing_locations(tree), "<c01-direct>", "exec"), m.__dict__)
    finally:
        sys.modules.pop("c01_direct", None)
    return m.__dict__


def backend_passes(a):
    import func_adl.ast.function_simplifier as fs
    from func_adl.ast import aggregate_node_transformer, change_extension_functions_to_calls, simplify_chained_calls

    fs.argument_var_counter = 0
    a1 = change_extension_functions_to_calls(copy.deepcopy(a))
    a2 = aggregate_node_transformer().visit(a1)
    return simplify_chained_calls().visit(a2)


def check_program(ctx, text, typed, meta, reqs, keep, DS, TDS, received, key):
    import c01world

    rng = ctx.rng
    nontrivial = meta["n_ops"] >= 2 or any(f in meta["features"] for f in ("Select", "Where", "SelectMany", "comprehension"))
    ctx.count(text, nontrivial, sample={"module": text}, tags=meta["features"] + ["typed" if typed else "untyped", f"ops-{meta['n_ops']}"])
    # ---- direct run
    worlds = [rich_dataset(rng), gen_dataset(rng)]
    try:
        ns = direct_module(text)
    except SyntaxError:
        ctx.skip("module-syntax")
        return
    g = ns

    def L_direct(t, g=g):
        tree = pyworld._SeqLiterals().visit(ast.parse(t.strip(), mode="eval"))
        return eval(compile(ast.fix_missing_locations(tree), "<lambda-text>", "eval"), g)

    wants = []
    for wd in worlds:
        w = pyworld.to_world(wd)
        try:
            res = ns["build"](c01world.typed_world(w) if typed else w, L_direct, L_direct)
            wants.append([plain(r) for r in res])
        except Exception as e:
            wants.append(None)
            ctx.dist["direct-raised-" + type(e).__name__] += 1
    if all(w is None for w in wants):
        ctx.skip("direct-run-raised-on-both-datasets")
        return
    # ---- func_adl run
    try:
        mod = srcmod.make_module(text, "c01")
    except SyntaxError:
        ctx.skip("module-syntax")
        return
    try:
        as_ast = rng.choice(["module", "lambda"])

        def A(t):
            m = ast.parse(t)
            return m if as_ast == "module" else m.body[0].value

        try:
            leaves = mod.build(TDS() if typed else DS(), lambda t: t, A)
        except Exception as e:
            ctx.skip("library-raised-" + impl.classify_exc(e).split(":")[0])
            ctx.dist["library-raised"] += 1
            return
        for i, leaf in enumerate(leaves):
            received.clear()
            term = rng.choice([None, None] + list(TERMINALS))
            try:
                if term is None:
                    leaf.value()
                else:
                    getattr(leaf, term)(*({"AsAwkwardArray": [["c"]], "AsPandasDF": [["c"]], "AsROOTTTree": ["f.root", "t", ["c"]],
                                           "AsParquetFiles": ["f.parquet", ["c"]]}[term])).value()
            except Exception as e:
                ctx.violate({"module": text, "leaf": i, "terminal": term, "error": impl.classify_exc(e)}, "value() failed on a built stream")
                continue
            if len(received) != 1:
                ctx.violate({"module": text, "leaf": i}, f"the executor was called {len(received)} times")
                continue
            a = received[0]
            if term is not None:
                if not (isinstance(a, ast.Call) and isinstance(a.func, ast.Name) and a.func.id == TERMINALS[term] and a.args):
                    ctx.violate({"module": text, "leaf": i, "terminal": term, "ast": ast.unparse(a)[:300]}, "terminal node malformed")
                    continue
                a = a.args[0]
                ctx.dist["terminal"] += 1
            if ast.dump(a) != ast.dump(leaf.query_ast):
                ctx.violate({"module": text, "leaf": i, "executor": ast.unparse(a)[:300], "query_ast": ast.unparse(leaf.query_ast)[:300]},
                            "the AST handed to the executor is not the stream's query")
            try:
                b = backend_passes(a)
                b_err = None
            except Exception as e:
                b, b_err = None, impl.classify_exc(e)
                ctx.violate({"module": text, "leaf": i, "ast": ast.unparse(a)[:400], "error": b_err}, "a backend pass raised on a query built by the library")
            ca = canon_typed(a) if typed else a
            cb = (canon_typed(b) if typed else b) if b is not None else None
            case = {"module": text, "leaf": i, "typed": typed, "ast": ast.unparse(a)[:600]}
            for k, (wd, want) in enumerate(zip(worlds, wants)):
                if want is None:
                    continue
                ctx.dist["direct-ok"] += 1
                w = pyworld.to_world(wd)
                for which, q in (("received", ca), ("after-backend", cb)):
                    if q is None:
                        continue
                    try:
                        have = plain(pyworld.py_eval(q, w))
                    except Exception as e:
                        have = f"raises {type(e).__name__}: {e}"[:160]
                    if have != want[i]:
                        ctx.violate({**case, "stage": which, "query": ast.unparse(q)[:600], "dataset": val_sexpr(wd)[:800], "direct_python": repr(want[i])[:300],
                                     "ast_in_python": repr(have)[:300]},
                                    f"the {which} AST evaluated by CPython differs from the chain run directly",
                                    key=key)
                        break
                    try:
                        wv = val_sexpr(want[i])
                        ds = val_sexpr(wd)
                        reqs.append(("ev", [ds, f'(("ds" {ds}))', enc(q)]))
                        keep.append(("ev", {**case, "stage": which, "query": ast.unparse(q)[:600], "dataset": ds[:800]}, ("ok", wv)))
                    except (Unsupported, TypeError) as e:
                        ctx.dist["ev-unencodable"] += 1
            # ---- correspondence of the composed backend
            if b is not None:
                try:
                    reqs.append(("backend", ["0", enc(a)]))
                    keep.append(("backend", {"module": text, "leaf": i, "ast": ast.unparse(a)[:600]}, ("ok", enc(alpha(b)))))
                except Unsupported:
                    ctx.dist["backend-unencodable"] += 1
    finally:
        srcmod.drop_module(mod)


def run(ctx):
    import c01world
    from func_adl import EventDataset

    rng = ctx.rng
    received = []

    class DS(EventDataset):
        async def execute_result_async(self, a, title=None):
            received.append(a)
            return a

    class TDS(EventDataset[c01world.Event]):
        def __init__(self):
            super().__init__(item_type=c01world.Event)

        async def execute_result_async(self, a, title=None):
            received.append(a)
            return a

    reqs, keep = [], []
    for text, typed, key in PROBES:
        check_program(ctx, text, typed, {"features": ["probe"], "n_ops": 1}, reqs, keep, DS, TDS, received, key)
    n = ctx.n(120, 3000)
    for _ in range(n):
        typed = rng.random() < 0.4
        text, meta = gen_program(rng, typed)
        check_program(ctx, text, typed, meta, reqs, keep, DS, TDS, received, None)
    for (kind, case, want), m in zip(keep, ctx.driver.batch(reqs)):
        if kind == "ev":
            if tuple(m) != tuple(want):
                ctx.violate({**case, "direct_python": want[1][:300], "reference_semantics": [m[0], m[1][:300]]},
                            f"the {case['stage']} AST under the reference semantics differs from the chain run directly")
        else:
            if m[0] == "ok":
                try:
                    m = ("ok", enc(alpha(dec_text(m[1]))))
                except Exception as e:  # pragma: no cover
                    m = ("ok", f"undecodable: {e}")
            if tuple(m) != tuple(want):
                ctx.disagree("backend", case, want[1][:600], (m[0], m[1][:600]))


def replay(ctx, case):
    run(ctx)
