"""C16 — see streams.py (shared history machinery for C11 / C12 / C16)."""
from __future__ import annotations

import streams

ID = "C16"
THEOREMS = ["qmd_lookup_spec", "qmd_invisible", "qmeta_ghost", "inv_run", "qmdToAdd_spec"]
LEANCHECKER_MODULES = ["Fadl.Props.C16", "Fadl.Lemmas.StreamInv"]  # re-checked by leanchecker in the thorough tier
EXPLANATION = ("Theorems: for every well-formed history, a lookup on any stream returns the value most recently set for that key on the stream's own derivation path, or nothing (qmd_lookup_spec, by an invariant proved over every operation including the shallow-copy QMetaData makes and the merge with the copied node's dictionary); the field tree of every stream's query - hence dump, hash and executor argument - is the term the same chain builds without any QMetaData (qmd_invisible). Correspondence: lookups of every key on every stream after every step. Oracle: per-path dictionary reference in Python; dump/hash/executor-argument equality with a twin chain built without QMetaData.")
ASSUMPTIONS = ["QMetaData dictionaries have pairwise distinct keys (they are Python dicts) - hypothesis Op.wf"]
RULE = (
    "seeded histories (harness/streams.py: gen_history) of 4-20 operations over a forest of streams on 1-4 datasets "
    "(root EventDataset(...) nodes with 0-2 extra arguments): "
    "Select/Where/SelectMany with text lambdas, MetaData (empty and non-empty, empty ones stacked directly on each other and then executed), QMetaData (new keys, falsy values 0 and '', repeated keys with "
    "equal/different values, consecutive calls, on roots and derived streams), the four As* terminals, value()/value_async() "
    "with and without override executor and title, executors that return or raise, and batches of 2-4 concurrently awaited "
    "value_async() calls completed in a generated permutation; after EVERY step every live stream is observed; "
    "non-trivial = history with at least 4 operations; distinct = distinct operation list"
)


def run(ctx):
    streams.run_histories(ctx, ctx.n(150, 4000), ID)


def replay(ctx, case):
    import ast as _ast

    ops = _ast.literal_eval(case.get("ops") or case.get("case", {}).get("ops"))
    r = streams.Runner(ctx, ops, ID)
    obs = r.run()
    if obs is not None:
        (st, payload), = ctx.driver.batch([("history", [streams.lean_ops(ops, [streams.type_name(s.item_type) for s in r.streams]), "(" + " ".join('"%s"' % k for k in streams.KEYS) + ")"])])
        if st != "ok" or payload != obs:
            ctx.disagree("stream-history", {"ops": repr(ops)}, "replay differs", st)
