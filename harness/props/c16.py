"""C16 — see streams.py (shared history machinery for C11 / C12 / C16)."""
from __future__ import annotations

import streams

ID = "C16"
THEOREMS = ["qmd_lookup_spec", "qmd_invisible", "qmeta_ghost", "inv_run", "qmdToAdd_spec"]
LEANCHECKER_MODULES = ["Fadl.Props.C16", "Fadl.Lemmas.StreamInv"]  # re-checked by leanchecker in the thorough tier
EXPLANATION = ("Theorems: for every well-formed history, a lookup on any stream returns the value most recently set for that key on the stream's own derivation path, or nothing (qmd_lookup_spec, by an invariant proved over every operation including the shallow-copy QMetaData makes and the merge with the copied node's dictionary); the field tree of every stream's query - hence dump, hash and executor argument - is the term the same chain builds without any QMetaData (qmd_invisible). Correspondence: lookups of every key on every stream after every step. Oracle: per-path dictionary reference in Python; dump/hash/executor-argument equality with a twin chain built without QMetaData.")
ASSUMPTIONS = ["QMetaData dictionaries have pairwise distinct keys (they are Python dicts) - hypothesis Op.wf"]
RULE = (
    "seeded histories (harness/streams.py: gen_history) of 4-20 operations over a forest of streams on 1-4 datasets "
    "(root EventDataset(...) nodes with 0-2 extra arguments): "
    "Select/Where/SelectMany with text lambdas, MetaData (empty and non-empty, empty ones stacked directly on each other and then executed), QMetaData (new keys, falsy values 0 and '', repeated keys with "
    "equal/different values, consecutive calls, on roots and derived streams), the four As* terminals, value()/value_async() "
    "with and without override executor and title, executors that return or raise, and batches of 2-4 concurrently awaited "
    "value_async() calls completed in a generated permutation; after EVERY step every live stream is observed; "
    "non-trivial = history with at least 4 operations; distinct = distinct operation list"
)


VALUE_PAIRS = [([True], [1]), ([1], [1.0]), ({"n": 1}, {"n": 1.0}), ((1,), (True,)), ([[0]], [[False]]), ({(1,): "a"}, {(True,): "a"}),
               ({("x", 1.0): [2]}, {("x", 1): [2]}), ({1}, {True}), (frozenset({1}), frozenset({1.0})), ([{1}], [{True}]), (1, True), (0.0, 0),
               ("a", "a"), ([1, "x"], [1, "x"])]


def value_pair_probe(ctx):
    """QMetaData given a value that is == to the current one but not the same value (an element, a key, a set member of another
    type, at any depth): the lookup gives the NEW value, written exactly as it was given (wave-10 / wave-11 reviews of repo
    fixes fb34376 / 09ec453); a container holding NaN given twice stays what it is"""
    import ast
    import logging

    from func_adl import ObjectStream
    from func_adl.ast.meta_data import lookup_query_metadata

    lvl = logging.root.manager.disable
    logging.disable(logging.CRITICAL)
    try:
        nan_list = [float("nan")]
        for first, second in VALUE_PAIRS + [(nan_list, nan_list)]:
            ctx.count(f"value-pair:{first!r}:{second!r}", True, tags=["QMetaData value pair (equal, not the same)"])
            s = ObjectStream(ast.Name(id="ds", ctx=ast.Load())).QMetaData({"k": first}).Select("lambda e: e.x").QMetaData({"k": second})
            got = lookup_query_metadata(s, "k")
            if repr(got) != repr(second) or type(got) is not type(second):
                ctx.violate({"first": repr(first), "second": repr(second), "lookup": repr(got)},
                            "C16: the lookup is not the value most recently set (a value equal to the old one but of other types inside was dropped)")
    finally:
        logging.disable(lvl)


def run(ctx):
    value_pair_probe(ctx)
    streams.run_histories(ctx, ctx.n(150, 4000), ID)


def replay(ctx, case):
    import ast as _ast

    ops = _ast.literal_eval(case.get("ops") or case.get("case", {}).get("ops"))
    r = streams.Runner(ctx, ops, ID)
    obs = r.run()
    if obs is not None:
        (st, payload), = ctx.driver.batch([("history", [streams.lean_ops(ops, [streams.type_name(s.item_type) for s in r.streams]), "(" + " ".join('"%s"' % k for k in streams.KEYS) + ")"])])
        if st != "ok" or payload != obs:
            ctx.disagree("stream-history", {"ops": repr(ops)}, "replay differs", st)
