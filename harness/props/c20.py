"""C20 — the query hash identifies structure and nothing else."""
from __future__ import annotations

import ast
import copy
import hashlib
import os
import subprocess
import sys

from astcodec import parse_expr
from gen.expr import Opt, gen_query
from sexpr import parse as sparse
from treecodec import tree
import impl

ID = "C20"
THEOREMS = ["dump_injective", "hash_separates_selfDelimiting", "renderInj_selfDelimiting", "lex_render", "tokOK_all", "scanStr_append", "toks_injective", "dump_injective_partial", "hash_separates", "hash_congr", "hash_total"]
LEANCHECKER_MODULES = ["Fadl.Props.C20Render", "Fadl.Props.C20"]  # re-checked by leanchecker in the thorough tier
RULE = (
    "seeded queries (gen/expr.py) decorated with string/bytes/float/complex constants over ASCII, Latin-1, "
    "BMP and astral characters, quotes and brackets; each is hashed as parsed, re-parsed from re-formatted "
    "source, deep-copied, with shifted source positions and with non-field attributes attached; and in "
    "3 subprocesses with different PYTHONHASHSEED. Single-edit mutants (operator, name, constant value, "
    "constant type 1/1.0/True, argument order, nesting, keyword name, ctx) must change the hash. "
    "non-trivial = query with at least 5 nodes; distinct = distinct ast.dump"
)
EXPLANATION = (
    "Theorems: dump_injective and hash_separates_selfDelimiting (two self-delimiting field trees with the same dump are the "
    "same tree; equal hash => equal tree or an explicit MD5 collision) - no hypothesis about rendering is left: "
    "renderInj_selfDelimiting is proved by a lexer that recovers the token stream from the text (lex_render: it inverts the "
    "rendering of every well-formed token stream; tokOK_all: the token stream of a tree is well formed; scanStr_append: string "
    "literals with backslash escapes are self-terminating), on top of toks_injective (the token stream determines the field "
    "tree, by prefix-freeness induction). Self-delimiting = every listed field has a value, class and field names are atoms "
    "(non-empty, no separator / bracket / quote / space), constant reprs are atoms, string literals in quotes, prefixed "
    "string literals (b'..') or parenthesised atoms ((1+2j)); that CPython's names and reprs have this shape is evaluated on "
    "the tree of every generated AST (driver op selfDelim; a tree outside the shape is reported). hash_congr, hash_total. "
    "Correspondence: Lean dump(field tree) == ast.dump and md5(utf-8 of the Lean dump) == calc_ast_hash. Oracles: equal "
    "structures built differently / in other processes hash equal; single edits hash different; no exception for any text."
)
ASSUMPTIONS = [
    "CPython's class / field names and constant reprs have the self-delimiting shape (evaluated on every generated tree)",
    "MD5 collision-freeness is NOT assumed: it is a disjunct of hash_separates",
]
TRUSTED = ["hashlib.md5 (a parameter H of the model)", "harness/treecodec.py (validated by dump == ast.dump)"]

ODD_STRINGS = ["", "a", "it's", 'say "hi"', "a, b)", "x=1", "[", "é", "ÿ", "Ā", "€", "日本", "😀", "\\", "\n", "\t\r",
               "'\"", "\x00", "\x7f", "\xa0", "lambda x: x", "a b", "퟿", "â\x82¬"]


def decorate(rng, src: str) -> str:
    r = rng.random()
    if r < 0.5:
        s = rng.choice(ODD_STRINGS) + rng.choice(ODD_STRINGS)
        lit = rng.choice([repr(s), repr(s.encode("utf-8")), repr(len(s) * 1.5), repr(complex(0, len(s))), "None", "..."])
        return f"f({src}, {lit}, k={lit})"
    if r < 0.6:
        return f"{src} if {rng.choice(ODD_STRINGS)!r} in x else [*y, {{1: 2, **z}}][1:2]"
    return src


def edits(rng, a: ast.AST):
    "single-edit mutants of a (each a deep copy differing in one place)"
    out = []
    nodes = list(ast.walk(a))
    idx = list(range(len(nodes)))
    rng.shuffle(idx)
    for i in idx[:40]:
        b = copy.deepcopy(a)
        n = list(ast.walk(b))[i]
        what = None
        if isinstance(n, ast.Name):
            n.id = n.id + "_"
            what = "name"
        elif isinstance(n, ast.Attribute):
            n.attr = n.attr + "x"
            what = "attr"
        elif isinstance(n, ast.Constant):
            v = n.value
            if type(v) is int:
                n.value = rng.choice([v + 1, float(v), bool(v) if v in (0, 1) else str(v)])
            elif type(v) is bool:
                n.value = int(v)
            elif type(v) is str:
                n.value = rng.choice([v + " ", v.encode("utf-8"), v + "́"])
            elif type(v) is float:
                n.value = rng.choice([v + 1.0, int(v) if v == int(v) else -v])
            else:
                n.value = 12345
            if n.value is v or (n.value == v and type(n.value) is type(v)):
                continue
            what = "constant"
        elif isinstance(n, ast.BinOp):
            n.op = ast.Sub() if isinstance(n.op, ast.Add) else ast.Add()
            what = "operator"
        elif isinstance(n, ast.Compare):
            n.ops[0] = ast.LtE() if isinstance(n.ops[0], ast.Lt) else ast.Lt()
            what = "cmp-operator"
        elif isinstance(n, ast.BoolOp):
            n.op = ast.Or() if isinstance(n.op, ast.And) else ast.And()
            what = "bool-operator"
        elif isinstance(n, ast.Call):
            r = rng.random()
            if len(n.args) >= 2 and ast.dump(n.args[0]) != ast.dump(n.args[1]) and r < 0.5:
                n.args[0], n.args[1] = n.args[1], n.args[0]
                what = "argument-order"
            elif n.args and r < 0.8:
                n.args[0] = ast.Tuple(elts=[n.args[0]], ctx=ast.Load())
                what = "nesting"
            elif n.keywords:
                n.keywords[0].arg = (n.keywords[0].arg or "") + "k"
                what = "keyword-name"
        elif isinstance(n, ast.Lambda) and n.args.args:
            n.args.args[0].arg += "_"
            what = "parameter-name"
        elif isinstance(n, ast.Tuple):
            n.elts = n.elts + [ast.Constant(value=0)]
            what = "tuple-length"
        if what:
            out.append((what, b))
        if len(out) >= 8:
            break
    return out


def share_nodes(a):
    """the same structure assembled from RE-USED node objects: every sub-tree that occurs more than once (equal dump) is one
    object standing in all those places - as when a user passes one ast.Lambda to two operators or builds `pt * pt` from
    one `pt` node (seed C20-w7-2)"""
    b = copy.deepcopy(a)
    first = {}

    class Share(ast.NodeTransformer):
        def generic_visit(self, node):
            node = super().generic_visit(node)
            if isinstance(node, ast.expr) and getattr(node, "_fields", ()) and not isinstance(getattr(node, "ctx", None), ast.Store):
                key = ast.dump(node)
                if key in first:
                    return first[key]
                first[key] = node
            return node

    return Share().visit(b)


def shift_positions(a):
    b = copy.deepcopy(a)
    for n in ast.walk(b):
        if hasattr(n, "lineno"):
            n.lineno += 7
            n.col_offset += 3
            n.end_lineno = None
    return b


def annotate(a, rng):
    b = copy.deepcopy(a)
    for n in ast.walk(b):
        if rng.random() < 0.3:
            n._q_metadata = {"k": rng.random()}  # type: ignore
            n._func_adl_executor = object()  # type: ignore
            n._eds_object = b  # type: ignore
    return b


def check_cases(ctx, srcs, do_subproc=True):
    from func_adl.ast.ast_hash import calc_ast_hash

    reqs, keep = [], []
    by_dump = {}
    for src in srcs:
        try:
            a = parse_expr(src)
        except (SyntaxError, ValueError):
            ctx.skip("syntax")
            continue
        d = ast.dump(a)
        n_nodes = sum(1 for _ in ast.walk(a))
        try:
            h = calc_ast_hash(a)
        except Exception as e:
            ctx.violate({"src": src}, f"calc_ast_hash raised {type(e).__name__}: {e}")
            continue
        ctx.count(d, n_nodes >= 5, sample={"src": src, "hash": h}, tags=[f"nonascii={any(ord(c) > 127 for c in d)}"])
        # equal structure, built differently
        variants = {
            "reparse-of-unparse": lambda: parse_expr(ast.unparse(a)),
            "deepcopy": lambda: copy.deepcopy(a),
            "shifted-positions": lambda: shift_positions(a),
            "non-field-attributes": lambda: annotate(a, ctx.rng),
            "re-used-node-objects": lambda: share_nodes(a),
            "module-wrapped-lambda-route": lambda: ast.parse("(" + src + "\n)", mode="eval").body,
        }
        for name, mk in variants.items():
            try:
                b = mk()
            except Exception:
                continue
            if ast.dump(b) != d:
                continue  # unparse may normalise (e.g. -1); not the same structure then
            hb = calc_ast_hash(b)
            if hb != h:
                ctx.violate({"src": src, "variant": name, "h1": h, "h2": hb}, "structurally identical ASTs hash differently")
        # repeated hashing is stable and does not depend on earlier calls / mutation of a copy
        c = copy.deepcopy(a)
        h_c = calc_ast_hash(c)
        for what, m in edits(ctx.rng, c)[:2]:
            pass
        if calc_ast_hash(a) != h or h_c != h:
            ctx.violate({"src": src}, "hash of the same tree changed between calls")
        # single-edit mutants
        for what, m in edits(ctx.rng, a):
            if ast.dump(m) == d:
                continue
            hm = calc_ast_hash(m)
            ctx.dist["edit:" + what] += 1
            if hm == h:
                ctx.violate({"src": src, "edit": what, "mutant": ast.dump(m)[:400]}, f"single edit ({what}) does not change the hash")
        # hash after editing a hashed copy must follow the edit (no stale memo)
        for what, m in edits(ctx.rng, a)[:1]:
            c2 = copy.deepcopy(a)
            calc_ast_hash(c2)
            n_orig, n_mut = list(ast.walk(c2)), list(ast.walk(m))
            if len(n_orig) == len(n_mut):
                # apply the same edit in place by replacing fields node by node
                for x, y in zip(n_orig, n_mut):
                    if type(x) is type(y):
                        for f in x._fields:
                            vx, vy = getattr(x, f, None), getattr(y, f, None)
                            if not isinstance(vx, (ast.AST, list)) and vx != vy or (type(vx) is not type(vy) and not isinstance(vx, (ast.AST, list))):
                                setattr(x, f, vy)
                if ast.dump(c2) == ast.dump(m) and calc_ast_hash(c2) != calc_ast_hash(m):
                    ctx.violate({"src": src, "edit": what}, "hash of a tree edited in place after hashing differs from the hash of an identical fresh tree")
        # pairs of mutants that differ from each other in one non-ASCII character only
        strs = [i for i, n in enumerate(ast.walk(a)) if isinstance(n, (ast.Constant, ast.Name, ast.Attribute))]
        if strs:
            i = ctx.rng.choice(strs)
            pair = []
            for ch in ctx.rng.sample(["é", "è", "€", "Ā", "😀", "日", "ÿ", "ā"], 2):
                m = copy.deepcopy(a)
                n = list(ast.walk(m))[i]
                if isinstance(n, ast.Name):
                    n.id += ch if ch.isidentifier() else "é"
                elif isinstance(n, ast.Attribute):
                    n.attr += ch if ch.isidentifier() else "è"
                elif isinstance(n.value, str):
                    n.value += ch
                else:
                    n.value = ch
                pair.append(m)
            if ast.dump(pair[0]) != ast.dump(pair[1]):
                ctx.dist["edit:nonascii-pair"] += 1
                if calc_ast_hash(pair[0]) == calc_ast_hash(pair[1]):
                    ctx.violate({"src": src, "a": ast.dump(pair[0])[-200:], "b": ast.dump(pair[1])[-200:]},
                                "two queries differing in one non-ASCII character have the same hash")
        prev = by_dump.get(h)
        if prev is not None and prev != d:
            ctx.violate({"src": src, "other_dump": prev[:300]}, "two different structures have the same hash")
        by_dump[h] = d
        reqs.append(("dump", [tree(a)]))
        keep.append((src, d, h))
    res = ctx.driver.batch(reqs)
    # the one thing the injectivity theorem leaves to trust - CPython's class / field names are atoms and its constant
    # reprs are atoms, (prefixed) string literals or parenthesised atoms - is evaluated on the tree of every generated AST
    shape = ctx.driver.batch([("selfDelim", r[1]) for r in reqs])
    for (src, d, h), sh in zip(keep, shape):
        if tuple(sh) == ("ok", "true"):
            ctx.dist["self-delimiting (hypothesis of dump_injective holds)"] += 1
        else:
            ctx.dist["NOT self-delimiting (outside dump_injective)"] += 1
            ctx.disagree("selfDelimiting", {"src": src}, "every name an atom, every constant repr of the assumed shape", (sh[0], sh[1][:100]))
    for (src, d, h), (st, payload) in zip(keep, res):
        if st != "ok":
            ctx.disagree("dump", {"src": src}, d, payload)
            continue
        md = sparse(payload)
        if md != d:
            ctx.disagree("dump", {"src": src}, d, md)
        elif hashlib.md5(md.encode("utf-8", errors="surrogatepass")).hexdigest() != h:
            ctx.disagree("astHash", {"src": src}, h, "md5(utf-8(Lean dump))")
    # other processes, other hash seeds
    if do_subproc and keep:
        sample = keep[:: max(1, len(keep) // 40)][:40]
        prog = (
            "import sys,ast,json\nsys.path.insert(0, sys.argv[1])\nfrom func_adl.ast.ast_hash import calc_ast_hash\n"
            "srcs=json.load(sys.stdin)\nprint(json.dumps([calc_ast_hash(ast.parse(s.strip(), mode='eval').body) for s in srcs]))\n"
        )
        import json

        for seed in ("0", "1", "4242"):
            env = dict(os.environ, PYTHONHASHSEED=seed)
            r = subprocess.run([sys.executable, "-c", prog, impl.REPO], input=json.dumps([s for s, _, _ in sample]),
                               capture_output=True, text=True, env=env, timeout=300)
            if r.returncode != 0:
                ctx.notes.append("subprocess hashing failed: " + r.stderr[-300:])
                ctx.violate({"seed": seed, "stderr": r.stderr[-500:]}, "calc_ast_hash failed in a fresh process")
                break
            got = json.loads(r.stdout)
            ctx.dist["cross-process-hashes"] += len(got)
            for (s, _, h), g in zip(sample, got):
                if g != h:
                    ctx.violate({"src": s, "PYTHONHASHSEED": seed, "here": h, "there": g}, "hash differs between processes")


def run(ctx):
    n = ctx.n(500, 12000)
    done = 0
    first = True
    while done < n:
        srcs = []
        for _ in range(min(1000, n - done)):
            opt = Opt(form=ctx.rng.choice(["func", "mixed", "method"]), comps=ctx.rng.random() < 0.3, max_depth=ctx.rng.choice([1, 2, 3]))
            src, _ = gen_query(ctx.rng, opt)
            srcs.append(decorate(ctx.rng, src))
        check_cases(ctx, srcs, do_subproc=first)
        first = False
        done += len(srcs)


def replay(ctx, case):
    src = case.get("src") or case.get("case", {}).get("src")
    if src:
        check_cases(ctx, [src], do_subproc=True)
