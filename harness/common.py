"""Helpers shared by the property modules."""
from __future__ import annotations

import ast
import copy
from typing import Any, List, Optional, Tuple

import impl  # noqa: F401  (sets sys.path for func_adl)
from astcodec import Unsupported, enc, parse_expr
from gen.data import gen_dataset, val_sexpr
from sexpr import parse as sparse


def table(driver, name: str):
    (st, payload), = driver.batch([("table", [name])])
    if st != "ok":
        raise RuntimeError(f"driver table {name}: {payload}")
    return sparse(payload)


def ev_requests(ds_list: List[str], exprs: List[str]):
    "requests evaluating each expr on each dataset with env {ds: dataset}"
    reqs = []
    for e in exprs:
        for ds in ds_list:
            reqs.append(("ev", [ds, f'(("ds" {ds}))', e]))
    return reqs


def datasets(rng, n=3) -> List[str]:
    out = []
    for i in range(n):
        out.append(val_sexpr(gen_dataset(rng, max_events=3)))
    return out


def rich_dataset(rng):
    "a dataset in which no collection is empty (so that First() etc. mostly evaluate)"
    from gen.data import gen_obj

    rich = [gen_obj(rng, "E") for _ in range(3)]
    for e in rich:
        if not e["jets"]:
            e["jets"] = [gen_obj(rng, "J")]
        if not e["nums"]:
            e["nums"] = [1, 4]
        for j in e["jets"]:
            if not j["trks"]:
                j["trks"] = [gen_obj(rng, "T")]
            if not j["vals"]:
                j["vals"] = [2]
        if not e["els"]:
            e["els"] = [copy.deepcopy(e["jets"][0])]
    return rich


def fixed_datasets(rng, n=3):
    "a rich dataset and random ones (Lean `Val` S-expressions)"
    rich = rich_dataset(rng)
    out = [val_sexpr(rich)]
    for _ in range(n - 1):
        out.append(val_sexpr(gen_dataset(rng)))
    return out


def compare_ev(ctx, driver, pairs: List[Tuple[Any, str, str]], ds_list: List[str], what: str, keyfn=None):
    """pairs: (case, original sexpr, transformed sexpr).  Violation when the original evaluates
    without error on a dataset (deferred-execution semantics Fadl/SemLazy.lean; no deferred failure left
    inside the value) and the transformed one does not give the same value."""
    reqs = []
    for _, a, b in pairs:
        for ds in ds_list:
            env = f'(("ds" {ds}))'
            reqs.append(("ev", [ds, env, a]))
            reqs.append(("ev", [ds, env, b]))
    res = driver.batch(reqs)
    i = 0
    n_ok = 0
    for case, a, b in pairs:
        bad = None
        for k, ds in enumerate(ds_list):
            ra, rb = res[i], res[i + 1]
            i += 2
            if ra[0] == "ok" and "(poison " not in ra[1]:
                n_ok += 1
                if rb != ra and bad is None:
                    bad = {"dataset": ds, "original_value": ra, "transformed_value": rb}
        if bad is not None:
            ctx.violate({"case": case, **bad}, what, keyfn(case, bad) if keyfn else None)
    ctx.dist["ev_original_ok"] += n_ok
    ctx.dist["ev_pairs"] += len(pairs) * len(ds_list)


def pyval_sexpr(v: Any) -> str:
    "Python literal value -> Lean `PyVal` S-expression (Fadl/PyVal.lean)."
    from sexpr import q

    if v is None:
        return "none"
    if v is Ellipsis:
        return "ellipsis"
    if isinstance(v, bool):
        return "(bool true)" if v else "(bool false)"
    if isinstance(v, int):
        return f"(int {v})"
    if isinstance(v, float):
        return f"(float {q(repr(v))})"
    if isinstance(v, str):
        return f"(str {q(v)})"
    if isinstance(v, bytes):
        return f"(bytes {q(repr(v))})"
    if isinstance(v, tuple):
        return "(tuple (" + " ".join(pyval_sexpr(x) for x in v) + "))"
    if isinstance(v, list):
        return "(list (" + " ".join(pyval_sexpr(x) for x in v) + "))"
    if isinstance(v, dict):
        return (
            "(dict (" + " ".join(pyval_sexpr(k) for k in v.keys()) + ") ("
            + " ".join(pyval_sexpr(x) for x in v.values()) + "))"
        )
    raise TypeError(f"cannot encode {type(v)} as PyVal")


def same_value(a: Any, b: Any) -> bool:
    "equal value AND equal type, recursively (1 != True != 1.0)"
    if type(a) is not type(b):
        return False
    if isinstance(a, (list, tuple)):
        return len(a) == len(b) and all(same_value(x, y) for x, y in zip(a, b))
    if isinstance(a, dict):
        return len(a) == len(b) and all(
            same_value(k1, k2) and same_value(v1, v2) for (k1, v1), (k2, v2) in zip(a.items(), b.items())
        )
    if isinstance(a, float):
        import math

        return (a == b and math.copysign(1, a) == math.copysign(1, b)) or (a != a and b != b)
    return a == b
