"""Dispatch-surface tie (DESIGN 3.2): the visit_* / call_* / generic_visit methods of the transformer classes a property's model
mirrors are read from the source (by parsing it: several of the classes are nested in functions) and must be exactly the
set the model was written against (harness/surface_expected.json).  A method that appears, disappears or is renamed is a
broken tie for the properties that depend on the class - the model may no longer describe the dispatch - and sends the
check into its failing-input search like any other broken correspondence."""
from __future__ import annotations

import ast
import json
from pathlib import Path
from typing import Dict, List

import impl

EXPECTED = Path(__file__).resolve().parent / "surface_expected.json"

# class -> (file, properties whose model mirrors it)
CLASSES: Dict[str, tuple] = {
    "simplify_chained_calls": ("func_adl/ast/function_simplifier.py", ["C02", "C14", "C18", "C01"]),
    "_rewrite_captured_vars": ("func_adl/util_ast.py", ["C04", "C05", "C06"]),
    "_resolve_called_lambdas": ("func_adl/util_ast.py", ["C05", "C04"]),
    "syntax_transformer": ("func_adl/ast/syntatic_sugar.py", ["C06"]),
    "type_transformer": ("func_adl/type_based_replacement.py", ["C07", "C08", "C09", "C10"]),
    "aggregate_node_transformer": ("func_adl/ast/aggregate_shortcuts.py", ["C19"]),
    "transform_calls": ("func_adl/ast/func_adl_ast_utils.py", ["C17"]),
    "_extract_metadata": ("func_adl/ast/meta_data.py", ["C15"]),
    "_cleaner": ("func_adl/ast/meta_data.py", ["C15", "C11", "C12"]),
    "_finder": ("func_adl/ast/meta_data.py", ["C16"]),
}


def methods_of(path: Path, cls: str) -> List[str]:
    tree = ast.parse(path.read_text())
    for node in ast.walk(tree):
        if isinstance(node, ast.ClassDef) and node.name == cls:
            # only what is reached by NAME through the visitors' getattr dispatch: a helper method matters only through the
            # methods that call it (and then the correspondence run sees it); a new visit_X changes behaviour on its own
            return sorted(n.name for n in node.body if isinstance(n, (ast.FunctionDef, ast.AsyncFunctionDef))
                          and (n.name.startswith(("visit_", "call_")) or n.name == "generic_visit"))
    return ["<class not found>"]


def current() -> Dict[str, List[str]]:
    return {c: methods_of(Path(impl.REPO) / f, c) for c, (f, _) in CLASSES.items()}


def ties(prop: str) -> List[str]:
    "list of broken ties for this property (empty = the dispatch surface is the one the model was written against)"
    want = json.loads(EXPECTED.read_text())
    have = current()
    out = []
    for c, (f, props) in CLASSES.items():
        if prop not in props:
            continue
        if have[c] != want.get(c):
            added = sorted(set(have[c]) - set(want.get(c, [])))
            gone = sorted(set(want.get(c, [])) - set(have[c]))
            out.append(f"dispatch surface of {c} ({f}) changed: new methods {added}, missing methods {gone}")
    return out


if __name__ == "__main__":  # regenerate the expected table (development; the table is committed)
    EXPECTED.write_text(json.dumps(current(), indent=1, sort_keys=True) + "\n")
    print(EXPECTED.read_text())
