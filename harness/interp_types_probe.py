"""Values whose class is one of the interpreter's own types (str, mappingproxy, generator, dict_keys, function, module,
NoneType) and declared subclasses of them: a method the interpreter implements is emitted as written (C07: defaults come from
declared signatures only), the class-level callbacks of a DECLARED class still run on it (C09), and a subscripted attribute
call on such a value is not taken for a parameterized property (C09).  Wave-10 / wave-11 reviews of repo fixes d29231e,
4e19366, 941f4e6.  No `from __future__ import annotations` here: the annotations are evaluated where they stand."""
import ast
import collections
import functools
import re
import logging
import types
from typing import Deque, Dict, Generic, Iterable, List, Tuple, TypeVar

from func_adl import ObjectStream, func_adl_callback, func_adl_parameterized_call

T = TypeVar("T")

DictKeys = type({}.keys())
NoneType = type(None)


def _cb(s, a):
    return s.MetaData({"lib": "needed-by-backend"}), a


@func_adl_callback(_cb)
class Name(str):
    def first(self) -> str: ...


@func_adl_callback(_cb)
class CbJet:
    def pt(self, scale: float = 1.0) -> float: ...


class CJet:
    # a declared method behind a decorator object that is a descriptor (wave-12 review r3)
    @functools.lru_cache
    def cached(self, n: int = 4) -> float: ...


def _prop_cb(s, a, param_1):
    return s, ast.Call(func=ast.Attribute(value=a.func.value, attr="getAttrFloat", ctx=ast.Load()), args=a.args, keywords=[]), float


class Vec(Generic[T]):
    def at(self, i: int = 0) -> T: ...

    @func_adl_parameterized_call(_prop_cb)
    @property
    def getAttr(self): ...


class PlainName(str):
    pass


class Event:
    def name(self) -> Name: ...
    def pname(self) -> PlainName: ...
    def jet(self) -> CbJet: ...
    def mp(self) -> types.MappingProxyType: ...
    def gen(self) -> types.GeneratorType: ...
    def keys(self) -> DictKeys: ...
    def fn(self) -> types.FunctionType: ...
    def mod(self) -> types.ModuleType: ...
    def nothing(self) -> None: ...
    def text(self) -> str: ...
    def jets(self) -> Iterable[CbJet]: ...
    def li(self) -> List[int]: ...
    def d(self) -> Dict[str, int]: ...
    def tup(self) -> Tuple[int, float]: ...
    def c(self) -> complex: ...
    def cjet(self) -> CJet: ...
    def vec(self) -> Vec[CJet]: ...
    def dq(self) -> collections.deque: ...
    def dqi(self) -> Deque[int]: ...
    def pat(self) -> re.Pattern: ...


# (lambda text, expected query text, must the class-level callback have run)
CASES = [
    ("lambda e: e.name().first()", "Select(MetaData(ds, {'lib': 'needed-by-backend'}), lambda e: e.name().first())", True),
    ("lambda e: e.name().upper()", "Select(MetaData(ds, {'lib': 'needed-by-backend'}), lambda e: e.name().upper())", True),
    ("lambda e: e.name().split()", "Select(MetaData(ds, {'lib': 'needed-by-backend'}), lambda e: e.name().split())", True),
    ("lambda e: e.jet().pt()", "Select(MetaData(ds, {'lib': 'needed-by-backend'}), lambda e: e.jet().pt(1.0))", True),
    ("lambda e: e.jet().__str__()", "Select(MetaData(ds, {'lib': 'needed-by-backend'}), lambda e: e.jet().__str__())", True),
    ("lambda e: e.pname().split()", "Select(ds, lambda e: e.pname().split())", False),
    ("lambda e: e.pname().split(',', 1)", "Select(ds, lambda e: e.pname().split(',', 1))", False),
    ("lambda e: e.text().split()", "Select(ds, lambda e: e.text().split())", False),
    ("lambda e: e.text().replace('a', 'b')", "Select(ds, lambda e: e.text().replace('a', 'b'))", False),
    ("lambda e: e.mp().get('a')", "Select(ds, lambda e: e.mp().get('a'))", False),
    ("lambda e: e.gen().close()", "Select(ds, lambda e: e.gen().close())", False),
    ("lambda e: e.keys().isdisjoint([1])", "Select(ds, lambda e: e.keys().isdisjoint([1]))", False),
    ("lambda e: e.fn().__get__(1)", "Select(ds, lambda e: e.fn().__get__(1))", False),
    ("lambda e: e.mod().table['cal'](1)", "Select(ds, lambda e: e.mod().table['cal'](1))", False),
    ("lambda e: e.nothing().x['k'](1)", "Select(ds, lambda e: e.nothing().x['k'](1))", False),
    ("lambda e: e.text().join['k'](1)", "Select(ds, lambda e: e.text().join['k'](1))", False),
    # wave-12 review of 2d2944f
    ("lambda e: e.li().count(1)", "Select(ds, lambda e: e.li().count(1))", False),
    ("lambda e: e.d().get('a')", "Select(ds, lambda e: e.d().get('a'))", False),
    ("lambda e: e.d().keys()", "Select(ds, lambda e: e.d().keys())", False),
    ("lambda e: e.tup().index(1)", "Select(ds, lambda e: e.tup().index(1))", False),
    ("lambda e: e.c().real()", "Select(ds, lambda e: e.c().real())", False),
    ("lambda e: e.c().conjugate()", "Select(ds, lambda e: e.c().conjugate())", False),
    ("lambda e: e.cjet().cached()", "Select(ds, lambda e: e.cjet().cached(4))", False),
    ("lambda e: e.vec().at().cached()", "Select(ds, lambda e: e.vec().at(0).cached(4))", False),
    ("lambda e: e.vec().getAttr['f']('x')", "Select(ds, lambda e: e.vec().getAttrFloat('x'))", False),
    # wave-13 review of 4bddb63: classes of the standard library written in C carry the heap-type flag too
    ("lambda e: e.dq().append(1)", "Select(ds, lambda e: e.dq().append(1))", False),
    ("lambda e: e.dq().count(1)", "Select(ds, lambda e: e.dq().count(1))", False),
    ("lambda e: e.dqi().count(1)", "Select(ds, lambda e: e.dqi().count(1))", False),
    ("lambda e: e.pat().match('x')", "Select(ds, lambda e: e.pat().match('x'))", False),
    ("lambda e: e.pat().split('a')", "Select(ds, lambda e: e.pat().split('a'))", False),
]


def run(ctx, prop):
    lvl = logging.root.manager.disable
    logging.disable(logging.CRITICAL)
    try:
        for text, want, _ in CASES:
            ctx.count("interp-types:" + text, True, tags=["value of an interpreter type / declared subclass of one"])
            try:
                s = ObjectStream[Event](ast.Name(id="ds", ctx=ast.Load()), Event).Select(text)
                got = ast.unparse(s.query_ast)
            except Exception as ex:
                got = f"raises {type(ex).__name__}: {ex}"[:200]
            if got != want:
                ctx.violate({"lambda": text, "got": got, "want": want},
                            f"{prop}: a method the interpreter implements / a subscripted attribute call on a value of an interpreter type is "
                            "not emitted as written, or the declared class's callback did not run")
    finally:
        logging.disable(lvl)
