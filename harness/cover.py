"""Line coverage of the anchored Python functions, measured on every run (DESIGN 3.5 item 6, 12.8).

The correspondence run and the oracles only say something about the code their inputs execute.  This module
measures which lines of the functions a property is anchored in were executed by the run's own inputs
(`sys.monitoring`, Python 3.12: each location reports once and is then disabled, so the cost is negligible) and
puts the numbers - and the lines never reached - into the evidence file.  It never influences a verdict.
"""
from __future__ import annotations

import sys
from pathlib import Path
from typing import Dict, Iterable, List, Set, Tuple

TOOL = 3  # a free tool id (0 debugger, 1 coverage, 2 profiler are conventional)

_hits: Set[Tuple[str, int]] = set()
_files: Set[str] = set()
_active = False


def _on_line(code, line):
    fn = code.co_filename
    if fn in _files:
        _hits.add((fn, line))
    return sys.monitoring.DISABLE


def start(files: Iterable[str]) -> bool:
    """Start recording executed lines of `files` (absolute paths)."""
    global _active
    if not hasattr(sys, "monitoring"):
        return False
    _files.clear()
    _files.update(str(Path(f).resolve()) for f in files)
    _hits.clear()
    mon = sys.monitoring
    try:
        mon.use_tool_id(TOOL, "verif-cover")
    except ValueError:
        return False
    mon.register_callback(TOOL, mon.events.LINE, _on_line)
    mon.set_events(TOOL, mon.events.LINE)
    mon.restart_events()
    _active = True
    return True


def stop():
    global _active
    if not _active:
        return
    mon = sys.monitoring
    mon.set_events(TOOL, 0)
    mon.register_callback(TOOL, mon.events.LINE, None)
    mon.free_tool_id(TOOL)
    _active = False


def _functions(path: str) -> Dict[str, Set[int]]:
    """qualified function name -> executable lines, from the compiled file (module-level lines are left out:
    they run at import time, before the measurement starts)."""
    src = Path(path).read_text()
    top = compile(src, path, "exec")
    out: Dict[str, Set[int]] = {}

    def walk(co):
        for c in co.co_consts:
            if hasattr(c, "co_code"):
                lines = {ln for (_s, _e, ln) in c.co_lines() if ln is not None}
                # the `def` line itself and decorator lines execute in the enclosing scope
                lines.discard(c.co_firstlineno)
                name = c.co_qualname
                if name.endswith("<lambda>") or name.endswith("<listcomp>") or name.endswith("<genexpr>"):
                    name = name  # kept under their own qualified name
                if lines:
                    out.setdefault(name, set()).update(lines)
                walk(c)

    walk(top)
    # class bodies are code objects too (executed at import): drop those whose name is a class
    import ast as _ast

    classes = set()
    tree = _ast.parse(src)

    def cls(node, prefix):
        for ch in _ast.iter_child_nodes(node):
            if isinstance(ch, _ast.ClassDef):
                q = prefix + ch.name
                classes.add(q)
                cls(ch, q + ".")
            elif isinstance(ch, (_ast.FunctionDef, _ast.AsyncFunctionDef)):
                cls(ch, prefix + ch.name + ".<locals>.")
            else:
                cls(ch, prefix)

    cls(tree, "")
    for q in classes:
        out.pop(q, None)
    # docstring-only / `...` stubs etc. are kept: they are executable lines as far as CPython is concerned
    return out


def report(anchored: Iterable[str] = ()) -> dict:
    """Summary for the evidence file.  `anchored`: substrings of qualified names that the property's anchors
    mention; functions matching one are listed with their unreached lines, the rest only counted per file."""
    anchored = [a for a in anchored if a]
    import os

    dump = os.environ.get("VERIF_COVER_DUMP")  # development aid: raw hits, for the union over properties
    if dump:
        import json

        Path(dump).write_text(json.dumps(sorted(_hits)))
    res: Dict[str, dict] = {}
    tot_hit = tot_all = 0
    a_hit = a_all = 0
    for f in sorted(_files):
        try:
            funcs = _functions(f)
        except (OSError, SyntaxError) as e:  # pragma: no cover
            res[f] = {"error": str(e)}
            continue
        hit_lines = {ln for (fn, ln) in _hits if fn == f}
        per: Dict[str, List] = {}
        fh = fa = 0
        for q, lines in sorted(funcs.items()):
            h = len(lines & hit_lines)
            fh += h
            fa += len(lines)
            is_anch = any(a in q for a in anchored) if anchored else True
            if is_anch:
                a_hit += h
                a_all += len(lines)
                miss = sorted(lines - hit_lines)
                per[q] = [h, len(lines)] + ([miss[:40]] if miss else [])
        tot_hit += fh
        tot_all += fa
        res[Path(f).name] = {"lines_hit": fh, "lines": fa, "anchored_functions": per}
    return {
        "what": "lines of the anchored source files executed by this run's inputs (function bodies only; "
                "[hit, total, [lines never reached]] per anchored function)",
        "files": res,
        "lines_hit": tot_hit,
        "lines": tot_all,
        "anchored_lines_hit": a_hit,
        "anchored_lines": a_all,
    }
