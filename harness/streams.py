"""Histories of stream operations: generator, execution on the real library (with the property
oracles of C11 / C12 / C16) and correspondence with the Lean state machine (Model/Stream.lean)."""
from __future__ import annotations

import ast
import asyncio
import copy
from typing import Any, List, Optional

import impl  # noqa: F401
from astcodec import enc, parse_expr
from common import pyval_sexpr
from sexpr import q

KEYS = ["a", "b", "c", "mode"]
ROOT_ARGS = [ast.Constant(value="hi"), ast.Constant(value=7)]
LAMS_SELECT = ["lambda e: e.x", "lambda e: (e.x, e.y)", "lambda j: j.pt() * 2", "lambda e: e.jets.Select(lambda j: j.pt)",
               "lambda x: x"]
LAMS_WHERE = ["lambda e: e.x > 1", "lambda j: j.pt() > 30 and j.eta < 2", "lambda e: not (e.x == 0)", "lambda e: e.a < e.b < e.c"]
LAMS_MANY = ["lambda e: e.jets", "lambda e: e.jets.Where(lambda j: j.pt > 1)", "lambda e: e.tracks()"]


def gen_history(rng, n_ops: int) -> List[tuple]:
    """ops: ('dataset',) | ('derive', s, opname, lambda_src) | ('metadata', s, dict) | ('qmeta', s, dict)
    | ('terminal', s, kind, args) | ('value', s, override|None, title|None, outcome) |
    ('gather', [(s, override, title, outcome)...], completion_permutation)"""
    ops: List[tuple] = [("dataset", rng.choice([0, 0, 1]))]
    n_streams = 1
    last_q: Optional[dict] = None
    q_hist: List[dict] = []
    for _ in range(n_ops):
        r = rng.random()
        s = rng.randrange(n_streams) if rng.random() < 0.4 else max(0, n_streams - 1 - rng.choice([0, 0, 0, 1, 2]))
        s = min(s, n_streams - 1)
        if r < 0.07:
            ops.append(("dataset", rng.choice([0, 0, 1, 2])))  # number of extra arguments on the root EventDataset(...) node
            n_streams += 1
        elif r < 0.37:
            kind = rng.choice(["Select", "Where", "SelectMany"])
            src = rng.choice({"Select": LAMS_SELECT, "Where": LAMS_WHERE, "SelectMany": LAMS_MANY}[kind])
            ops.append(("derive", s, kind, src))
            n_streams += 1
        elif r < 0.47:
            d = rng.choice([{}, {}, {"k": "v"}, {"m": [1, "it's"]}, {"a": 1, "b": {"c": None}}])
            ops.append(("metadata", s, d))
            n_streams += 1
            if not d and rng.random() < 0.5:
                # empty wrappers stacked directly on each other, then (often) executed
                for _ in range(rng.choice([1, 1, 2])):
                    ops.append(("metadata", n_streams - 1, rng.choice([{}, {}, {"k": "v"}])))
                    n_streams += 1
                if rng.random() < 0.6:
                    ops.append(("value", n_streams - 1, None, None, "ok"))
        elif r < 0.72:
            if last_q is not None and rng.random() < 0.3:
                d = dict(last_q)  # repeat the same dictionary (equal values)
            elif len(q_hist) >= 2 and rng.random() < 0.35:
                d = dict(rng.choice(q_hist[:-1]))  # set keys back to values they had before the last change (A, B, A)
            else:
                d = {}
                for k in rng.sample(KEYS, rng.choice([1, 1, 2, 3])):
                    # falsy values are values too; 1 / True / 1.0 and 0 / False are equal but not the same value
                    d[k] = rng.choice([1, 2, 3, 0, "fast", "slow", "x", "", True, False, 1.0, 1, 0])
                    if rng.random() < 0.25:
                        # ... and so are containers of them, at any depth ([1] / [True] / [1.0]; wave-10 review of fb34376)
                        d[k] = rng.choice([[1], [True], [1.0], (1,), (True,), {"n": 1}, {"n": 1.0}, {"n": True}, [[0]], [[False]], [1, "x"], [True, "x"]])
            last_q = d
            q_hist.append(d)
            ops.append(("qmeta", s, d))
            n_streams += 1
        elif r < 0.8:
            kind = rng.choice(["AsPandasDF", "AsAwkwardArray", "AsROOTTTree", "AsParquetFiles"])
            cols = rng.choice(["col", ["a", "b"], []])
            if kind == "AsROOTTTree":
                args = ("f.root", "tree", cols)
            elif kind == "AsParquetFiles":
                args = ("f.parquet", cols)
            else:
                args = (cols,)
            ops.append(("terminal", s, kind, args))
            n_streams += 1
        elif r < 0.93:
            override = rng.choice([None, None, None, 1000 + rng.randrange(3)])
            title = rng.choice([None, None, "t1", "title two"])
            outcome = rng.choice(["ok", "ok", "ok", "raise"])
            ops.append(("value", s, override, title, outcome))
        else:
            k = rng.choice([2, 3, 4])
            calls = []
            for _ in range(k):
                calls.append((rng.randrange(n_streams), rng.choice([None, None, 1000 + rng.randrange(3)]),
                              rng.choice([None, "g"]), rng.choice(["ok", "ok", "raise"])))
            perm = list(range(k))
            rng.shuffle(perm)
            ops.append(("gather", calls, perm))
    return ops


class ExecError(Exception):
    pass


def literal_enc(v) -> str:
    return enc(ast.parse(repr(v), mode="eval").body)


def type_name(t) -> str:
    return getattr(t, "__name__", None) or str(t).replace("typing.", "")


def lean_ops(ops, types=None) -> str:
    """history in the wire format of the Lean driver (gather = its value ops in start order).
    `types`: item-type names of the streams in creation order (the stream model stores the type it
    is given; type following itself is C08's model)."""
    out = []
    n_stream = 0

    def ty():
        nonlocal n_stream
        t = types[n_stream] if types and n_stream < len(types) else "Any"
        n_stream += 1
        return q(t)

    for op in ops:
        k = op[0]
        if k == "dataset":
            n_args = op[1] if len(op) > 1 else 0
            out.append(f'(dataset {ty()} ({" ".join(enc(a) for a in ROOT_ARGS[:n_args])}))')
        elif k == "derive":
            out.append(f'(derive {op[1]} {q(op[2])} ({enc(parse_expr(op[3]))}) {ty()})')
        elif k == "metadata":
            out.append(f'(derive {op[1]} "MetaData" ({literal_enc(op[2])}) {ty()})')
        elif k == "qmeta":
            md = " ".join(f"({q(key)} {pyval_sexpr(v)})" for key, v in op[2].items())
            ty()
            out.append(f"(qmeta {op[1]} ({md}))")
        elif k == "terminal":
            kind, args = op[2], op[3]
            name = {"AsPandasDF": "ResultPandasDF", "AsAwkwardArray": "ResultAwkwardArray", "AsROOTTTree": "ResultTTree",
                    "AsParquetFiles": "ResultParquet"}[kind]
            norm = lambda c: [c] if isinstance(c, str) else c  # noqa: E731
            if kind == "AsROOTTTree":
                vals = [norm(args[2]), args[1], args[0]]
            elif kind == "AsParquetFiles":
                vals = [norm(args[1]), args[0]]
            else:
                vals = [norm(args[0])]
            ty()
            out.append(f'(terminal {op[1]} {q(name)} ({" ".join(literal_enc(v) for v in vals)}))')
        elif k == "value":
            out.append(f'(value {op[1]} {op[2] if op[2] is not None else "none"} {q(op[3]) if op[3] is not None else "none"})')
        elif k == "gather":
            for (s, o, t, _) in op[1]:
                out.append(f'(value {s} {o if o is not None else "none"} {q(t) if t is not None else "none"})')
    return "(" + " ".join(out) + ")"


def lean_events(ops, types, gathers) -> str:
    """the history as events of the concurrent model (Model/Concurrent.lean): sequential operations as they are, a batch of
    concurrently awaited value_async calls as its starts (in start order) followed by the completions in the order the
    harness released them, each with the outcome of ITS executor invocation (ret n / raise n, n = invocation number)"""
    seq = lean_ops([o for o in ops if o[0] != "gather"], types)
    # lean_ops consumed the types in creation order; gathers create no stream, so the rendering of the others is unchanged
    from sexpr import parse as sparse, render

    rendered = [render(x) for x in sparse(seq)]
    out, k, g = [], 0, 0
    for op in ops:
        if op[0] == "gather":
            _, n_before, _kinds = gathers[g]
            g += 1
            calls, perm = op[1], op[2]
            for (s_, o_, t_, _oc) in calls:
                out.append(f'(start {s_} {o_ if o_ is not None else "none"} {q(t_) if t_ is not None else "none"})')
            for j in perm:
                outcome = calls[j][3]
                out.append(f'(complete {n_before + j} ({"ret" if outcome == "ok" else "raise"} {n_before + j}))')
        else:
            out.append(rendered[k])
            k += 1
    return "(" + " ".join(out) + ")"


def ref_strip_empty(n):
    "declarative reference for remove_empty_metadata (same as in props/c15.py)"
    if isinstance(n, ast.AST):
        new = copy.copy(n)
        for f, v in ast.iter_fields(n):
            if isinstance(v, list):
                setattr(new, f, [ref_strip_empty(x) for x in v])
            elif isinstance(v, ast.AST):
                setattr(new, f, ref_strip_empty(v))
        if (isinstance(new, ast.Call) and isinstance(new.func, ast.Name) and new.func.id == "MetaData" and len(new.args) == 2):
            try:
                d = ast.literal_eval(new.args[1])
            except Exception:
                return new
            if isinstance(d, dict) and len(d) == 0:
                return new.args[0]
        return new
    return n


def clone_tree(node):
    "new node and list objects all the way down; non-field attributes (executor, dataset object, query metadata) by reference"
    if isinstance(node, ast.AST):
        new = type(node)()
        for k, v in vars(node).items():
            setattr(new, k, clone_tree(v) if k in node._fields else v)
        return new
    if isinstance(node, list):
        return [clone_tree(x) for x in node]
    return node


def scramble_in_place(tree):
    "what a careless backend does to ITS argument: every node and every list object reachable from it is edited in place"
    for n in list(ast.walk(tree)):
        if isinstance(n, ast.Name):
            n.id = n.id + "_rewritten"
        elif isinstance(n, ast.Attribute):
            n.attr = n.attr + "_rewritten"
        elif isinstance(n, ast.Constant):
            n.value = ("rewritten", n.value)
        elif isinstance(n, ast.Lambda):
            n.args.args.clear()
        elif isinstance(n, ast.Dict):
            n.keys.clear()
            n.values.clear()
    for n in list(ast.walk(tree)):
        if isinstance(n, ast.Call):
            n.args.reverse()
            n.args.append(ast.Constant(value="appended"))
            n.keywords.clear()


class Runner:
    """Runs one history on the real library, checks the oracles after every step and collects the
    observation the Lean model must reproduce."""

    def __init__(self, ctx, ops, focus: str):
        from func_adl import EventDataset
        from func_adl.ast.meta_data import lookup_query_metadata
        from func_adl.ast.ast_hash import calc_ast_hash

        self.ctx, self.ops, self.focus = ctx, ops, focus
        import random as _random

        self.scramble_rng = _random.Random(repr(ops))  # a function of the history, so that a replay does the same
        self.gathers: List[tuple] = []    # (step, index of the first invocation, what each task got) per concurrent batch
        self.lookup = lookup_query_metadata
        self.hash = calc_ast_hash
        runner = self

        class DS(EventDataset):
            def __init__(self, idx, log, n_args=0):
                super().__init__()
                self.idx, self.log = idx, log
                # a dataset class may carry arguments on its root node (as tests/test_event_dataset.py my_event_extra_args)
                self.query_ast.args.extend(copy.deepcopy(ROOT_ARGS[:n_args]))

            async def execute_result_async(self, a, title=None):
                # identity matters: a derived stream is a shallow copy of the dataset object
                if self is not runner.roots.get(self.idx):
                    runner.ctx.violate({**runner.case, "dataset": self.idx},
                                       "C12: the executor invoked is not the one of the dataset OBJECT at the root of the stream (a copy of it ran)")
                return await runner.executor_body(self.idx, a, title)

        self.DS = DS
        self.streams: List[Any] = []
        self.twins: List[Any] = []        # same chain without QMetaData (C16)
        self.ds_of: List[int] = []        # ghost: stream index of the root dataset
        self.path: List[List[dict]] = []  # ghost: QMetaData dicts on the path, most recent first
        self.snap: List[tuple] = []       # (dump, item_type) at creation
        self.calls: List[tuple] = []      # (executor id, received ast, title)
        self.pending: List[asyncio.Future] = []
        self.obs: List[str] = []
        self.case = {"ops": repr(ops)}

    # executors -----------------------------------------------------------------------------------
    async def executor_body(self, exe_id, a, title):
        # A backend may rewrite the tree it is handed in place (the library's own extract_metadata does).  What the
        # executor RECEIVED is kept as a structural copy (annotations by reference); the received object itself is then
        # scrambled on about half of the executions: no stream's query may change because of it (C11).
        kept = clone_tree(a)
        if self.scramble_rng.random() < 0.5:
            scramble_in_place(a)
            self.ctx.dist["executor rewrote the received tree in place"] += 1
        a = kept
        self.calls.append((exe_id, a, title))
        n = len(self.calls) - 1
        mode = self.modes[n] if n < len(self.modes) else ("ok", None)
        if mode[1] is not None:
            await mode[1]  # a future resolved later, in the permuted order
        if mode[0] == "raise":
            raise self.excs.setdefault(n, ExecError(f"boom-{n}"))
        return ("result", n)

    def override(self, oid):
        async def exe(a, title=None):
            return await self.executor_body(oid, a, title)

        return exe

    # observation -----------------------------------------------------------------------------------
    def observe(self) -> str:
        parts = []
        for i, s in enumerate(self.streams):
            try:
                e = s._get_executor()
                exe = str(e.__self__.idx)
            except Exception as ex:  # pragma: no cover
                exe = q(impl.classify_exc(ex))
            looks = []
            for k in KEYS:
                v = self.lookup(s, k)
                looks.append("absent" if v is None else pyval_sexpr(v))
            parts.append(f'({enc(s.query_ast)} {q(type_name(s.item_type))} {exe} ({" ".join(looks)}))')
        calls = []
        for (eid, a, t) in self.calls:
            calls.append(f'({eid} {enc(a)} {q(t) if t is not None else "none"})')
        return "((" + " ".join(parts) + ") (" + " ".join(calls) + "))"

    # oracles ----------------------------------------------------------------------------------------
    def check_all(self, step_no, op):
        ctx = self.ctx
        for i, s in enumerate(self.streams):
            d = ast.dump(s.query_ast)
            if (d, s.item_type) != self.snap[i]:
                ctx.violate({**self.case, "step": step_no, "op": repr(op), "stream": i, "before": self.snap[i][0][:300], "after": d[:300]},
                            "C11: the query AST / item type observed on an existing stream changed")
                self.snap[i] = (d, s.item_type)
            # C16: lookups follow the most recent write on the own path
            for k in KEYS:
                want = None
                for md in self.path[i]:
                    if k in md:
                        want = md[k]
                        break
                got = self.lookup(s, k)
                if got != want or type(got) is not type(want) or (want is not None and pyval_sexpr(got) != pyval_sexpr(want)):
                    ctx.violate({**self.case, "step": step_no, "stream": i, "key": k, "got": repr(got), "want": repr(want)},
                                "C16: lookup is not the value most recently set on the stream's own derivation path")
            # C16: invisible to dump / hash
            td = ast.dump(self.twins[i].query_ast)
            if td != d or self.hash(self.twins[i].query_ast) != self.hash(s.query_ast):
                ctx.violate({**self.case, "step": step_no, "stream": i},
                            "C16: query differs (dump/hash) from the same chain built without QMetaData")
            # C12: executor of the root dataset
            try:
                e = s._get_executor()
                if e.__self__ is not self.roots[self.ds_of[i]]:
                    ctx.violate({**self.case, "step": step_no, "stream": i, "got": e.__self__.idx, "want": self.ds_of[i]},
                                "C12: _get_executor does not return the executor of the stream's own root dataset")
            except Exception as ex:
                ctx.violate({**self.case, "step": step_no, "stream": i}, f"C12: _get_executor raised {type(ex).__name__}")

    def check_call(self, step_no, s_idx, override, title, n_before, result, exc, outcome):
        ctx = self.ctx
        new = self.calls[n_before:]
        if len(new) != 1:
            ctx.violate({**self.case, "step": step_no, "stream": s_idx, "calls": len(new)},
                        "C12: value() did not invoke exactly one executor exactly once")
            return
        eid, a, t = new[0]
        want_exe = override if override is not None else self.ds_of[s_idx]
        if eid != want_exe:
            ctx.violate({**self.case, "step": step_no, "stream": s_idx, "got": eid, "want": want_exe}, "C12: wrong executor invoked")
        want_ast = ast.dump(ref_strip_empty(self.streams[s_idx].query_ast))
        if ast.dump(a) != want_ast:
            ctx.violate({**self.case, "step": step_no, "stream": s_idx, "got": ast.dump(a)[:300], "want": want_ast[:300]},
                        "C12: executor did not receive the stream's query with only the empty MetaData wrappers removed")
        twin_ast = ast.dump(ref_strip_empty(self.twins[s_idx].query_ast))
        if ast.dump(a) != twin_ast:
            ctx.violate({**self.case, "step": step_no, "stream": s_idx}, "C16: executor argument differs from the QMetaData-free chain")
        if t != title:
            ctx.violate({**self.case, "step": step_no, "got": t, "want": title}, "C12: title not passed through")
        n = n_before
        if outcome == "ok":
            if exc is not None or result != ("result", n):
                ctx.violate({**self.case, "step": step_no, "result": repr(result), "exc": repr(exc)}, "C12: value() did not return what the executor returned")
        else:
            if exc is None or exc is not self.excs.get(n):
                ctx.violate({**self.case, "step": step_no, "result": repr(result), "exc": repr(exc)}, "C12: value() did not raise exactly what the executor raised")
        # the root dataset node is recoverable from the query handed over
        from func_adl import find_EventDataset

        try:
            node = find_EventDataset(a)
            if getattr(node, "_eds_object", None) is not self.roots[self.ds_of[s_idx]]:
                ctx.violate({**self.case, "step": step_no, "stream": s_idx}, "C12: find_EventDataset does not return this stream's root dataset node")
        except Exception as ex:
            ctx.violate({**self.case, "step": step_no, "stream": s_idx}, f"C12: find_EventDataset raised {type(ex).__name__}")

    # running ----------------------------------------------------------------------------------------
    def add(self, stream, twin, ds, path):
        self.streams.append(stream)
        self.twins.append(twin)
        self.ds_of.append(ds)
        self.path.append(path)
        self.snap.append((ast.dump(stream.query_ast), stream.item_type))

    def run(self):
        ctx = self.ctx
        self.modes: List[tuple] = []
        self.excs = {}
        self.roots = {}
        loop = asyncio.new_event_loop()
        try:
            for step_no, op in enumerate(self.ops):
                k = op[0]
                n_before = len(self.calls)
                try:
                    if k == "dataset":
                        idx = len(self.streams)
                        n_args = op[1] if len(op) > 1 else 0
                        d, t = self.DS(idx, self.calls, n_args), self.DS(idx, self.calls, n_args)
                        self.roots[idx] = d
                        self.add(d, t, idx, [])
                    elif k == "derive":
                        s = op[1]
                        self.add(getattr(self.streams[s], op[2])(op[3]), getattr(self.twins[s], op[2])(op[3]), self.ds_of[s], self.path[s])
                    elif k == "metadata":
                        s = op[1]
                        self.add(self.streams[s].MetaData(op[2]), self.twins[s].MetaData(op[2]), self.ds_of[s], self.path[s])
                    elif k == "qmeta":
                        s = op[1]
                        self.add(self.streams[s].QMetaData(dict(op[2])), self.twins[s], self.ds_of[s], [dict(op[2])] + self.path[s])
                    elif k == "terminal":
                        s = op[1]
                        self.add(getattr(self.streams[s], op[2])(*op[3]), getattr(self.twins[s], op[2])(*op[3]), self.ds_of[s], self.path[s])
                    elif k == "value":
                        _, s, override, title, outcome = op
                        while len(self.modes) < len(self.calls):
                            self.modes.append(("ok", None))
                        self.modes.append((outcome, None))
                        result = exc = None
                        try:
                            if ctx.rng.random() < 0.5:
                                result = self.streams[s].value(executor=self.override(override) if override is not None else None, title=title)
                            else:
                                result = loop.run_until_complete(self.streams[s].value_async(
                                    executor=self.override(override) if override is not None else None, title=title))
                        except ExecError as e:
                            exc = e
                        self.check_call(step_no, s, override, title, n_before, result, exc, outcome)
                    elif k == "gather":
                        _, calls, perm = op
                        while len(self.modes) < len(self.calls):
                            self.modes.append(("ok", None))
                        futs = [loop.create_future() for _ in calls]
                        for (s, o, t, outcome), f in zip(calls, futs):
                            self.modes.append((outcome, f))

                        async def go():
                            tasks = [asyncio.ensure_future(self.streams[s].value_async(
                                executor=self.override(o) if o is not None else None, title=t)) for (s, o, t, _) in calls]
                            await asyncio.sleep(0)
                            for _ in range(3):
                                await asyncio.sleep(0)
                            for j in perm:
                                futs[j].set_result(None)
                                await asyncio.sleep(0)
                            return await asyncio.gather(*tasks, return_exceptions=True)

                        results = loop.run_until_complete(go())
                        # what each awaiting task got, named by the executor invocation that produced it (for the event model)
                        kinds = []
                        for r_ in results:
                            if isinstance(r_, tuple) and len(r_) == 2 and r_[0] == "result":
                                kinds.append(f"(ret {r_[1]})")
                            else:
                                n_exc = next((n_ for n_, e_ in self.excs.items() if e_ is r_), None)
                                kinds.append(f"(raise {n_exc})" if n_exc is not None else f"other:{r_!r}")
                        self.gathers.append((step_no, n_before, kinds))
                        new = self.calls[n_before:]
                        if len(new) != len(calls):
                            ctx.violate({**self.case, "step": step_no, "calls": len(new), "want": len(calls)},
                                        "C12: concurrently awaited value_async calls did not invoke one executor each")
                        else:
                            for j, ((s, o, t, outcome), r) in enumerate(zip(calls, results)):
                                n = n_before + j
                                eid, a, tt = self.calls[n]
                                want_exe = o if o is not None else self.ds_of[s]
                                ok = eid == want_exe and tt == t and ast.dump(a) == ast.dump(ref_strip_empty(self.streams[s].query_ast))
                                if outcome == "ok":
                                    ok = ok and r == ("result", n)
                                else:
                                    ok = ok and r is self.excs.get(n)
                                if not ok:
                                    ctx.violate({**self.case, "step": step_no, "call": j, "perm": perm, "result": repr(r)},
                                                "C12: under concurrent execution a call got the wrong executor / query / title / outcome")
                except Exception as ex:
                    if isinstance(ex, (KeyboardInterrupt, SystemExit)):
                        raise
                    ctx.violate({**self.case, "step": step_no, "op": repr(op)}, f"operation raised {type(ex).__name__}: {ex}")
                    return None
                if k not in ("value", "gather") and len(self.calls) != n_before:
                    ctx.violate({**self.case, "step": step_no, "op": repr(op)}, "C12: an executor was invoked while the query was being built")
                self.check_all(step_no, op)
                if k == "gather":
                    # one observation per value op, to line up with the Lean trace: intermediate states = final state
                    # restricted to the calls made so far
                    full = self.calls
                    for j in range(len(op[1])):
                        self.calls = full[: n_before + j + 1]
                        self.obs.append(self.observe())
                    self.calls = full
                else:
                    self.obs.append(self.observe())
        finally:
            loop.close()
        return "(" + " ".join(self.obs) + ")"


def extra_root_checks(ctx):
    "queries with no root or several roots are rejected (C12) – also through the Lean model"
    from func_adl import find_EventDataset

    reqs = []
    for src, n_roots in [("Select(x, lambda e: e.y)", 0), ("Select(EventDataset(), lambda e: EventDataset())", 2),
                         ("f(EventDataset(), EventDataset())", 2), ("EventDataset()", 1),
                         ("Where(Select(EventDataset(), lambda e: e.x), lambda y: y > EventDataset)", 1),
                         ("EventDataset(EventDataset())", 1), ("x.EventDataset()", 0)]:
        a = parse_expr(src)
        try:
            find_EventDataset(a)
            got = ("ok", "unit")
        except Exception as ex:
            got = ("err", impl.classify_exc(ex))
        ctx.count("findEDS:" + src, True, tags=["find_EventDataset"])
        if (got[0] == "ok") != (n_roots == 1):
            ctx.violate({"src": src, "roots": n_roots}, f"C12: find_EventDataset verdict {got} for a query with {n_roots} root(s)")
        reqs.append((src, got, ("findEDS", [enc(a)])))
    res = ctx.driver.batch([r[2] for r in reqs])
    for (src, got, _), m in zip(reqs, res):
        if tuple(m) != tuple(got):
            ctx.disagree("findEventDataset", {"src": src}, got, m)


def run_histories(ctx, n_hist: int, focus: str):
    extra_root_checks(ctx)
    reqs, keep, runners = [], [], []
    for _ in range(n_hist):
        ops = gen_history(ctx.rng, ctx.rng.choice([4, 8, 12, 20]))
        r = Runner(ctx, ops, focus)
        obs = r.run()
        kinds = [o[0] for o in ops]
        ctx.count(repr(ops), len(ops) >= 4, sample={"ops": repr(ops)[:600]},
                  tags=["ops=" + str(min(len(ops) // 5 * 5, 20))] + [f"has-{k}" for k in set(kinds)])
        if obs is None:
            continue
        reqs.append(("history", [lean_ops(ops, [type_name(s.item_type) for s in r.streams]), "(" + " ".join(q(k) for k in KEYS) + ")"]))
        keep.append((ops, obs))
        runners.append(r)
    # concurrent batches against the event model: every task must have got what ITS OWN invocation produced, whatever the
    # completion order (theorems task_gets_own_outcome, conc_state)
    creqs, ckeep = [], []
    for (ops, obs), r in zip(keep, runners):
        if r.gathers and len(r.gathers) == sum(1 for o in ops if o[0] == "gather"):
            creqs.append(("conc", [lean_events(ops, [type_name(s.item_type) for s in r.streams], r.gathers), "(" + " ".join(q(k) for k in KEYS) + ")"]))
            ckeep.append((ops, obs, r))
    for (ops, obs, r), (st, payload) in zip(ckeep, ctx.driver.batch(creqs)):
        ctx.dist["concurrent histories compared with the event model"] += 1
        try:
            from sexpr import parse as sparse, render

            final, done, n_pending = sparse(payload) if st == "ok" else (None, None, None)
        except Exception:
            final = None
        if st != "ok" or final is None:
            ctx.disagree("concurrent-history", {"ops": repr(ops)}, "driver refused", (st, payload[:200]))
            continue
        want_final = sparse(obs)[-1]
        if final != want_final:
            ctx.disagree("concurrent-history", {"ops": repr(ops)}, "final state differs", render(final)[-300:])
            continue
        got = {int(d[0]): render(d[1]) for d in done}
        task = 0
        for (_step, n_before, kinds) in r.gathers:
            for j, kind in enumerate(kinds):
                want = f"(got {n_before + j} {kind})"
                if got.get(task) != want:
                    ctx.disagree("concurrent-history", {"ops": repr(ops)}, f"task {task}: the awaiting call got {kind}", f"model: {got.get(task)}")
                task += 1
        if str(n_pending) != "0":
            ctx.disagree("concurrent-history", {"ops": repr(ops)}, "all tasks finished", f"model has {n_pending} pending")
    res = ctx.driver.batch(reqs)
    for (ops, obs), (st, payload) in zip(keep, res):
        if st != "ok" or payload != obs:
            # find the first differing step for the report
            where = "?"
            try:
                from sexpr import parse as sparse, render

                a, b = sparse(obs), sparse(payload)
                for i, (x, y) in enumerate(zip(a, b)):
                    if x != y:
                        where = f"step {i}: "
                        for j, (sx, sy) in enumerate(zip(x[0], y[0])):
                            if sx != sy:
                                where += f"stream {j}: impl {render(sx)[-300:]} | model {render(sy)[-300:]}"
                                break
                        else:
                            where += f"calls: impl {render(x[1])[-400:]} | model {render(y[1])[-400:]}"
                        break
            except Exception:
                pass
            ctx.disagree("stream-history", {"ops": repr(ops)}, where, st)
