"""Captured variables and captured helpers (C04, C05): generated modules with closures, globals,
class constants, module attributes, enums and one-line helpers; execution on the real library;
semantic oracle (the original Python lambda run by CPython vs the recorded lambda); rebinding
histories; correspondence with the Lean model (Model/Capture.lean, Model/Called.lean)."""
from __future__ import annotations

import ast
import copy
import dataclasses
import enum
import types
from typing import Any, Dict, List, Optional, Tuple

import impl  # noqa: F401
import pyworld
import srcmod
from astcodec import Unsupported, const_tag, enc, enc_const
from common import rich_dataset
from gen.data import gen_dataset
from gen.expr import Gen, Opt
from sexpr import q

HEADER = '''import math
import enum
from dataclasses import dataclass
from typing import NamedTuple

G1 = 5
G2 = 12
# module globals spelled like typical lambda parameters: parameters must win over them
e = 2.718
x = 41
a = 42
q = 43
j = 44
t = 45
# module globals spelled like the locals of the function that builds the query (build's c1, c2): the local wins
c1 = -990
c2 = -991
GS = "pt"
GL = [1, 2]
GNONE = None
GF = 2.5


class Cfg:
    threshold = 30

    class Inner:
        deep = 4


class Tight(Cfg):
    pass


class Tighter(Tight):
    extra = 9


class Color(enum.Enum):
    RED = 1
    BLUE = 2


class NSP:  # stands for a C++ namespace a module may declare for its enums (_object_cpp_as_py_namespace)
    Color = Color


@dataclass
class Pair:
    a: int
    b: int = 7


class NT(NamedTuple):
    x: int
    y: int


def h1(x): return x + 1
def h2(a, b): return a * 2 - b
def ident(x): return x
def h3(x): return h1(x) * 2 + h2(x, 1)
def hkw(x): return h2(b=x, a=G2)
def hkw2(x, y): return h1(x) + hkw(y) + h2(b=1, a=y)
def hsel(s, k): return s.Where(lambda v: v > k).Count()
def hshadow(x): return h1((lambda x: x + 100)(x)) + x
# parameters that are not plain positional ones: keyword-only, positional-only, *args (wave-8 audit: such helpers were inlined
# by counting the plain parameters only, the others stayed behind as free names)
def hko(x, *, k=3): return x * k + 1
def hpo(x, /, y=2): return x - y
def hva(x, *rest): return x * 2 + 1


hl = lambda q: q + G2  # noqa: E731


def sel_twice(e): return e.met + G1 * 100 + Cfg.threshold


def not_inlinable(x):
    y = x + 1
    return y
'''

# Tight / Tighter inherit their constants from Cfg: an inherited class constant is a class constant
CAPTURED_INTS = ("G1", "G2", "c1", "c2", "Cfg.threshold", "Cfg.Inner.deep", "Tight.threshold", "Tighter.Inner.deep", "Tighter.extra")
# hkw / hkw2: a keyword call (not inlinable positionally) INSIDE a helper that is inlined, its arguments mentioning the helper's parameter
HELPERS = (("h1", 1), ("h2", 2), ("ident", 1), ("h3", 1), ("hl", 1), ("hshadow", 1), ("not_inlinable", 1), ("hkw", 1), ("hkw2", 2))
# binder names that collide with captured names.  Names that occur FREE in a helper body (h1, h2 in h3; G2 in hl)
# are kept out: a call-site binder of that name would capture them (known finding, see below); names bound INSIDE a
# helper (v in hsel) are allowed since the fix that renames such locals
SHADOW_NAMES = ("G1", "c1", "ident", "x", "a", "q", "Cfg", "e", "e", "j", "t", "v", "v", "h1", "G2", "h2")


def comp_template(rng) -> str:
    """comprehensions whose loop variable is spelled like a captured name (closure cell, module global, class): the
    iterable is evaluated in the ENCLOSING scope (the captured value), the element and the conditions see the loop
    variable"""
    t = rng.choice(["G1", "c1", "c2", "x", "G2", "Cfg"])
    use = f"{t}.threshold" if t == "Cfg" else t
    it = rng.choice([f"e.nums.Where(lambda n: n > {use} - 30)", f"e.nums.Select(lambda n: n + {use})",
                     f"e.jets.Where(lambda k: k.pt > {use}).Select(lambda k: k.n)", f"[n * {use} for n in e.nums]",
                     f"e.nums.Where(lambda {t}: {t} > 1)", "e.nums"])
    cond = rng.choice(["", f" if {t} > 1", f" if {t} > G2 - 11", f" if {t} > 0 if {t} < 100"])
    elt = rng.choice([f"{t} + 1", f"{t} * G2", f"h1({t})", f"({t}, 1)[0]"])
    kind = rng.choice(["[{}]", "[{}]", "Count({})", "Count([{}])"])
    return kind.format(f"{elt} for {t} in {it}{cond}")


# names that are FREE in the bodies of the helpers above (the globals / other helpers they use)
HELPER_FREE = {"h1", "h2", "hkw", "G2", "G1", "Cfg"}


def reverse_capture_family(body: str) -> bool:
    """the call-site pattern of the open finding: a lambda parameter / comprehension variable of the passed lambda is
    spelled like a name that is free in the body of a helper the lambda calls (it captures that name after inlining)"""
    try:
        tree = ast.parse(body, mode="eval")
    except SyntaxError:
        return False
    binders = set()
    for n in ast.walk(tree):
        if isinstance(n, ast.Lambda):
            binders |= {a.arg for a in n.args.args}
        elif isinstance(n, ast.comprehension):
            binders |= {x.id for x in ast.walk(n.target) if isinstance(x, ast.Name)}
    calls = {n.func.id for n in ast.walk(tree) if isinstance(n, ast.Call) and isinstance(n.func, ast.Name)}
    free = {"h3": {"h1", "h2"}, "hkw": {"h2", "G2"}, "hkw2": {"h1", "hkw", "h2", "G2"}, "hl": {"G2"}, "hshadow": {"h1"},
            "sel_twice": {"G1", "Cfg"}}
    used = set().union(*[free.get(c, set()) for c in calls]) if calls else set()
    return bool(binders & used)


def gen_body(rng, focus: str = "") -> Tuple[str, set]:
    opt = Opt(form=rng.choice(["method", "mixed"]), comps=rng.random() < 0.4, comp_rate=0.2,
              naming=rng.choice(["mixed", "reuse", "distinct"]), max_depth=rng.choice([2, 3]),
              captured_ints=CAPTURED_INTS, helpers=HELPERS, extra_binder_names=SHADOW_NAMES,
              world_funcs=False, methods_with_args=False, called_lambda=rng.random() < 0.5)
    g = Gen(rng, opt)
    r = rng.random()
    scope = [("e", ("obj", "E"))]
    if r < 0.6:
        body = g.int_expr(scope, opt.max_depth)
    elif r < 0.8:
        body = g.expr(("tup", (("int",), ("int",))), scope, opt.max_depth)
    else:
        body = g.seq_expr(("int",), scope, opt.max_depth)
    extra = rng.random()
    if focus == "C06" and extra < 0.8 or extra > 0.93:
        body = f"({body}, {comp_template(rng)})"
        if rng.random() < 0.3:
            body = f"({comp_template(rng)}, {body})"
        g.features.add("comprehension")
    elif extra < 0.08:
        body = f"({body}, hsel(e.nums, G1 - 4))"
    elif extra < 0.14:
        body = f"({body}, [G1 + G1 for G1 in e.nums if G1 > c1])"
    elif extra < 0.2:
        body = f"({body}, h2(b=c1, a=G2), h2(c1, b=1))"
    elif extra < 0.25:
        body = f"({body}, Pair(G1, b=c2).b + NT(1, y=c1).y)"
    elif extra < 0.3:
        body = f"({body}, (e.met if GS == 'pt' else 0))"
    elif extra < 0.36:
        arg = rng.choice(["e.met", "c1 + 1", "G1"])
        body = rng.choice([f"({body}, hko({arg}, k=7), hko({arg}))", f"(hpo({arg}, y=1) + hpo({arg}), {body})", f"({body}, hva({arg}, 1, 2) + hva({arg}))",
                           f"({body}, hko({arg}) + hva({arg}))"])
    elif extra < 0.40:
        # a callee that resolves to a real Python callable (module function): the call stays, but the captured variables and
        # nested lambdas INSIDE its arguments are frozen like everywhere else (seed C04-w6-2)
        arg = rng.choice(["e.met * c1 + G1", "c2", "Count(e.jets.Where(lambda j: j.pt > c1)) + G2", "h1(c1) + e.run",
                          "(lambda t: t + c2)(e.met)", "Cfg.threshold + c1"])
        body = rng.choice([f"({body}, math.gcd({arg}, G1 + 7))", f"(math.floor({arg}) + c2, {body})",
                           f"({body}, math.gcd(b=c1 + 3, a={arg}))" if False else f"({body}, math.gcd(c1 + 3, {arg}))"])
    elif extra < 0.44:
        # enum members stay references by name (resolved by the backend); their use must not disturb anything else
        body = rng.choice([f"({body}, (e.met if Color.RED == Color.RED else 0))", f"({body}, Color.BLUE.value + c1)",
                           f"((1 if Color.RED != Color.BLUE else G1), {body})"])
    elif extra < 0.5:
        # leave an inner scope that re-used a live name, then use the outer variable again (bare)
        v = rng.choice(["e", "e", "x"])
        inner = rng.choice([f"e.jets.Select(lambda {v}: {v}.pt).Count()", f"Count([{v}.pt for {v} in e.jets if {v}.n > c1])",
                            f"(lambda {v}: {v} + 1)(e.met)"])
        later = rng.choice(["ident(e).met", "(e, G1)[0].run", "h1(ident(e).met)", "Count(ident(e).nums)"])
        body = rng.choice([f"({inner} + {later}, {body})", f"({body}, {inner}, {later})"])
    elif extra < 0.64:
        # a call that cannot be inlined positionally (keywords) inside something that IS inlined, mentioning its parameter
        v, w = rng.sample(["q", "a", "x", "t", "k"], 2)
        arg = rng.choice(["e.met", "e.run + c1", "G1", "Count(e.nums)"])
        inner = rng.choice([
            f"(lambda {v}: (lambda {w}: {w} + 1)({w}={v}))({arg})",
            f"(lambda {v}, {w}: (lambda b, a: a * 3 - b)(a={v}, b={w}))({arg}, c1)",
            f"(lambda {v}: h2(b={v}, a=1) + (lambda {w}: {w} * 2)({w}={v} + 1))({arg})",
            f"hkw({arg}) + hkw2({arg}, c2)",
            f"(lambda {v}: hkw({v}) + {v})({arg})",
        ])
        body = f"({body}, {inner})"
    elif extra < 0.56 + 0.14:
        # a parameter of an enclosing lambda used as a bare name inside a nested lambda, where the module has a
        # global of the same name (e, x, a, q, j, t are all module globals): the parameter must win at every depth
        v, w = rng.sample(["j", "x", "a", "q", "t"], 2)
        bare = rng.choice(["ident(e).met", "(e, G1)[0].run", "h1(ident(e).met)", "Count(ident(e).nums)", "[e, e][1].met"])
        inner = rng.choice([
            f"e.jets.Select(lambda {v}: {v}.pt + {bare}).Count()",
            f"e.jets.Where(lambda {v}: {v}.pt > {bare}).Count()",
            f"e.nums.Select(lambda {v}: e.jets.Where(lambda {w}: {w}.n > {v}).Count() + {v}).Count()",
            f"e.nums.Select(lambda {v}: e.jets.Select(lambda {w}: ({w}.pt, {v}, {bare})[1]).Count()).Count()",
            f"(lambda {v}: (lambda {w}: {w} + {v} + {bare})(c1))(G1)",
        ])
        body = f"({body}, {inner})"
    return body, g.features


def make_case_module(rng, body: str):
    hint = rng.choice(["", "", "_object_cpp_as_py_namespace = ''\n", "_object_cpp_as_py_namespace = 'NSP'\n"]) if "Color." in body else ""
    if ".value" in body and "NSP" in hint:
        # an attribute OF a prefixed member (Color.BLUE.value): the implementation's visit_Attribute hands back its own,
        # unedited node, so the prefix is lost there; the model has no notion of node identity for this - not generated
        hint = ""
    text = HEADER + hint + f'''

def build(ds, c1):
    c2 = c1 + 1
    ref = (lambda e: {body})
    s = ds.Select(lambda e: {body})
    return s, ref
'''
    return srcmod.make_module(text, "cap"), text


class _RecDS:
    pass


def _dataset_cls():
    from func_adl import EventDataset

    class DS(EventDataset):
        last_f = None

        async def execute_result_async(self, a, title=None):
            return a

        def Select(self, f, *a, **k):  # record the callable that was passed
            type(self).last_f = f
            return super().Select(f, *a, **k)

    return DS


def classify(v) -> Tuple[str, Any]:
    "how visit_Name treats a captured value (mirrors util_ast._rewrite_captured_vars.visit_Name)"
    from func_adl.util_ast import _parse_source_for_lambda

    if isinstance(v, type) or isinstance(v, types.ModuleType):
        return "klass", v
    if not callable(v):
        return "lit", v
    try:
        lm = _parse_source_for_lambda(v, None)
    except Exception:
        lm = None
    if lm is not None:
        return "lam", lm
    return "keep", None


def snapshot_for(f, src_lambda: ast.AST):
    "(snapshot, attr table, ctor tags) S-expressions for the names / attributes that occur in the source lambda"
    from func_adl.util_ast import global_getclosurevars

    cv = global_getclosurevars(f)
    # Python's scoping: a variable of an enclosing function hides a module global of the same name
    lookup = dict(cv.globals)
    lookup.update(cv.nonlocals)
    names = {n.id for n in ast.walk(src_lambda) if isinstance(n, ast.Name)}
    attrs_used = {n.attr for n in ast.walk(src_lambda) if isinstance(n, ast.Attribute)}
    snap = []
    objs: Dict[str, Any] = {}
    for name in sorted(names):
        if name not in lookup:
            continue
        kind, val = classify(lookup[name])
        if kind == "klass":
            snap.append(f"({q(name)} (klass {enc_const(val)}))")
            objs[const_tag(val)] = val
        elif kind == "lit":
            snap.append(f"({q(name)} (lit {enc_const(val)}))")
            if enc_const(val).startswith("(opaque"):
                objs[const_tag(val)] = val
        elif kind == "lam":
            snap.append(f"({q(name)} (lam {enc(val)}))")
        else:
            snap.append(f"({q(name)} keep)")
    table = []
    frontier = dict(objs)
    for _ in range(3):
        nxt = {}
        for tag, o in frontier.items():
            for a in sorted(attrs_used):
                if not hasattr(o, a):
                    continue
                nv = getattr(o, a)
                if isinstance(o, enum.EnumMeta):
                    # an Enum member stays a reference by name; a module that declares _object_cpp_as_py_namespace = "NS"
                    # gets it prefixed (NS.Color.RED), "" or no declaration leave the node as written
                    import importlib

                    ns_hint = getattr(importlib.import_module(o.__module__), "_object_cpp_as_py_namespace", None) \
                        if isinstance(nv, o) else None
                    via = next((nm for nm in sorted(names) if lookup.get(nm) is o), None)
                    if ns_hint and via is not None:
                        table.append(f"({q(tag)} {q(a)} (expr {enc(ast.parse(f'{ns_hint}.{via}.{a}', mode='eval').body)}))")
                    else:
                        table.append(f"({q(tag)} {q(a)} keepNode)")
                    continue
                c = enc_const(nv)
                table.append(f"({q(tag)} {q(a)} (const {c}))")
                if c.startswith("(opaque"):
                    t2 = const_tag(nv)
                    if t2 not in objs:
                        objs[t2] = nv
                        nxt[t2] = nv
        frontier = nxt
    ctors = [t for t, o in objs.items() if isinstance(o, type) and (dataclasses.is_dataclass(o) or hasattr(o, "_fields"))]
    return "(" + " ".join(snap) + ")", "(" + " ".join(table) + ")", "(" + " ".join(q(t) for t in ctors) + ")"


def eval_recorded(lam_node: ast.Lambda, mod, event):
    "evaluate the recorded lambda on one event in CPython; names left by name resolve to the module's current objects"
    env = {k: v for k, v in vars(mod).items() if not k.startswith("__")}
    fn = pyworld.py_eval(lam_node, None, extra=env)
    return pyworld.from_world(fn(event))


REBINDS = [
    ("G1", 500), ("G2", -3), ("Cfg.threshold", 999), ("Cfg.Inner.deep", -1), ("GS", "other"),
    ("h1", lambda x: x + 1000), ("h2", lambda a, b: 0), ("ident", lambda x: -x), ("hl", lambda q: 0),
]


def run_cases(ctx, n: int, focus: str):
    from func_adl.util_ast import _parse_source_for_lambda

    DS = _dataset_cls()
    reqs, keep = [], []
    rng = ctx.rng
    events = [pyworld.to_world(e) for e in rich_dataset(rng)] + [pyworld.to_world(e) for e in gen_dataset(rng)]
    for _ in range(n):
        body, feats = gen_body(rng, focus)
        try:
            mod, text = make_case_module(rng, body)
        except SyntaxError:
            ctx.skip("module-syntax")
            continue
        try:
            c1 = rng.choice([0, 3, 8])
            nontrivial = bool(feats & {"captured-int", "helper-call"}) or "G1" in body or "h2(" in body
            ctx.count(body, nontrivial, sample={"body": body, "c1": c1}, tags=sorted(f for f in feats if f in (
                "captured-int", "helper-call", "binder-reuse", "called-lambda", "comprehension")))
            try:
                stream, ref = mod.build(DS(), c1)
            except ValueError as e:
                # designed refusals: a captured value that cannot be transported (None, list, …)
                ctx.dist["refused-ValueError"] += 1
                continue
            except Exception as e:
                ctx.violate({"body": body, "c1": c1}, f"Select raised {type(e).__name__}: {e}")
                continue
            f = DS.last_f
            lam = stream.query_ast.args[1]
            recorded_dump = ast.dump(stream.query_ast)
            # ---- semantic oracle at call time
            expected = []
            for ev in events:
                try:
                    expected.append(("ok", pyworld.from_world(ref(ev))))
                except Exception as e:
                    expected.append(("raise", type(e).__name__))
            bad = None
            for ev, exp in zip(events, expected):
                if exp[0] != "ok":
                    continue
                ctx.dist["python-original-ok"] += 1
                try:
                    got = eval_recorded(lam, mod, ev)
                except Exception as e:
                    got = f"raises {type(e).__name__}: {e}"
                    # the Python original may owe its success to a generator expression that was never consumed; the
                    # recorded Select is examined again under deferred execution before anything is reported
                    try:
                        with pyworld.deferred():
                            got2 = eval_recorded(lam, mod, ev)
                        if got2 == exp[1]:
                            ctx.dist["agrees under deferred execution only (generator expression never consumed)"] += 1
                            got = got2
                    except Exception:
                        pass
                if got != exp[1]:
                    bad = {"python": repr(exp[1])[:200], "recorded": repr(got)[:200]}
                    break
            # every position of the recorded lambda is its own node object: the passes that follow (type following, callbacks)
            # edit nodes in place, so one object standing in two places is edited twice (wave-8 audit, C09 d4: an argument
            # used twice by an inlined helper)
            seen_ids = {}
            for n_ in ast.walk(lam):
                if getattr(n_, "_fields", ()) and not isinstance(n_, (ast.expr_context, ast.operator, ast.unaryop, ast.cmpop, ast.boolop)):
                    if id(n_) in seen_ids:
                        ctx.violate({"body": body, "c1": c1, "recorded_lambda": ast.unparse(lam), "shared": ast.unparse(n_)[:80]},
                                    "one node object stands in several places of the recorded lambda")
                        break
                    seen_ids[id(n_)] = True
            if bad:
                ctx.violate({"body": body, "c1": c1, "recorded_lambda": ast.unparse(lam), **bad},
                            "the recorded lambda does not compute what the Python lambda computes",
                            key=(focus + "-name-capture-on-inlining") if reverse_capture_family(body) else None)
            # ---- history: rebind / delete captured names after the call
            import types as _types0

            saved_funcs = {k: v for k, v in vars(mod).items() if isinstance(v, _types0.FunctionType)}
            saved = {}
            hist = []
            for name, newv in rng.sample(REBINDS, rng.choice([1, 2, 4])):
                target, attr = (mod, name) if "." not in name else (eval(name.rsplit(".", 1)[0], vars(mod)), name.rsplit(".", 1)[1])
                saved[(id(target), attr)] = (target, attr, getattr(target, attr))
                if rng.random() < 0.15 and "." not in name:
                    delattr(target, attr)
                    hist.append(f"del {name}")
                else:
                    setattr(target, attr, newv)
                    hist.append(f"{name} = {newv!r}"[:40])
            try:
                if ast.dump(stream.query_ast) != recorded_dump:
                    ctx.violate({"body": body, "history": hist}, "the recorded query changed when captured names were rebound after the call")
                # inlined values must still be the old ones: evaluate with the *new* module state
                for ev, exp in zip(events[:2], expected[:2]):
                    if exp[0] != "ok":
                        continue
                    # a helper left by name on purpose is looked up at execution time - and so is everything IT calls
                    # (hkw2 left by name calls h2): any module-level function still named in the recorded lambda
                    import types as _types

                    still_named = {n.id for n in ast.walk(lam) if isinstance(n, ast.Name)} & \
                        ({r[0] for r in REBINDS} | {k for k, v in saved_funcs.items()})
                    if still_named:
                        ctx.dist["frozen-check skipped: a helper is left by name"] += 1
                        continue
                    try:
                        got = eval_recorded(lam, mod, ev)
                    except Exception as e:
                        got = f"raises {type(e).__name__}: {e}"
                        try:
                            with pyworld.deferred():
                                got2 = eval_recorded(lam, mod, ev)
                            if got2 == exp[1]:
                                got = got2
                        except Exception:
                            pass
                    if got != exp[1]:
                        ctx.violate({"body": body, "history": hist, "at_call": repr(exp[1])[:200], "after": repr(got)[:200]},
                                    "a captured value was not frozen at the call: rebinding it afterwards changed the query's meaning")
                        break
            finally:
                for target, attr, old in saved.values():
                    setattr(target, attr, old)
            # ---- bound names are never replaced: every binder of the source lambda is still a binder
            try:
                src = _parse_source_for_lambda(f, "Select")
            except Exception as e:
                ctx.skip("source-recovery-" + type(e).__name__)
                continue
            # ---- correspondence
            try:
                snap, table, ctors = snapshot_for(f, src)
                # domain of rewriteCaptured_attrs_preserves (Props/C04Attr.lean): no helper inserted as a lambda, no Enum prefix,
                # no data-class constructor; whether the table is used at all
                inside = "(lam " not in snap and "(expr " not in table and ctors == "()"
                ctx.dist["C04Attr domain: " + ("inside" if inside else "outside (helper / Enum prefix / constructor)")] += 1
                if inside and "(const " in table:
                    ctx.dist["C04Attr domain: inside, attribute table used"] += 1
                reqs.append(("capture", [snap, table, ctors, enc(src)]))
                keep.append((body, enc(_strip_sugar_free(lam, src, f))))
            except Unsupported:
                ctx.skip("unsupported-node")
        finally:
            srcmod.drop_module(mod)
    res = ctx.driver.batch(reqs)
    for (body, want), (st, payload) in zip(keep, res):
        if want is None:
            continue
        if st != "ok" or payload != want:
            ctx.disagree("parseCallable", {"body": body}, want, payload)
    # hypothesis of the semantic theorem about inlining (resolveCalled_refines), evaluated on what the inliner is given
    for h in ctx.driver.batch([("inlDomainCap", r[1]) for r in reqs]):
        ctx.dist["inside the domain of resolveCalled_refines" if tuple(h) == ("ok", "true") else
                 "outside the domain of resolveCalled_refines (comprehension, keyword-called lambda, parameter used as a function, ...)"] += 1


def run_same_callable_twice(ctx, n: int):
    """the same function object passed to an operator twice, with the captured names rebound in between:
    each call must use the values as they are at THAT call"""
    DS = _dataset_cls()
    rng = ctx.rng
    events = [pyworld.to_world(e) for e in rich_dataset(rng)]
    for i in range(n):
        mod = srcmod.make_module(HEADER, "twice")
        try:
            op = rng.choice(["Select", "Select", "SelectMany"]) if False else "Select"
            s1 = getattr(DS(), op)(mod.sel_twice)
            want1 = [pyworld.from_world(mod.sel_twice(ev)) for ev in events]
            g1, thr = rng.choice([6, 70, -1]), rng.choice([31, 0])
            mod.G1 = g1
            mod.Cfg.threshold = thr
            try:
                s2 = getattr(DS(), op)(mod.sel_twice)
                want2 = [pyworld.from_world(mod.sel_twice(ev)) for ev in events]
            finally:
                mod.Cfg.threshold = 30
            ctx.count(f"twice:{g1}:{thr}:{i % 3}", True, sample={"scenario": "same callable twice", "G1": g1, "threshold": thr}, tags=["same-callable-twice"])
            for s, want, which in ((s1, want1, "first"), (s2, want2, "second")):
                lam = s.query_ast.args[1]
                got = [eval_recorded(lam, mod, ev) for ev in events]
                if got != want:
                    ctx.violate({"scenario": "def sel_twice(e): return e.met + G1 * 100 + Cfg.threshold passed to Select twice",
                                 "rebound_to": {"G1": g1, "Cfg.threshold": thr}, "which": which, "recorded": ast.unparse(lam),
                                 "python": repr(want)[:100], "recorded_value": repr(got)[:100]},
                                f"the {which} call did not record the captured values as they were at that call")
        finally:
            srcmod.drop_module(mod)


KNOWN_CAPTURE_SCENARIOS = []
# repaired (fix: locals of an inlined body that an argument mentions are renamed): must hold, no key
FIXED_CAPTURE_SCENARIOS = [
    # a binder at the call site is named like a name that is FREE in the helper body (repaired: such a helper is left by name)
    ("def hk(x): return h1(x) * 2", "lambda e: (lambda q, h1: hk(e.met))(1, 2)", "e"),
    ("def hk(x): return h2(x, G2) + h1(x)", "lambda e: e.nums.Select(lambda G2: hk(G2))", "e"),
    ("def hk(x): return [h1(v) for v in x.nums]", "lambda e: [hk(e) for h1 in e.nums]", "e"),
    # an argument mentions a name that a lambda INSIDE the helper binds
    ("def hk(x): return x.jets.Select(lambda j: j.pt + x.met)", "lambda j: hk(j)", "j"),
    ("def hk(x, y): return x.trks.Select(lambda e: e.pt + y).Sum()", "lambda e: e.jets.Select(lambda j: hk(j, e.met * 100)).Sum()", "e"),
    ("def hk(x): return [j.pt + x.met for j in x.jets]", "lambda j: hk(j)", "j"),
    ("def hk(x, j_1): return x.jets.Select(lambda j: j.pt + x.met + j_1)", "lambda j: hk(j, 1)", "j"),
    # helpers with defaulted parameters, called with none, some (positionally / by keyword) and all of them
    ("def hk(x, s=2, t=7): return x * s + t", "lambda e: (hk(e.met, 3), hk(e.met), hk(e.met, t=1), hk(e.met, 3, 5), hk(e.met, s=4))", "e"),
    ("def hk(x, s=2, t=7, u=100): return x * s + t - u", "lambda e: e.jets.Select(lambda j: hk(j.pt, 3) + hk(j.pt, 3, 4) + hk(e.met, u=1))", "e"),
    ("hk = lambda x, s=2, t=7: x * s + t", "lambda e: (hk(e.met, 3), hk(e.met))", "e"),
    # two binders nested inside the helper; the argument mentions the name of the INNER one
    ("def hk(x, y): return x.jets.Select(lambda k: x.els.Where(lambda j: j.pt < y.pt - k.pt).Count())",
     "lambda e: e.jets.Select(lambda j: hk(e, j))", "e"),
    ("def hk(x, y): return x.jets.Select(lambda k: x.els.Where(lambda j: j.pt < y.pt - k.pt).Count())",
     "lambda j: j.jets.Select(lambda k: hk(j, k))", "j"),
    ("def hk(x, y): return x.jets.Select(lambda k: [j.pt + k.pt for j in x.els if j.pt < y.met])", "lambda j: hk(j, j)", "j"),
    ("def hk(x, y): return x.jets.Select(lambda k: x.els.Select(lambda j: x.jets.Where(lambda t: t.pt + j.pt + k.pt < y.met).Count()))",
     "lambda t: hk(t, t)", "t"),
    # an argument that is a captured OBJECT (a module; cannot be deep-copied), used more than once inside the helper: every use
    # gets its own nodes, the captured value stays the object it is (wave-10 review of repo fix 2fbea4b, repaired by d2957c4)
    ("def hk(x, lib): return lib.gcd(x, 12) + lib.gcd(x, 8)", "lambda e: hk(e.run, math)", "e"),
    ("def hk(x, lib): return lib.gcd(x, 12) + lib.lcm(x, 2)", "lambda e: e.nums.Select(lambda n: hk(n, math))", "e"),
]


CONTAINER_VALUES = [
    "[1.0, float('inf')]", "(1, float('nan'))", "[object()]", "(decimal.Decimal('1.5'),)", "[1, 2]", "(3, 4)", "{'a': 1}", "[1, [2, float('-inf')]]",
    "(fractions.Fraction(1, 3), 2)", "[G1, Cfg]", "(math, 1)", "['a', b'b', None]", "[]", "()", "[1e400]", "(-0.0, 1)", "[True, 2.5, 'x']",
]


def container_capture_oracle(ctx):
    """captured containers: the call either refuses (ValueError: the value cannot be transported as a literal) or records a
    lambda that evaluates to the Python value; never a query that mentions names bound nowhere or does not parse"""
    DS = _dataset_cls()
    events = [pyworld.to_world(e) for e in rich_dataset(ctx.rng)][:3]
    for val in CONTAINER_VALUES:
        text = HEADER + f"\nimport decimal, fractions\nV = {val}\n\ndef build(ds):\n    ref = (lambda e: (e.met, V))\n    s = ds.Select(lambda e: (e.met, V))\n    return s, ref\n"
        mod = srcmod.make_module(text, "container")
        try:
            ctx.count("container:" + val, True, tags=["captured-container"])
            try:
                s, ref = mod.build(DS())
            except ValueError:
                ctx.dist["captured-container refused (ValueError)"] += 1
                continue
            except Exception as e:
                ctx.violate({"captured": val}, f"capturing a container raised {type(e).__name__} instead of recording it or refusing with ValueError")
                continue
            ctx.dist["captured-container recorded"] += 1
            lam = s.query_ast.args[1]
            for ev in events:
                want = pyworld.from_world(ref(ev))
                try:
                    got = eval_recorded(lam, mod, ev)
                except Exception as e:
                    ctx.violate({"captured": val, "recorded_lambda": ast.unparse(lam)[:200], "error": f"{type(e).__name__}: {e}"[:120]},
                                "a captured container was recorded as a query that cannot be evaluated (names bound nowhere / not a literal)")
                    break
                if not (got == want or repr(got) == repr(want)):
                    ctx.violate({"captured": val, "recorded_lambda": ast.unparse(lam)[:200], "python": repr(want)[:120], "recorded": repr(got)[:120]},
                                "a captured container was recorded with a different value")
                    break
        finally:
            srcmod.drop_module(mod)


def known_capture_oracle(ctx):
    "inlining a helper is not capture-avoiding (known finding): dedicated witnesses, reported under one key"
    DS = _dataset_cls()
    events = [pyworld.to_world(e) for e in rich_dataset(ctx.rng)]
    for helper, lam_src, param in KNOWN_CAPTURE_SCENARIOS + FIXED_CAPTURE_SCENARIOS:
        known_key = "C05-name-capture-on-inlining" if (helper, lam_src, param) in KNOWN_CAPTURE_SCENARIOS else None
        text = HEADER + f"\n{helper}\n\ndef build(ds):\n    ref = ({lam_src})\n    s = ds.Select({lam_src})\n    return s, ref\n"
        mod = srcmod.make_module(text, "known")
        try:
            try:
                s, ref = mod.build(DS())
            except Exception as e:
                ctx.violate({"helper": helper, "lambda": lam_src}, f"raised {type(e).__name__}", key=known_key)
                continue
            ctx.count("known:" + lam_src, True, tags=["known-capture-scenario"])
            lam = s.query_ast.args[1]
            for ev in events:
                try:
                    want = pyworld.from_world(ref(ev))
                except Exception:
                    continue
                try:
                    got = eval_recorded(lam, mod, ev)
                except Exception as e:
                    got = f"raises {type(e).__name__}"
                if got != want:
                    ctx.violate({"helper": helper, "lambda": lam_src, "recorded": ast.unparse(lam), "python": repr(want)[:80], "recorded_value": repr(got)[:80]},
                                "inlining captured a name (binder at the call site / inside the helper)", key=known_key)
                    break
        finally:
            srcmod.drop_module(mod)


def _strip_sugar_free(recorded_lam, src, f):
    """what parse_as_ast returned for the callable (before sugar lowering / type following): recompute it with
    the real function, on a fresh copy of the recovered source"""
    from func_adl.util_ast import _resolve_called_lambdas, _rewrite_captured_vars, global_getclosurevars

    return _resolve_called_lambdas().visit(_rewrite_captured_vars(global_getclosurevars(f)).visit(copy.deepcopy(src)))
