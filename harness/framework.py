"""Common machinery of every property check: build + audit, ties, correspondence / oracle
bookkeeping, verdict, evidence, replay files (DESIGN.md section 3.5)."""
from __future__ import annotations

import hashlib
import json
import os
import random
import sys
import time
import traceback
from collections import Counter
from pathlib import Path
from typing import Any, Callable, Dict, List, Optional

import leanio

VERIF = Path(__file__).resolve().parent.parent
EVIDENCE = VERIF / "evidence"
REPLAYS = VERIF / "replays"
FINDINGS = VERIF / "known_findings.jsonl"

TRUSTED_BASE = [
    "Lean 4.33.0 kernel; axioms allowed: propext, Classical.choice, Quot.sound (audited by #print axioms on every run)",
    "the hand-written Lean models as representations of the Python code: tied to /repo on every run "
    "by the correspondence run (same inputs through the real function and the compiled Lean definition) "
    "and the constant-table ties; agreement outside the generated inputs is an extrapolation",
    "harness/astcodec.py (ast <-> S-expression; self-test on every run) and the driver's S-expression reader",
    "Fadl/Sem.lean `ev` as the meaning of 'ordinary LINQ/list semantics' (validated against CPython by the C01 run)",
]


def load_findings(prop: str) -> List[dict]:
    out = []
    if FINDINGS.exists():
        for line in FINDINGS.read_text().splitlines():
            line = line.strip()
            if not line or line.startswith("#"):
                continue
            try:
                d = json.loads(line)
            except json.JSONDecodeError:
                continue  # "fixed: ..." records are plain text lines
            if d.get("property") == prop:
                out.append(d)
    return out


class Ctx:
    """What a property module sees while it runs."""

    def __init__(self, prop: str, tier: str, seed: int, scale: int = 1):
        self.prop = prop
        self.tier = tier
        self.seed = seed
        self.scale = scale
        self.rng = random.Random(f"{prop}:{seed}:{scale}")
        self.driver = leanio.Driver()
        self.evaluations = 0
        self.distinct: set = set()
        self.samples: List[Any] = []
        self.dist: Counter = Counter()
        self.skipped: Counter = Counter()
        self.disagreements: List[dict] = []
        self.violations: List[dict] = []
        self.notes: List[str] = []
        self.deadline: Optional[float] = None

    # budget ------------------------------------------------------------------------------
    def n(self, quick: int, thorough: int) -> int:
        base = quick if self.tier == "quick" else thorough
        return base * self.scale

    # bookkeeping -------------------------------------------------------------------------
    def count(self, key_text: str, nontrivial: bool = True, sample: Any = None, tags=()):
        """Register one evaluated case.  `key_text` identifies the case for distinct counting."""
        self.evaluations += 1
        if nontrivial:
            self.distinct.add(hashlib.blake2b(key_text.encode("utf-8", "surrogatepass"), digest_size=8).digest())
        for t in tags:
            self.dist[t] += 1
        if sample is not None and len(self.samples) < 6 and (self.evaluations % 97 == 1 or len(self.samples) < 2):
            self.samples.append(sample)

    def skip(self, why: str):
        self.skipped[why] += 1

    def disagree(self, unit: str, case: Any, impl: Any, model: Any):
        if len(self.disagreements) < 50:
            self.disagreements.append({"unit": unit, "case": case, "impl": impl, "model": model})
        else:
            self.dist["disagreements_not_kept"] += 1

    def violate(self, case: Any, what: str, key: Optional[str] = None):
        if len(self.violations) < 200:
            self.violations.append({"case": case, "what": what, "key": key})
        else:
            self.dist["violations_not_kept"] += 1


_STOP = {"func_adl", "and", "the", "called", "by", "used", "uses", "use", "with", "via", "for", "all", "three", "operators",
         "exports", "ast", "object_stream", "util_ast", "util_types", "type_based_replacement", "meta_data",
         "function_simplifier", "call_stack", "func_adl_ast_utils", "aggregate_shortcuts", "syntatic_sugar",
         "event_dataset", "ast_hash", "__init__", "The", "old", "not", "modified", "is", "before", "attaching",
         "query", "metadata", "copy", "documented"}


def _anchors(prop: str, mod):
    """Files and function names the property is anchored in (properties.jsonl), unless the module overrides them
    with COVER_FILES / COVER_NAMES."""
    import re

    import impl

    files, names = [], []
    try:
        for line in (VERIF / "properties.jsonl").read_text().splitlines():
            d = json.loads(line)
            if d.get("id") != prop:
                continue
            a = d.get("anchors", {})
            files = list(a.get("files", []))
            for m in list(a.get("mechanism", [])) + list(a.get("state", [])):
                w = m.get("where", "")
                w = w.split(":", 1)[1] if ":" in w else w
                for tok in re.findall(r"[A-Za-z_][A-Za-z_0-9]*", w):
                    if tok not in _STOP and len(tok) > 2 and not tok.endswith("py"):
                        names.append(tok)
    except Exception:
        pass
    files = list(getattr(mod, "COVER_FILES", files))
    names = list(getattr(mod, "COVER_NAMES", names))
    return [str(Path(impl.REPO) / f) for f in files], sorted(set(names))


def _write_json(path: Path, obj: Any):
    path.parent.mkdir(parents=True, exist_ok=True)
    tmp = path.with_suffix(path.suffix + f".tmp{os.getpid()}")
    tmp.write_text(json.dumps(obj, indent=1, default=str, ensure_ascii=True))
    os.replace(tmp, path)


def run_check(mod, tier: str, seed: int) -> int:
    prop = mod.ID
    t0 = time.time()
    out_lines: List[str] = []

    # 1. build & audit ---------------------------------------------------------------------------
    build_ok, build_log = leanio.ensure_built()
    theorems: List[str] = list(mod.THEOREMS)
    audit: Dict[str, Optional[List[str]]] = {}
    bad_theorems: List[str] = []
    if build_ok:
        audit = leanio.audit(theorems)
        for t, ax in audit.items():
            if ax is None:
                bad_theorems.append(f"{t}: missing or does not check")
            elif not set(ax) <= leanio.ALLOWED_AXIOMS:
                bad_theorems.append(f"{t}: depends on {sorted(set(ax) - leanio.ALLOWED_AXIOMS)}")
    else:
        bad_theorems = [f"{t}: lake build failed" for t in theorems]
    forbidden = leanio.grep_forbidden()
    checker_note = ""
    if build_ok and tier == "thorough" and getattr(mod, "LEANCHECKER_MODULES", None):
        ok, log = leanio.leanchecker(mod.LEANCHECKER_MODULES)
        checker_note = "leanchecker ok" if ok else "leanchecker FAILED: " + log[-300:]
        if not ok:
            bad_theorems.append("leanchecker rejected " + ",".join(mod.LEANCHECKER_MODULES))
    proof_ok = build_ok and not bad_theorems and not forbidden
    if not build_ok and not leanio.DRIVER.exists():
        print(f"harness error: Lean build failed and no driver is available:\n{build_log[-3000:]}")
        return 2

    # 2. ties ------------------------------------------------------------------------------------
    import astcodec

    astcodec.selftest()
    tie_breaks: List[str] = list(mod.ties()) if hasattr(mod, "ties") else []
    import surface

    tie_breaks += surface.ties(prop)

    # 3+4. correspondence and oracle -------------------------------------------------------------
    ctx = Ctx(prop, tier, seed)
    cov_files, cov_names = _anchors(prop, mod)
    import cover

    cov_on = cover.start(cov_files)
    try:
        mod.run(ctx)
    finally:
        if cov_on:
            cover.stop()
    code_cov = cover.report(cov_names) if cov_on else {"what": "sys.monitoring not available"}

    findings = load_findings(prop)
    open_keys = {f["key"]: f for f in findings if f.get("status") == "open"}

    def unlisted(c: Ctx):
        return [v for v in c.violations if v.get("key") not in open_keys]

    broken = (not proof_ok) or bool(tie_breaks) or bool(ctx.disagreements)
    esc: Optional[Ctx] = None
    if broken and not unlisted(ctx):
        # escalated search for a failing input on the implementation
        esc = Ctx(prop, tier, seed, scale=(4 if tier == "quick" else 3))
        try:
            mod.run(esc)
        except Exception:
            esc.notes.append("escalated search crashed: " + traceback.format_exc()[-500:])

    viol = unlisted(ctx) or (unlisted(esc) if esc else [])
    rc = 0
    replay_path = None
    if viol:
        replay_path = REPLAYS / f"{prop}-{seed}-{int(time.time())}.json"
        _write_json(
            replay_path,
            {
                "property": prop, "tier": tier, "seed": seed, "kind": "failing-input",
                "violation": viol[0], "more": viol[1:5],
                "broken_proof": bad_theorems + forbidden, "broken_ties": tie_breaks,
                "broken_correspondence": ctx.disagreements[:3],
            },
        )
        out_lines.append(f"VIOLATION property={prop} replay={replay_path.relative_to(VERIF)}")
        rc = 1
    elif broken:
        replay_path = REPLAYS / f"{prop}-{seed}-{int(time.time())}.json"
        _write_json(
            replay_path,
            {
                "property": prop, "tier": tier, "seed": seed, "kind": "no-failing-input-found",
                "no_longer_checks": {
                    "theorems": bad_theorems, "forbidden_tokens": forbidden, "ties": tie_breaks,
                    "correspondence": (ctx.disagreements or (esc.disagreements if esc else []))[:5],
                },
                "build_log_tail": "" if build_ok else build_log[-2000:],
                "searched": {"evaluations": ctx.evaluations + (esc.evaluations if esc else 0)},
            },
        )
        out_lines.append(
            f"VIOLATION property={prop} replay={replay_path.relative_to(VERIF)} no-failing-input-found"
        )
        rc = 1

    # known findings: report each listed open finding that this run reproduced
    seen_keys = {v.get("key") for c in (ctx, esc) if c for v in c.violations}
    for k, f in open_keys.items():
        if k in seen_keys:
            out_lines.append(f"KNOWN-FINDING: property={prop} {f.get('what', k)}")

    # 6. evidence --------------------------------------------------------------------------------
    total = ctx
    discharged = sum(1 for t in theorems if audit.get(t) is not None and set(audit[t]) <= leanio.ALLOWED_AXIOMS)
    if forbidden or not build_ok:
        discharged = 0
    ev = {
        "property_id": prop,
        "tier": tier,
        "seed": seed,
        "level": "proof",
        "coverage": {
            "obligations": len(theorems),
            "discharged": discharged,
            "checker_cmd": "cd lean && lake build && lake env lean <#print axioms for each theorem>"
            + ("; lake env leanchecker " + " ".join(getattr(mod, "LEANCHECKER_MODULES", [])) if tier == "thorough" else ""),
            "trusted_base": TRUSTED_BASE + list(getattr(mod, "TRUSTED", [])),
            "theorems": {t: audit.get(t) for t in theorems},
            "proof_status": "all theorems check, axiom-clean" if proof_ok else {"broken": bad_theorems, "forbidden": forbidden},
            "leanchecker": checker_note,
            "ties_broken": tie_breaks,
            "evaluations": total.evaluations,
            "distinct_nontrivial": len(total.distinct),
            "rule": mod.RULE,
            "samples": total.samples[:6],
            "distribution": dict(total.dist.most_common(60)),
            "skipped": dict(total.skipped),
            "correspondence_disagreements": len(total.disagreements),
            "oracle_violations": len(total.violations),
            "known_findings_reproduced": sorted(k for k in seen_keys if k in open_keys),
            "escalated_search_evaluations": esc.evaluations if esc else 0,
            "driver_lines": total.driver.lines,
            "code_coverage": code_cov,
            "notes": total.notes + (esc.notes if esc else []),
            "explanation": getattr(mod, "EXPLANATION", ""),
        },
        "assumptions": list(getattr(mod, "ASSUMPTIONS", [])),
        "wall_s": round(time.time() - t0, 2),
        "violations": len(viol) if viol else (1 if rc else 0),
    }
    _write_json(EVIDENCE / f"{prop}.json", ev)
    for line in out_lines:
        print(line)
    print(
        f"{prop} {tier} seed={seed}: theorems {discharged}/{len(theorems)}, cases {total.evaluations} "
        f"(distinct non-trivial {len(total.distinct)}), disagreements {len(total.disagreements)}, "
        f"oracle failures {len(total.violations)}, {ev['wall_s']}s -> exit {rc}"
    )
    return rc


def run_replay(mod, path: str) -> int:
    data = json.loads(Path(path).read_text())
    ok, log = leanio.ensure_built()
    ctx = Ctx(mod.ID, "quick", int(data.get("seed", 0)))
    if data.get("kind") == "failing-input":
        case = data["violation"]["case"]
        mod.replay(ctx, case)
        if ctx.violations:
            print(f"VIOLATION property={mod.ID} replay={path}")
            print(json.dumps(ctx.violations[0], default=str)[:2000])
            return 1
        print("replay: the recorded input no longer fails")
        return 0
    # no-failing-input-found: re-run the recorded correspondence cases
    cases = data.get("no_longer_checks", {}).get("correspondence", [])
    for c in cases:
        mod.replay(ctx, c["case"])
    if ctx.violations or ctx.disagreements:
        print(f"VIOLATION property={mod.ID} replay={path} no-failing-input-found")
        return 1
    print("replay: nothing recorded in this file fails any more")
    return 0
