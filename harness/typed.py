"""Typed queries (C07, C08, C09): generated class models, lambdas over them, the three oracles and the
correspondence with the Lean follower (Model/Follow.lean)."""
from __future__ import annotations

import ast
import typing
from typing import Any, List

import impl  # noqa: F401
from astcodec import Unsupported, enc, parse_expr
from common import pyval_sexpr, same_value
from gen.classes import Library, TypedGen
from sexpr import parse as sparse, q, render


def reset_registries():
    from func_adl import type_based_replacement as tbr

    tbr.reset_global_functions()


_LOADS = [0]


def load_library(lib: Library):
    # alternately a real module, as a user's classes live in one, and a bare namespace without __name__ (a notebook cell run
    # through exec, a plugin loader): there the classes get __module__ == 'builtins', and the library must still tell them
    # from Python's builtin classes (wave-10 review of repo fixes d29231e / fc0c019: a test on __module__ alone stopped
    # following every method call and parameterized property of such classes)
    import sys
    import types

    _LOADS[0] += 1
    if _LOADS[0] % 2 == 0:
        ns = {}
    else:
        m = types.ModuleType("verif_class_model")
        sys.modules["verif_class_model"] = m
        ns = m.__dict__
    exec(compile(lib.source(), "<class-model>", "exec"), ns)
    return ns


def ty_sexpr(t, ns) -> str:
    "python typing object -> the wire form of Lean's `Ty` (renderTy)"
    if t is typing.Any:
        return "any"
    if t is int:
        return "int"
    if t is float:
        return "float"
    if t is bool:
        return "bool"
    if t is str:
        return "str"
    if t is typing.Callable:
        return "callable"
    origin = typing.get_origin(t)
    if origin is not None:
        args = typing.get_args(t)
        name = getattr(origin, "__name__", str(origin))
        if name == "Iterable":
            return f"(iterable {ty_sexpr(args[0], ns)})"
        return f"(cls {q(name)} ({' '.join(ty_sexpr(a, ns) for a in args)}))"
    if isinstance(t, type):
        if t.__name__ == "dict_dataclass":
            import dataclasses

            hints = typing.get_type_hints(t)
            fs = [f.name for f in dataclasses.fields(t)]
            return f"(dictDC ({' '.join(q(f) for f in fs)}) ({' '.join(ty_sexpr(hints[f], ns) for f in fs)}))"
        if t.__name__ in ("NoneType", "bytes", "complex", "ellipsis"):
            return f"(other {q(t.__name__)})"
        return f"(cls {q(t.__name__)} ())"
    if isinstance(t, typing.TypeVar):
        return f"(tvar {q(t.__name__)})"
    return f"(other {q(str(t))})"


def run_cases(ctx, n_libs: int, per_lib: int, focus: str):
    from func_adl import EventDataset

    rng = ctx.rng
    for _ in range(n_libs):
        reset_registries()
        lib = Library(rng)
        try:
            ns = load_library(lib)
        except Exception as e:
            ctx.notes.append(f"class model failed to load: {type(e).__name__}: {e}")
            raise
        model = lib.model()
        Evt = ns["Evt"]

        class TDS(EventDataset[Evt]):  # type: ignore
            def __init__(self):
                super().__init__(Evt)

            async def execute_result_async(self, a, title=None):
                return a

        gen = TypedGen(rng, lib)
        reqs, keep, spec_reqs, eff_reqs, elab_reqs, query_reqs, query_want = [], [], [], [], [], [], []
        for _ in range(per_lib):
            op = rng.choice(["Select", "Select", "Where", "SelectMany"])
            try:
                param, body = gen.top(op, rng.choice([1, 2, 3]))
            except RuntimeError:
                ctx.skip("generator-dead-end")
                continue
            src = f"lambda {param}: {body.src}"
            ns["LOG"].clear()
            ds = TDS()
            try:
                s = getattr(ds, op)(src)
                got = ("ok", s)
            except ValueError as e:
                got = ("ValueError", str(e))
            except Exception as e:
                got = (type(e).__name__, str(e))
            log = list(ns["LOG"])
            ctx.count(f"{op}:{src}", True, sample={"op": op, "src": src, "expect": body.norm if body.refusal is None else "ValueError: " + body.refusal},
                      tags=[op] + (["expect-refusal"] if body.refusal else []) + (["has-callbacks"] if body.log else []))
            case = {"op": op, "src": src, "class_model": lib.source()}
            if body.refusal is not None:
                if got[0] != "ValueError":
                    ctx.violate({**case, "got": got[0] if got[0] != "ok" else ast.unparse(got[1].query_ast)},
                                f"expected ValueError ({body.refusal}) but got {got[0]}")
            elif got[0] != "ok":
                ctx.violate({**case, "got": f"{got[0]}: {got[1]}"[:300]}, f"well-typed query raised {got[0]}")
            else:
                s = got[1]
                lam = s.query_ast.args[1]
                want_lam = ast.unparse(parse_expr(f"lambda {param}: {body.norm}"))
                have_lam = ast.unparse(lam)
                # ---- C07: every typed call site in full positional form
                if have_lam != want_lam:
                    ctx.violate({**case, "emitted": have_lam, "expected": want_lam},
                                "C07/C09: emitted lambda differs from the fully positional form with declared defaults (and callback rewrites)")
                # ---- C08: item type
                try:
                    if op == "Select":
                        want_ty = eval(body.ty, {**ns, "Any": typing.Any, "Iterable": typing.Iterable})
                    elif op == "Where":
                        want_ty = Evt
                    else:
                        inner = body.ty[len("Iterable["):-1] if body.ty.startswith("Iterable[") else "Any"
                        want_ty = eval(inner, {**ns, "Any": typing.Any, "Iterable": typing.Iterable})
                    if s.item_type != want_ty:
                        ctx.violate({**case, "item_type": str(s.item_type), "expected": str(want_ty)},
                                    "C08: item type of the derived stream is not what the annotations imply")
                except Exception as e:  # pragma: no cover
                    ctx.notes.append(f"type oracle error {e}")
                # ---- C09: callbacks and metadata
                # a parameterized-property callback logs the parameter value it received as a third element
                tags = [t[0] + ("\x00" + t[2] if len(t) > 2 else "") for t in log]
                if any("\x00" in t for t in body.log):
                    ctx.dist["parameterized-property call sites"] += 1
                if tags != body.log:
                    ctx.violate({**case, "fired": tags, "expected": body.log},
                                "C09: callbacks fired are not exactly the matching call sites (class before method, each once, in order)")
                mds = []
                node = s.query_ast.args[0]
                while isinstance(node, ast.Call) and isinstance(node.func, ast.Name) and node.func.id == "MetaData":
                    mds.append(ast.literal_eval(node.args[1]))
                    node = node.args[0]
                mds.reverse()
                if not same_value(mds, body.md) or ast.dump(node) != ast.dump(ds.query_ast):
                    ctx.violate({**case, "metadata_chain": repr(mds), "expected": repr(body.md)},
                                "C09: MetaData attached by callbacks is not on the source chain upstream of the operator")
            # ---- correspondence
            if body.refusal is not None and "[oracle only]" in body.refusal:
                # a refusal the follower model does not contain (a property called like a method): decided by the oracle above
                ctx.skip("outside the follower model: a property called like a method (oracle only)")
                continue
            try:
                lam_enc = enc(parse_expr(src))
            except Unsupported:
                ctx.skip("unsupported")
                continue
            reqs.append(("streamOp", [model, op, '(cls "Evt" ())', lam_enc]))
            spec_reqs.append(("streamOpTy", [model, op, '(cls "Evt" ())', lam_enc]))
            eff_reqs.append(("streamOpEff", [model, '(cls "Evt" ())', lam_enc]))
            elab_reqs.append(("streamOpElab", [model, '(cls "Evt" ())', lam_enc]))
            query_reqs.append(("streamOpQuery", [model, op, enc(ds.query_ast), '(cls "Evt" ())', lam_enc]))
            query_want.append(("ok", f"({enc(got[1].query_ast)} {ty_sexpr(got[1].item_type, ns)} ({' '.join(q(t[0]) for t in log)}))") if got[0] == "ok" else None)
            if got[0] == "ok":
                s = got[1]
                node = s.query_ast.args[0]
                mds = []
                while isinstance(node, ast.Call) and isinstance(node.func, ast.Name) and node.func.id == "MetaData":
                    mds.append(ast.literal_eval(node.args[1]))
                    node = node.args[0]
                mds.reverse()
                want = f"({enc(s.query_ast.args[1])} {ty_sexpr(s.item_type, ns)} ({' '.join(pyval_sexpr(d) for d in mds)}) ({' '.join(q(t[0]) for t in log)}))"
                keep.append((case, ("ok", want)))
            else:
                keep.append((case, ("err", got[0] if got[0] == "ValueError" else "internal:" + got[0])))
        res = ctx.driver.batch(reqs)
        for (case, want), (st, payload) in zip(keep, res):
            if (st, payload) != want:
                ctx.disagree("streamOp(typed)", {k: v for k, v in case.items() if k != "class_model"}, want[1][:500], (st, payload[:500]))
        # ---- the declared-type checker `tyOf` (the specification of C08, Model/TypeSpec.lean) against the implementation:
        # whenever the implementation accepts the lambda, the item type of the derived stream is the one the
        # specification computes from the declarations and the lambda as written (streamOp_type_is_declared is this
        # statement about the follower model; here it is observed on the code itself)
        sres = ctx.driver.batch(spec_reqs)
        for (case, want), (st, payload) in zip(keep, sres):
            if want[0] != "ok":
                # streamOp_refusals_are_declared, observed on the code: a refusal of the implementation is a refusal of the
                # specification (ValueError), or check_ast's (also ValueError)
                ctx.dist["spec:implementation-refused"] += 1
                if want[1] == "ValueError" and st == "ok":
                    ctx.dist["spec:refused-by-check_ast-only"] += 1
                elif (st, payload) != ("err", want[1]) and not (want[1] == "ValueError" and st == "err"):
                    ctx.disagree("streamOpTy(spec,refusal)", {k: v for k, v in case.items() if k != "class_model"}, want[1][:300], (st, payload[:300]))
                continue
            impl_ty = render(sparse(want[1])[1])
            ctx.dist["spec:item-type-compared"] += 1
            if (st, payload) != ("ok", impl_ty):
                ctx.disagree("streamOpTy(spec)", {k: v for k, v in case.items() if k != "class_model"}, impl_ty[:300], (st, payload[:300]))
        # ---- the emitted lambda `elabOf` (the specification of C07, Model/ElabSpec.lean) against the implementation:
        # whenever the implementation accepts the lambda, the lambda in the emitted query is the elaboration of the
        # lambda as written
        lres = ctx.driver.batch(elab_reqs)
        for (case, want), (st, payload) in zip(keep, lres):
            if want[0] != "ok":
                continue
            impl_lam = render(sparse(want[1])[0])
            ctx.dist["spec:emitted-lambda-compared"] += 1
            if (st, payload) != ("ok", impl_lam):
                ctx.disagree("streamOpElab(spec)", {k: v for k, v in case.items() if k != "class_model"}, impl_lam[:400], (st, payload[:400]))
        # ---- the whole query of the returned stream (Model/StreamQuery.lean): the MetaData wrappers sit on the source, one per
        # attached dictionary, later ones outside, and the operator is applied to that (C09: placement)
        qres = ctx.driver.batch(query_reqs)
        for (case, _), want_q, (st, payload) in zip(keep, query_want, qres):
            if want_q is None:
                continue
            ctx.dist["spec:whole-query-compared"] += 1
            if (st, payload) != want_q:
                ctx.disagree("streamOpQuery", {k: v for k, v in case.items() if k != "class_model"}, want_q[1][:500], (st, payload[:500]))
        # ---- the declared callback sites `effOf` (the specification of C09, Model/EffectSpec.lean) against the
        # implementation: whenever the implementation accepts the lambda, the MetaData on the source chain and the callbacks
        # that fired are the ones the specification lists for the lambda as written, in the same order
        eres = ctx.driver.batch(eff_reqs)
        for (case, want), (st, payload) in zip(keep, eres):
            if want[0] != "ok":
                continue
            parts = sparse(want[1])
            impl_eff = render([parts[2], parts[3]])
            ctx.dist["spec:callback-sites-compared"] += 1
            if len(parts[3]) > 0:
                ctx.dist["spec:callback-sites-nonempty"] += 1
            if (st, payload) != ("ok", impl_eff):
                ctx.disagree("streamOpEff(spec)", {k: v for k, v in case.items() if k != "class_model"}, impl_eff[:300], (st, payload[:300]))
    reset_registries()
