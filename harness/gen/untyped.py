"""Untyped expression generator for C10: seeded random generation and exhaustive enumeration to a small depth,
over a name pool that includes names meaningful to Python's own ast objects."""
from __future__ import annotations

import itertools
import random

NAMES = ["e", "x", "value", "id", "attr", "ctx", "lineno", "elts", "args", "func", "keys", "body", "slice", "f", "abs", "len"]
ATTRS = ["pt", "value", "id", "attr", "ctx", "lineno", "elts", "args", "func", "keys", "n", "Zip", "zip", "jets"]
CONSTS = ["1", "0", "2.5", "'a'", "'it''s'", "True", "False", "b'x'", "None", "..."]
DICT_KEYS = ["'a'", "'b'", "'a b'", "'1x'", "'class'", "'pt'", "''", "'_q'"]
BINOPS = ["+", "-", "*", "/", "//", "%", "**", "<<", "&", "|", "^", "@"]
CMPOPS = ["<", "<=", ">", ">=", "==", "!=", "is", "is not", "in", "not in"]


class UGen:
    def __init__(self, rng: random.Random):
        self.rng = rng

    def atom(self) -> str:
        r = self.rng.random()
        if r < 0.55:
            return self.rng.choice(NAMES[:14])
        if r < 0.6:
            return self.rng.choice(["abs", "len"])
        return self.rng.choice(CONSTS[:8] if self.rng.random() < 0.9 else CONSTS)

    def expr(self, d: int) -> str:
        rng = self.rng
        if d <= 0:
            return self.atom()
        r = rng.random()
        e = lambda: self.expr(d - 1)  # noqa: E731
        if r < 0.12:
            return self.atom()
        if r < 0.26:
            return f"{self.post(e())}.{rng.choice(ATTRS)}"
        if r < 0.38:
            fn = rng.choice([f"{self.post(e())}.{rng.choice(ATTRS)}", rng.choice(["f", "g", "func", "value"]), self.post(e())])
            args = [e() for _ in range(rng.choice([0, 1, 1, 2]))]
            if rng.random() < 0.25:
                args.append(f"{rng.choice(['k', 'value', 'x'])}={e()}")
            if rng.random() < 0.08:
                args.insert(0, f"*{self.post(e())}")
            if rng.random() < 0.05:
                args.append(f"**{self.post(e())}")
            if rng.random() < 0.15:
                v = rng.choice(["j", "y", "e", "value"])
                args = [f"lambda {v}: {self.expr(d - 1).replace('e', v, 1) if rng.random() < 0.5 else e()}"] + args[1:]
            return f"{fn}({', '.join(args)})"
        if r < 0.46:
            base = rng.choice([self.post(e()), self.post(e()), f"({e()}, {e()})", f"[{e()}, {e()}]",
                               f"{{{rng.choice(DICT_KEYS)}: {e()}, {rng.choice(DICT_KEYS)}: {e()}}}"])
            idx = rng.choice(["0", "1", "2", "-1", "True", "'a'", "'zz'", e(), f"{e()}:{e()}", "::2", "1:", "1.0"])
            return f"{base}[{idx}]"
        if r < 0.5:
            return f"{{{rng.choice(DICT_KEYS)}: {e()}, {rng.choice(DICT_KEYS)}: {e()}}}.{rng.choice(['a', 'b', 'pt', 'Zip', 'zz', 'keys'])}"
        if r < 0.57:
            return f"({rng.choice(['-', '+', 'not ', '~'])}{self.post(e())})"
        if r < 0.67:
            return f"({e()} {rng.choice(BINOPS)} {e()})"
        if r < 0.73:
            return "(" + f" {rng.choice(['and', 'or'])} ".join(e() for _ in range(rng.choice([2, 3]))) + ")"
        if r < 0.82:
            parts = [e()]
            for _ in range(rng.choice([1, 1, 2])):
                parts += [rng.choice(CMPOPS), e()]
            return "(" + " ".join(parts) + ")"
        if r < 0.87:
            return f"({e()} if {e()} else {e()})"
        if r < 0.92:
            n = rng.choice([0, 1, 2, 3])
            items = [e() for _ in range(n)]
            return "(" + ", ".join(items) + ("," if n == 1 else "") + ")"
        if r < 0.95:
            return "[" + ", ".join(e() for _ in range(rng.choice([0, 1, 2]))) + "]"
        ks = [rng.choice(DICT_KEYS) for _ in range(rng.choice([0, 1, 2, 3]))]
        return "{" + ", ".join(f"{k}: {e()}" for k in ks) + "}"

    @staticmethod
    def post(s: str) -> str:
        "make `s` usable as the base of an attribute / call / subscript"
        if s.replace("_", "a").isalnum() and not s[0].isdigit():
            return s
        if s[0] in "([{'" and s[-1] in ")]}'" and s.count("(") <= 1 and not s.startswith("(-") and not s.startswith("(not") and not s.startswith("(+") and not s.startswith("(~"):
            return s
        return f"({s})"

    def where_body(self, d: int) -> str:
        rng = self.rng
        r = rng.random()
        if r < 0.45:
            return f"{self.expr(d - 1)} {rng.choice(CMPOPS)} {self.expr(d - 1)}"
        if r < 0.7:
            return f" {rng.choice(['and', 'or'])} ".join(self.where_body(d - 1) if d > 1 else self.expr(0) for _ in range(2))
        if r < 0.8:
            return f"not ({self.where_body(max(d - 1, 1))})"
        return self.expr(d)


def enumerate_small():
    "all expressions of depth <= 2 over a small alphabet (names incl. ast field names, one constant of each kind)"
    atoms = ["e", "value", "id", "1", "'a'", "2.5"]
    level1 = list(atoms)
    for a in atoms[:3]:
        for at in ["pt", "value", "id", "ctx"]:
            level1.append(f"{a}.{at}")
    out = list(level1)
    for a in level1:
        out.append(f"(-{a})")
        out.append(f"(not {a})")
        out.append(f"{a}.attr" if not a[0].isdigit() and not a.startswith("'") else f"({a}).attr")
        out.append(f"f({a})")
        out.append(f"f(k={a})")
        out.append(f"({a},)[0]")
        out.append(f"({a}, 1)[1]")
        out.append(f"({a}, 1)[2]")
        out.append(f"({a}, 1)[e]")
        out.append(f"{{'a': {a}}}['a']")
        out.append(f"{{'a': {a}}}.a")
        out.append(f"{{'a': {a}}}.b")
        out.append(f"{{'a b': {a}}}")
        out.append(f"[{a}][0]")
        out.append(f"e.m(lambda value: {a})")
    for a, b in itertools.product(level1[:10], level1[:10]):
        out.append(f"({a} + {b})")
        out.append(f"({a} / {b})")
        out.append(f"({a} < {b})")
        out.append(f"({a} and {b})")
        out.append(f"({a} if e else {b})")
        out.append(f"{a if not a[0].isdigit() and not a.startswith(chr(39)) else '(' + a + ')'}[{b}]")
    return out
