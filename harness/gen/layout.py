"""Source layouts for C03: modules in which lambdas (and one-line defs) are passed to Select/Where/SelectMany in
generated placements.  Every operator call records which callable it received (through the dataset wrapper), so
the harness knows the ground truth."""
from __future__ import annotations

import random

BODIES = ["e.x + K", "e.pt * SCALE + K", "e.x + 1", "e.pt * 2", "(e.a, e.b)", "e.jets.Count()", "e.x > 3", "e.m('s)', 2)", "[e.a, e.b][0]", "{'k': e.a}['k']",
          "e.f('lambda q: q)')", "e.g(\"(,\")", "(e.a +\n         e.b)", "e.h(1,\n        2)", "e.x if e.y else e.z"]
WHERE_BODIES = ["e.pt > CUT", "e.x > 1", "e.a < e.b", "not (e.x == 0)", "e.s == 'lambda: )'", "(e.x > 1\n        and e.y < 2)"]
MANY_BODIES = ["e.jets", "e.trks()", "e.jets.Where(lambda j: j.pt > 1)"]


def body_for(op, rng, var):
    b = rng.choice({"Select": BODIES, "Where": WHERE_BODIES, "SelectMany": MANY_BODIES}[op])
    import re

    return re.sub(r"\be\b", var, b)


def gen_chain_layout(rng: random.Random):
    """a chain of 1-4 operator calls with independent formatting choices per call; 'supported' when every
    (method, argument names) pair in the statement is distinct, otherwise 'any' (right lambda or ValueError)"""
    ind = " " * rng.choice([4, 4, 8])
    k = rng.choice([1, 2, 2, 3, 3, 4])
    names = ["e", "j", "x", "evt", "t"]
    few = rng.sample(names, rng.choice([1, 1, 2, 3]))
    calls = []
    for _ in range(k):
        op = rng.choice(["Select", "Where", "SelectMany", "Select"])
        v = rng.choice(few)
        calls.append((op, v, body_for(op, rng, v)))
    wrapped = rng.random() < 0.6
    lines = []
    cur = f"{ind}r = (" if wrapped else f"{ind}r = ds"
    if wrapped:
        if rng.random() < 0.7:
            lines.append(cur)
            cur = f"{ind}    ds"
        else:
            cur += "ds"
    depth_ind = ind + "    "
    for op, v, b in calls:
        style = rng.choice(["inline", "inline", "own-line", "black-dot" if wrapped else "inline", "black-dot-own" if wrapped else "own-line"])
        cm = rng.choice(["", "", "", "  # lambda z: (", "  # ),"])
        if style.startswith("black-dot"):
            lines.append(cur)
            cur = f"{depth_ind}"
        if style.endswith("own-line") or style.endswith("own"):
            lines.append(cur + f".{op}({cm}")
            lines.append(f"{depth_ind}    lambda {v}: {b}{',' if rng.random() < 0.4 else ''}{cm}")
            cur = f"{depth_ind})"
        else:
            cur += f".{op}(lambda {v}: {b})"
    if wrapped:
        if rng.random() < 0.7:
            lines.append(cur)
            cur = f"{ind})"
        else:
            cur += ")"
    lines.append(cur)
    lines.append(f"{ind}return r")
    pairs = [(op, v) for op, v, _ in calls]
    expect = "supported" if len(set(pairs)) == len(pairs) else "any"
    return "def build(ds):\n" + "\n".join(lines) + "\n", expect


HEADER = "K = 3\nSCALE = 2\nCUT = 10\n\n"


def gen_layout(rng: random.Random):
    r = rng.random()
    if r < 0.5:
        t, e = gen_chain_layout(rng)
    elif r < 0.6:
        t, e = gen_twice_layout(rng)
    else:
        t, e = gen_fixed_layout(rng)
    return HEADER + t, e


def gen_twice_layout(rng: random.Random):
    "the same callable (one-line def, or a lambda in a loop / helper) used more than once while a captured variable changes"
    ind = "    "
    op = rng.choice(["Select", "Where"])
    gname, body = ("K", "e.x + K") if op == "Select" else ("CUT", "e.pt > CUT")
    kind = rng.choice(["def-global", "def-closure", "loop-lambda", "helper-lambda"])
    v1, v2 = rng.sample([5, 17, 40, 1000], 2)
    if kind == "def-global":
        return (f"def sel(e): return {body}\n\ndef build(ds):\n{ind}global {gname}\n{ind}{gname} = {v1}\n{ind}a = ds.{op}(sel)\n"
                f"{ind}{gname} = {v2}\n{ind}b = ds.{op}(sel)\n{ind}return (a, b)\n"), "supported"
    if kind == "def-closure":
        body2 = body.replace(gname, "loc")
        return (f"def build(ds):\n{ind}loc = {v1}\n{ind}def sel(e): return {body2}\n{ind}a = ds.{op}(sel)\n{ind}loc = {v2}\n"
                f"{ind}b = ds.{op}(sel)\n{ind}return (a, b)\n"), "supported"
    if kind == "loop-lambda":
        body2 = body.replace(gname, "cut")
        return (f"def build(ds):\n{ind}out = []\n{ind}for cut in ({v1}, {v2}, 3):\n{ind}{ind}out.append(ds.{op}(lambda e: {body2}))\n"
                f"{ind}return out\n"), "supported"
    body2 = body.replace(gname, "c")
    return (f"def make(ds, c):\n{ind}return ds.{op}(lambda e: {body2})\n\ndef build(ds):\n{ind}return [make(ds, {v1}), make(ds, {v2})]\n"), "supported"


def gen_fixed_layout(rng: random.Random):
    """returns (module text, expectation) where the module defines build(ds) performing the calls; expectation:
    'supported' (documented layout: must be recovered), 'ambiguous' (must raise), 'any' (may raise, must not be wrong),
    'known-mispick' (family of known finding F23)"""
    r = rng.random()
    ind = " " * rng.choice([4, 4, 8])
    v1, v2, v3 = rng.sample(["e", "j", "x", "evt", "t"], 3)
    op1, op2 = rng.choice(["Select", "Where", "SelectMany"]), rng.choice(["Select", "Where", "SelectMany"])
    pre = rng.choice(["", "", "key = lambda q: q  # a lambda on an earlier line\n" + ind, "s = 'lambda e: e'\n" + ind])
    comment = rng.choice(["", "", "  # lambda y: (", "  # ), ("])
    head = f"def build(ds):\n{ind}{pre}"
    if r < 0.2:
        text = f"{head}return ds.{op1}(lambda {v1}: {body_for(op1, rng, v1)}){comment}\n"
        return text, "supported"
    if r < 0.35:
        # two calls on one line, different methods or different argument names
        if op1 == op2:
            text = f"{head}return ds.{op1}(lambda {v1}: {body_for(op1, rng, v1)}).{op2}(lambda {v2}: {body_for(op2, rng, v2)}){comment}\n"
        else:
            text = f"{head}return ds.{op1}(lambda {v1}: {body_for(op1, rng, v1)}).{op2}(lambda {v1}: {body_for(op2, rng, v1)}){comment}\n"
        return text, "supported"
    if r < 0.43:
        text = f"{head}return ds.{op1}(lambda {v1}: {body_for(op1, rng, v1)}).{op1}(lambda {v1}: {body_for(op1, rng, v1)})\n"
        return text, "ambiguous"
    if r < 0.6:
        # black style
        lines = [f"{head}r = (", f"{ind}    ds.{op1}(lambda {v1}: {body_for(op1, rng, v1)}){comment}",
                 f"{ind}    .{op2}(lambda {v1}: {body_for(op2, rng, v1)})"]
        if rng.random() < 0.6:
            op3 = rng.choice(["Select", "Where"])
            lines += [f"{ind}    .{op3}(", f"{ind}        lambda {v1}: {body_for(op3, rng, v1)}", f"{ind}    )"]
        lines += [f"{ind})", f"{ind}return r"]
        return "\n".join(lines) + "\n", "supported"
    if r < 0.68:
        # argument on its own line(s)
        text = (f"{head}return ds.{op1}(\n{ind}    lambda {v1}: {body_for(op1, rng, v1)}{',' if rng.random() < 0.5 else ''}\n{ind})\n")
        return text, "supported"
    if r < 0.76:
        # inside other constructs
        kind = rng.choice(["if", "class", "nested-def", "with-other-call"])
        if kind == "if":
            text = f"def build(ds):\n{ind}if ds is not None:\n{ind}{ind}r = ds.{op1}(lambda {v1}: {body_for(op1, rng, v1)})\n{ind}else:\n{ind}{ind}r = None\n{ind}return r\n"
        elif kind == "class":
            text = (f"class Kls:\n{ind}def go(self, ds):\n{ind}{ind}return ds.{op1}(lambda {v1}: {body_for(op1, rng, v1)})\n\n"
                    f"def build(ds):\n{ind}return Kls().go(ds)\n")
        elif kind == "nested-def":
            text = (f"def build(ds):\n{ind}def inner(d):\n{ind}{ind}return d.{op1}(lambda {v1}: {body_for(op1, rng, v1)})\n{ind}return inner(ds)\n")
        else:
            text = f"def ident(z): return z\n\ndef build(ds):\n{ind}return ident(ds.{op1}(lambda {v1}: {body_for(op1, rng, v1)}))\n"
        return text, "supported"
    if r < 0.78:
        # one-line def
        text = f"def sel({v1}): return {body_for(op1, rng, v1).replace(chr(10), ' ')}\n\ndef build(ds):\n{ind}return ds.{op1}(sel)\n"
        return text, "supported"
    if r < 0.85:
        # the line of the passed callable also holds the OTHER kind of definition: a lambda written inside a one-line
        # function (its line starts with `def`), a one-line function under a decorator that holds a lambda: right or raise
        b = body_for(op1, rng, v1).replace(chr(10), ' ')
        kind = rng.choice(["lambda-in-one-line-def", "lambda-in-one-line-def", "decorated-def", "lambda-in-one-line-method",
                           "same-name-def-elsewhere", "same-name-def-elsewhere", "continuation-left-of-def", "continuation-left-of-def"])
        if kind == "continuation-left-of-def":
            # an indented one-statement function whose return expression continues on a line indented LESS than its `def`
            # (legal inside brackets): cutting the def's indentation off every line eats the start of that line
            deep = " " * rng.choice([8, 12])
            shallow = " " * rng.choice([0, 2, 4])
            other = rng.choice(["eta_value", "phi_index", "run_number"])
            text = (f"def build(ds):\n    if True:\n{deep}def sel({v1}):\n{deep}    return ({v1}.pt +\n{shallow}{v1}.{other})\n"
                    f"{deep}return ds.Select(sel)\n")
            return text, "any"
        if kind == "same-name-def-elsewhere":
            # the passed one-line function is a local def (or a method); functions of the SAME NAME with another body stand
            # above and below it in the file, at other nesting depths (seed C03-w7-2)
            other1 = body_for(op1, rng, v1).replace(chr(10), ' ')
            other2 = body_for(op1, rng, v1).replace(chr(10), ' ')
            where = rng.choice(["local", "method"])
            if where == "local":
                text = (f"def sel({v1}): return {other1}\n\ndef build(ds):\n{ind}def sel({v1}): return {b}\n{ind}return ds.{op1}(sel)\n\n"
                        f"def sel({v1}): return {other2}\n")
            else:
                text = (f"class K:\n{ind}@staticmethod\n{ind}def sel({v1}): return {b}\n\ndef build(ds):\n{ind}return ds.{op1}(K.sel)\n\n"
                        f"def sel({v1}): return {other2}\n")
            return text, "any"
        if kind == "lambda-in-one-line-def":
            text = f"def build(ds): return ds.{op1}(lambda {v1}: {b})\n"
        elif kind == "lambda-in-one-line-method":
            text = f"class K:\n{ind}def go(self, ds): return ds.{op1}(lambda {v1}: {b})\n\ndef build(ds): return K().go(ds)\n"
        else:
            text = (f"def deco(f):\n{ind}return lambda g: g\n\n@deco(lambda {v2}: {v2}.never)\ndef sel({v1}): return {b}\n\n"
                    f"def build(ds):\n{ind}return ds.{op1}(sel)\n")
        return text, "any"
    if r < 0.88:
        # another lambda on the same line that is not an operator argument
        kind = rng.choice(["before-semicolon", "in-tuple-call", "default-arg"])
        if kind == "before-semicolon":
            text = f"def build(ds):\n{ind}k = lambda {v2}: {v2}; return ds.{op1}(lambda {v1}: {body_for(op1, rng, v1)})\n"
        elif kind == "in-tuple-call":
            text = f"def build(ds):\n{ind}return (sorted([1], key=lambda {v2}: {v2}), ds.{op1}(lambda {v1}: {body_for(op1, rng, v1)}))[1]\n"
        else:
            text = f"def build(ds, f=lambda {v2}: {v2}):\n{ind}return ds.{op1}(lambda {v1}: {body_for(op1, rng, v1)})\n"
        return text, "any"
    if r < 0.945:
        # several operator calls side by side on one line (tuple / list / dict / keyword arguments), reached through a
        # short alias of the dataset (d, a, b, l, m, la ...): told apart by method or argument names -> supported;
        # same method and same argument names -> must raise, never record the neighbour
        alias = rng.choice(["d", "a", "b", "l", "m", "la", "da", "am", "data", "src2"])
        same = rng.random() < 0.25
        o2 = op1 if same or rng.random() < 0.5 else op2
        w2 = v1 if same or (o2 != op1 and rng.random() < 0.5) else v2
        c1 = f"ds.{op1}(lambda {v1}: {body_for(op1, rng, v1).replace(chr(10), ' ')})"
        c2 = f"{alias}.{o2}(lambda {w2}: {body_for(o2, rng, w2).replace(chr(10), ' ')})"
        shape = rng.choice(["({}, {})", "[{}, {}]", "dict(a={}, b={})", "{{'p': {}, 'q': {}}}", "pair({}, {})", "pair(a={}, b={})"])
        text = f"def pair(a, b): return (a, b)\n\ndef build(ds):\n{ind}{alias} = ds\n{ind}return {shape.format(c1, c2)}{comment}\n"
        return text, ("ambiguous" if (o2 == op1 and w2 == v1) else "supported")
    if r < 0.975:
        # the passed lambda is not written directly as the argument and is told apart from its neighbour by its
        # argument names: right or raise
        b1, b2 = "x + 100", "y + 200"
        kind = rng.choice(["conditional", "helper", "helper-chain"])
        if kind == "conditional":
            text = f"def build(ds, flag=False):\n{ind}return ds.Select((lambda x: {b1}) if flag else (lambda y: {b2}))\n"
        elif kind == "helper":
            text = f"def passthru(f): return f\n\ndef build(ds):\n{ind}return ds.Select(lambda x: {b1}).Select(passthru(lambda y: {b2}))\n"
        else:
            text = f"def passthru(f): return f\n\ndef build(ds):\n{ind}return ds.Where(lambda x: x > 0).Where(passthru(lambda y: y > 5))\n"
        return text, "any"
    if r < 0.985:
        # known finding: candidates are keyed by the NAME token before `lambda`; a lambda passed by keyword (f=lambda ...) or
        # written inside an ordinary Python lambda is keyed under another token, and a neighbour on the line with the same
        # argument names is recorded in its place
        kind = rng.choice(["keyword", "inside-lambda"])
        if kind == "keyword":
            text = f"def build(ds):\n{ind}return ds.Select(lambda e: e + 100).Select(f=lambda e: e + 200)\n"
        else:
            text = f"def lazy(t): return t()\n\ndef build(ds):\n{ind}return (ds.Select(lambda e: e + 100), lazy(lambda: ds.Select(lambda e: e + 200)))[1]\n"
        return text, "known-mispick-keyword"
    # the known mis-pick family: the passed lambda is not written directly as the argument
    kind = rng.choice(["conditional", "tuple"])
    b1, b2 = "x + 100", "x + 200"
    if kind == "conditional":
        text = f"def build(ds, flag=False):\n{ind}return ds.Select((lambda x: {b1}) if flag else (lambda x: {b2}))\n"
    else:
        text = f"def build(ds):\n{ind}sel = (lambda x: {b1}, lambda x: {b2})[1]\n{ind}return ds.Select(sel)\n"
    return text, "known-mispick"
