"""Generated class models for the type follower (C07, C08, C09): Python source (exec-ed against the real
func_adl decorators) together with the Lean `Model` S-expression, and typed lambda bodies with, for every
generated expression, what the properties predict: the normalised text (C07), the type (C08) and the
callback log / MetaData list (C09) — computed from the generator's own knowledge (inspect.Signature.bind for
the argument binding), never from the implementation."""
from __future__ import annotations

import ast
import inspect
import random
from dataclasses import dataclass, field
from typing import Any, Dict, List, Optional, Tuple

from sexpr import q

DEFAULT_VALUES = {
    "int": [0, 1, 7, -3, 1000],
    "float": [1.5, 0.0, -2.25, 1e22],
    "str": ["dflt", "GeV", "it's", "a b", ""],
    "bool": [True, False],
}


@dataclass
class ParamSpec:
    name: str
    ty: str
    default: Any = inspect.Parameter.empty

    @property
    def has_default(self):
        return self.default is not inspect.Parameter.empty


@dataclass
class CbDesc:
    tag: str
    md: Optional[dict]
    rename: Optional[str] = None
    add_arg: Optional[Any] = None


@dataclass
class MethodSpec:
    name: str
    params: List[ParamSpec]
    ret: Optional[str]  # python annotation text, None = no annotation
    cb: Optional[CbDesc] = None


@dataclass
class ClassSpec:
    name: str
    methods: List[MethodSpec]
    tparams: List[str] = field(default_factory=list)
    base: Optional[str] = None  # python text of the base, e.g. "Iterable[T]" / "ObjectStream[T]"
    class_cb: Optional[CbDesc] = None
    collection: bool = False
    props: List[Tuple[str, Optional[CbDesc], str]] = field(default_factory=list)  # (name, cb, ret annotation)
    generic_base: bool = False  # the class lists Generic[<tparams>] after its base (it declares its own parameter order)


@dataclass
class FuncSpec:
    name: str
    params: List[ParamSpec]
    ret: Optional[str]
    proc: Optional[CbDesc] = None


def rand_params(rng, n_max=4, names=None) -> List[ParamSpec]:
    n = rng.choice([0, 1, 1, 2, 2, 3, n_max])
    pool = names or ["scale", "unit", "idx", "name", "calib", "k", "quality", "min_pt"]
    chosen = rng.sample(pool, n)
    n_def = rng.randint(0, n)
    out = []
    for i, nm in enumerate(chosen):
        ty = rng.choice(["int", "float", "str", "bool", "int"])
        p = ParamSpec(nm, ty)
        if i >= n - n_def:
            p.default = rng.choice(DEFAULT_VALUES[ty])
        out.append(p)
    return out


def maybe_cb(rng, tag, p=0.3) -> Optional[CbDesc]:
    if rng.random() > p:
        return None
    r = rng.random()
    md = {"metadata_type": tag, "n": rng.randint(0, 9)} if rng.random() < 0.8 else None
    if r < 0.2:
        return CbDesc(tag, md, rename=None, add_arg=rng.choice([99, "cb"]))
    if r < 0.4 and "." in tag:
        # the callback renames the method (the emitted call names something the class does not declare)
        return CbDesc(tag, md, rename=tag.split(".")[1] + "_cal", add_arg=rng.choice([None, None, 7]))
    return CbDesc(tag, md)


class Library:
    "a randomly parameterised but structurally fixed family of classes"

    def __init__(self, rng: random.Random):
        self.rng = rng
        r = rng
        self.classes: Dict[str, ClassSpec] = {}
        self.funcs: Dict[str, FuncSpec] = {}
        trk = ClassSpec("Trk", [
            MethodSpec("pt", rand_params(r), "float", maybe_cb(r, "Trk.pt")),
            MethodSpec("q", [], "int"),
            MethodSpec("d0", rand_params(r, 2), "float"),
        ], class_cb=maybe_cb(r, "Trk", 0.25))
        cal = ClassSpec("Cal", [MethodSpec("e", rand_params(r, 2), "float"), MethodSpec("layer", [], "int")])
        jet = ClassSpec("Jet", [
            MethodSpec("pt", rand_params(r), "float", maybe_cb(r, "Jet.pt", 0.4)),
            MethodSpec("eta", rand_params(r, 2), "float"),
            MethodSpec("ntrk", rand_params(r), "int", maybe_cb(r, "Jet.ntrk", 0.2)),
            MethodSpec("trks", rand_params(r, 2), "Iterable[Trk]", maybe_cb(r, "Jet.trks", 0.3)),
            MethodSpec("cal", rand_params(r, 2), "Cal"),
            MethodSpec("isGood", rand_params(r, 1), "bool"),
            MethodSpec("untyped", rand_params(r, 2), None),
        ], class_cb=maybe_cb(r, "Jet", 0.4), props=[
            # a parameterized property: j.getAttr[<literal>](args).  Its callback may attach MetaData, rename the method
            # (the documented use: getAttr[float] -> getAttrFloat) and append an argument; it always drops the subscript
            ("getAttr", CbDesc("Jet.getAttr", r.choice([{"metadata_type": "attr"}, {"metadata_type": "attr", "n": r.randint(0, 9)}, None]),
                               rename=r.choice(["getAttrFloat", "getAttrFloat", None]), add_arg=r.choice([None, None, 5, "prm"])), "float"),
            # declared as a plain property, not decorated with func_adl_parameterized_call: using it with [..](..) is refused
            ("rawAttr", None, "float")])
        # class-level callbacks along an inheritance chain: a decorated class that inherits a method from an undecorated
        # base fires its own callback for it; an undecorated subclass inherits its base's
        vec = ClassSpec("Vec", [MethodSpec("lead", rand_params(r, 1), "T"), MethodSpec("size", [], "int")], tparams=["T"], base="Iterable[T]",
                        class_cb=maybe_cb(r, "Vec", 0.3))
        jvec = ClassSpec("JVec", [MethodSpec("hardest", [], "Jet")], base="Vec[Jet]", class_cb=maybe_cb(r, "JVec", 0.5))
        # a generic subclass that re-uses its base's type-variable NAME with a different binding
        grouped = ClassSpec("Grouped", [MethodSpec("first_group", rand_params(r, 1), "T"), MethodSpec("ngroups", [], "int")], tparams=["T"], base="Iterable[T]",
                            class_cb=maybe_cb(r, "Grouped", 0.3))
        lgroups = ClassSpec("ListGroups", [MethodSpec("flat_size", [], "int")], tparams=["T"], base="Grouped[Iterable[T]]",
                            class_cb=maybe_cb(r, "ListGroups", 0.5))
        # a generic subclass with MORE type variables than its base, declared in an order of its own: TVec[int, Jet] binds
        # U = int, T = Jet, so it is a Vec[Jet] (the base's T is the subclass's SECOND parameter)
        tvec = ClassSpec("TVec", [MethodSpec("tag", [], "U"), MethodSpec("tsize", rand_params(r, 1), "int")], tparams=["U", "T"], base="Vec[T]",
                         class_cb=maybe_cb(r, "TVec", 0.3), generic_base=True)
        evt = ClassSpec("Evt", [
            MethodSpec("tvec", rand_params(r, 1), "TVec[int, Jet]"),
            MethodSpec("jets", rand_params(r, 3), "Iterable[Jet]", maybe_cb(r, "Evt.jets", 0.4)),
            MethodSpec("trks", rand_params(r, 2), "Iterable[Trk]"),
            MethodSpec("jvec", rand_params(r, 1), "Vec[Jet]"),
            MethodSpec("jvec2", [], "JVec"),
            MethodSpec("jet_groups", rand_params(r, 1), "ListGroups[Jet]"),
            MethodSpec("met", rand_params(r, 2), "float"),
            MethodSpec("pt", rand_params(r), "float", maybe_cb(r, "Evt.pt", 0.3)),
            MethodSpec("njets", [], "int"),
            MethodSpec("lead", rand_params(r, 1), "Jet"),
            MethodSpec("flag", [], "bool"),
        ], class_cb=maybe_cb(r, "Evt", 0.25))
        coll = ClassSpec("JColl", [MethodSpec("Hardest", rand_params(r, 1), "T"), MethodSpec("NGood", rand_params(r, 2), "int")],
                         tparams=["T"], base="ObjectStream[T]", collection=True)
        for c in (trk, cal, jet, vec, jvec, tvec, grouped, lgroups, evt, coll):
            self.classes[c.name] = c
        self.use_coll = rng.random() < 0.5
        self.funcs["sqrtf"] = FuncSpec("sqrtf", [ParamSpec("x", "float"), ParamSpec("scale", "float", rng.choice([1.0, 2.5]))], "float", maybe_cb(r, "sqrtf", 0.5))
        self.funcs["delta"] = FuncSpec("delta", rand_params(r, 3, ["a", "b", "c", "mode"]), "float")
        # a registered function without a return annotation: its calls are normalised all the same, the type is unknown
        self.funcs["rawf"] = FuncSpec("rawf", [ParamSpec("x", "float"), ParamSpec("n", "int", 3)], None, maybe_cb(r, "rawf", 0.4))

    def class_cb_of(self, ty_text: str, fallback: ClassSpec) -> Optional[CbDesc]:
        "python's getattr on the object's class: its own class-level callback, else the nearest inherited one"
        name = ty_text.split("[", 1)[0]
        c = self.classes.get(name, fallback)
        for _ in range(8):
            if c.class_cb is not None:
                return c.class_cb
            b = (c.base or "").split("[", 1)[0]
            if b not in self.classes:
                return None
            c = self.classes[b]
        return None

    # ---- python source -----------------------------------------------------------------------------------
    @staticmethod
    def _sig(params: List[ParamSpec], with_self=True) -> str:
        parts = ["self"] if with_self else []
        for p in params:
            parts.append(f"{p.name}: {p.ty}" + (f" = {p.default!r}" if p.has_default else ""))
        return ", ".join(parts)

    @staticmethod
    def _cb_text(cb: CbDesc, parameterized=False) -> str:
        extra = ", param" if parameterized else ""
        lines = [f"def _cb_{cb.tag.replace('.', '_')}(s, a{extra}):",
                 f"    LOG.append(({cb.tag!r}, ast.unparse(a)" + (", repr(param)" if parameterized else "") + "))"]
        if cb.md is not None:
            lines.append(f"    s = s.MetaData({cb.md!r})")
        if cb.rename or cb.add_arg is not None:
            lines.append("    a = copy.copy(a)")
            if cb.rename:
                lines.append(f"    a.func = ast.Attribute(value=a.func.value, attr={cb.rename!r}, ctx=ast.Load()) if isinstance(a.func, ast.Attribute) else ast.Name({cb.rename!r}, ast.Load())")
            if cb.add_arg is not None:
                lines.append(f"    a.args = list(a.args) + [ast.Constant(value={cb.add_arg!r})]")
        lines.append("    return (s, a" + (", float" if parameterized else "") + ")")
        return "\n".join(lines)

    def source(self) -> str:
        out = ["import ast, copy", "from typing import Iterable, Generic, TypeVar", "from func_adl import ObjectStream, func_adl_callable, func_adl_callback, func_adl_parameterized_call, register_func_adl_os_collection",
               "T = TypeVar('T')", "U = TypeVar('U')", "LOG = []", ""]
        order = ["Trk", "Cal", "Jet", "Vec", "JVec", "TVec", "Grouped", "ListGroups", "Evt"] + (["JColl"] if self.use_coll else [])
        for name in order:
            c = self.classes[name]
            cbs = [c.class_cb] + [m.cb for m in c.methods]
            for cb in cbs:
                if cb:
                    out.append(self._cb_text(cb))
            for pn, pcb, _ in c.props:
                if pcb:
                    out.append(self._cb_text(pcb, parameterized=True))
            if c.class_cb:
                out.append(f"@func_adl_callback(_cb_{c.class_cb.tag.replace('.', '_')})")
            if c.collection:
                out.append("@register_func_adl_os_collection")
            bases = f"({c.base})" if c.base else ""
            if c.generic_base:
                bases = f"({c.base}, Generic[{', '.join(c.tparams)}])"
            out.append(f"class {c.name}{bases}:")
            for m in c.methods:
                if m.cb:
                    out.append(f"    @func_adl_callback(_cb_{m.cb.tag.replace('.', '_')})")
                ret = f" -> {m.ret}" if m.ret else ""
                out.append(f"    def {m.name}({self._sig(m.params)}){ret}: ...")
            for pn, pcb, pret in c.props:
                if pcb:
                    out.append(f"    @func_adl_parameterized_call(_cb_{pcb.tag.replace('.', '_')})")
                out.append("    @property")
                out.append(f"    def {pn}(self): ...")
            out.append("")
        for f in self.funcs.values():
            if f.proc:
                out.append(self._cb_text(f.proc))
                out.append(f"@func_adl_callable(_cb_{f.proc.tag.replace('.', '_')})")
            else:
                out.append("@func_adl_callable()")
            out.append(f"def {f.name}({self._sig(f.params, with_self=False)})" + (f" -> {f.ret}" if f.ret else "") + ": ...")
            out.append("")
        return "\n".join(out)

    # ---- Lean model ---------------------------------------------------------------------------------------
    @staticmethod
    def _ty(text: Optional[str]) -> str:
        if text is None:
            return "none"
        return f"(some {Library._ty1(text)})"

    @staticmethod
    def _ty1(text: str) -> str:
        text = text.strip()
        if text in ("int", "float", "bool", "str"):
            return text
        if text in ("T", "U"):
            return f'(tvar "{text}")'
        if text.startswith("Iterable["):
            return f"(iterable {Library._ty1(text[9:-1])})"
        if text.startswith("ObjectStream["):
            return f'(cls "ObjectStream" ({Library._ty1(text[13:-1])}))' 
        if "[" in text:
            n, a = text.split("[", 1)
            # top-level commas separate the arguments
            parts, depth, cur = [], 0, ""
            for ch in a[:-1]:
                if ch == "[":
                    depth += 1
                elif ch == "]":
                    depth -= 1
                if ch == "," and depth == 0:
                    parts.append(cur)
                    cur = ""
                else:
                    cur += ch
            parts.append(cur)
            return f'(cls {q(n)} ({" ".join(Library._ty1(x) for x in parts)}))'
        return f'(cls {q(text)} ())'

    @staticmethod
    def _const(v) -> str:
        from astcodec import enc_const

        return enc_const(v)

    @staticmethod
    def _cb(cb: Optional[CbDesc]) -> str:
        if cb is None:
            return "none"
        from common import pyval_sexpr

        md = f"(some {pyval_sexpr(cb.md)})" if cb.md is not None else "none"
        rn = f"(some {q(cb.rename)})" if cb.rename else "none"
        aa = f"(some {Library._const(cb.add_arg)})" if cb.add_arg is not None else "none"
        return f"(some ({q(cb.tag)} {md} {rn} {aa}))"

    @staticmethod
    def _params(ps: List[ParamSpec]) -> str:
        return "(" + " ".join(f"({q(p.name)} " + (f"(some {Library._const(p.default)})" if p.has_default else "none") + ")" for p in ps) + ")"

    def model(self) -> str:
        cls_parts = []
        # registration order of collection classes: the library's own first
        cls_parts.append('("ObjectStreamInternalMethods" ("StreamItem") (some (cls "ObjectStream" ((tvar "StreamItem")))) '
                         '(("First" () (some (tvar "StreamItem")) none) ("Count" () (some int) none)) () none true)')
        cls_parts.append('("ObjectStream" ("T") none (("Select" (("f" none)) (some (cls "ObjectStream" ((tvar "S")))) none) '
                         '("SelectMany" (("func" none)) (some (cls "ObjectStream" ((tvar "S")))) none) ("Where" (("filter" none)) (some (cls "ObjectStream" ((tvar "T")))) none)) () none false)')
        order = ["Trk", "Cal", "Jet", "Vec", "JVec", "TVec", "Grouped", "ListGroups", "Evt"] + (["JColl"] if self.use_coll else [])
        for name in order:
            c = self.classes[name]
            ms = " ".join(f"({q(m.name)} {self._params(m.params)} {self._ty(m.ret)} {self._cb(m.cb)})" for m in c.methods)
            ps = " ".join(f"({q(pn)} {self._cb(pcb)} {self._ty1(pret)})" for pn, pcb, pret in c.props)
            tps = " ".join(q(t) for t in c.tparams)
            cls_parts.append(f"({q(c.name)} ({tps}) {self._ty(c.base)} ({ms}) ({ps}) {self._cb(c.class_cb)} {'true' if c.collection else 'false'})")
        fs = ['("abs" (("x" none)) (some float) none)', '("len" (("x" none)) (some int) none)']
        for f in self.funcs.values():
            fs.append(f"({q(f.name)} {self._params(f.params)} {self._ty(f.ret)} {self._cb(f.proc)})")
        return "((" + " ".join(cls_parts) + ") (" + " ".join(fs) + "))"


# ---- typed expressions -----------------------------------------------------------------------------------------
@dataclass
class TExpr:
    src: str          # what the user writes
    norm: str         # what C07 says must be emitted
    ty: str           # python annotation text of the expected type ("Any" when unknown)
    log: List[str]    # callback tags in firing order (C09)
    md: List[dict]    # MetaData dictionaries in attachment order (C09)
    refusal: Optional[str] = None   # expected ValueError (missing required argument, non-boolean filter …)


class TypedGen:
    def __init__(self, rng: random.Random, lib: Library):
        self.rng = rng
        self.lib = lib
        self.counter = 0

    def fresh(self, avoid=()) -> str:
        pool = [n for n in ["e", "j", "t", "x", "y", "jet", "trk", "e", "j"] if n not in avoid]
        if self.rng.random() < 0.35 and avoid:
            return self.rng.choice(list(avoid))  # re-use a live name on purpose
        return self.rng.choice(pool)

    def lit(self, ty: str) -> TExpr:
        v = self.rng.choice(DEFAULT_VALUES[ty])
        return TExpr(repr(v), repr(v), ty, [], [])

    def arg_expr(self, ty: str, scope, d) -> TExpr:
        if d > 0 and self.rng.random() < 0.3 and ty in ("int", "float"):
            return self.scalar(scope, d - 1, want=ty)
        return self.lit(ty)

    def call(self, recv: TExpr, cls: ClassSpec, m: MethodSpec, scope, d, defining: Optional[ClassSpec] = None, tbind=None) -> TExpr:
        "a call of method m on recv with a generated argument shape; norm/log/md per the properties"
        rng = self.rng
        params = m.params
        r = rng.random()
        # which parameters does the user give, and how
        given = []
        for p in params:
            if not p.has_default or rng.random() < 0.5:
                given.append(p)
        missing_required = None
        if params and rng.random() < 0.06:
            req = [p for p in params if not p.has_default]
            if req:
                missing_required = rng.choice(req)
                given = [p for p in given if p is not missing_required]
        # positional prefix: must be a prefix of the parameter list
        n_pos = 0
        for p in params:
            if p in given and rng.random() < 0.6:
                n_pos += 1
            else:
                break
        pos = params[:n_pos]
        kws = [p for p in given if p not in pos]
        rng.shuffle(kws)
        exprs = {p.name: self.arg_expr(p.ty, scope, d - 1) for p in pos + kws}
        src_args = [exprs[p.name].src for p in pos] + [f"{p.name}={exprs[p.name].src}" for p in kws]
        log = list(recv.log)
        md = list(recv.md)
        for p in pos + kws:
            log += exprs[p.name].log
            md += exprs[p.name].md
        refusal = recv.refusal or next((exprs[p.name].refusal for p in pos + kws if exprs[p.name].refusal), None)
        norm_args = []
        if missing_required is not None and refusal is None:
            refusal = f"Argument {missing_required.name} is required"
        for p in params:
            if p.name in exprs:
                norm_args.append(exprs[p.name].norm)
            elif p.has_default:
                norm_args.append(repr(p.default))
        name = m.name
        for cb in (self.lib.class_cb_of(recv.ty, cls), m.cb):
            if cb:
                log.append(cb.tag)
                if cb.md is not None:
                    md.append(cb.md)
                if cb.rename:
                    name = cb.rename
                if cb.add_arg is not None:
                    norm_args.append(repr(cb.add_arg))
        ty = m.ret if m.ret else "Any"
        if tbind and ty in tbind:
            ty = tbind[ty]
        return TExpr(f"{recv.src}.{m.name}({', '.join(src_args)})", f"{recv.norm}.{name}({', '.join(norm_args)})", ty, log, md, refusal)

    PARAM_LITERALS = ["'pt'", "22", "-1", "1.5", "True", "None", "('a', 1)", "['x', 'y']", "{'k': 1}", "'it''s'", "'a\\nb'", "'j.pt()'",
                      "(1, (2, 'z'))", "b'ab'", "'getAttrFloat'", "0"]

    def param_call(self, scope, d) -> Optional[TExpr]:
        """j.getAttr[<literal>](args…): a parameterized property (C09).  The callback receives the call WITHOUT the subscript
        and the literal's VALUE; what it returns is what is emitted.  Also: an undecorated property and a subscript that is
        not a literal (both refused with ValueError)."""
        rng = self.rng
        try:
            j = self.obj("Jet", scope, d - 1)
        except RuntimeError:
            return None
        if j.ty != "Jet":
            return None
        jet = self.lib.classes["Jet"]
        r = rng.random()
        pname, pcb, pret = jet.props[0]
        refusal = j.refusal
        lit = rng.choice(self.PARAM_LITERALS)
        if r < 0.08:
            pname, pcb, pret = jet.props[1]
            refusal = refusal or "Property was not decorated with func_adl_parameterized_call"
        elif r < 0.16:
            names = [n for n, _ in self.visible(scope)]
            lit = rng.choice([f"{names[0]}", "abs(1)", f"({names[0]}, 1)", "1 + 1"])
            refusal = refusal or "the subscript of a parameterized property must be a literal"
        nargs = rng.choice([0, 1, 1, 2])
        args = [self.arg_expr(rng.choice(["int", "float", "str"]), scope, d - 1) for _ in range(nargs)]
        kw = None
        if rng.random() < 0.2:
            kw = ("unit", self.lit("str"))
        log, md = list(j.log), list(j.md)
        for a in args + ([kw[1]] if kw else []):
            log += a.log
            md += a.md
            refusal = refusal or a.refusal
        src_args = [a.src for a in args] + ([f"{kw[0]}={kw[1].src}"] if kw else [])
        norm_args = [a.norm for a in args]
        name = pname
        if pcb is not None and refusal is None:
            import ast as _ast

            # the tag of a parameterized-property callback carries the VALUE the callback must receive (C09: "by value")
            log.append(pcb.tag + "\x00" + repr(_ast.literal_eval(lit)))
            if pcb.md is not None:
                md.append(pcb.md)
            if pcb.rename:
                name = pcb.rename
            if pcb.add_arg is not None:
                norm_args.append(repr(pcb.add_arg))
        norm_args += [f"{kw[0]}={kw[1].norm}"] if kw else []
        return TExpr(f"{j.src}.{pname}[{lit}]({', '.join(src_args)})", f"{j.norm}.{name}({', '.join(norm_args)})", "float", log, md, refusal)

    def odd_call(self, scope, d, want) -> Optional[TExpr]:
        """rarely used corners of the call rules: a registered function without its required argument (ValueError), a
        registered function without return annotation (normalised, type unknown), a property called like a method
        (ValueError: not a function or method)"""
        rng = self.rng
        k = rng.randrange(3)
        if k == 0:
            shape = rng.choice(["sqrtf()", "sqrtf(scale=2.0)", "rawf(n=1)"])
            return TExpr(shape, shape, "float", [], [], "Error processing function call: a required argument is missing")
        if k == 1:
            a = self.scalar(scope, d - 1, "float")
            f = self.lib.funcs["rawf"]
            shape = rng.randrange(3)
            src = [f"rawf({a.src})", f"rawf(n=8, x={a.src})", f"rawf({a.src}, 9)"][shape]
            args = [a.norm, ["3", "8", "9"][shape]]
            log, md = list(a.log), list(a.md)
            if f.proc:
                log.append(f.proc.tag)
                if f.proc.md is not None:
                    md.append(f.proc.md)
                if f.proc.add_arg is not None:
                    args.append(repr(f.proc.add_arg))
            # no return annotation: Any - usable where a number is wanted only at the top of a Select
            if want != "top":
                return None
            return TExpr(src, f"rawf({', '.join(args)})", "Any", log, md, a.refusal)
        try:
            j = self.obj("Jet", scope, d - 1)
        except RuntimeError:
            return None
        if j.ty != "Jet":
            return None
        pn = rng.choice(["getAttr", "rawAttr"])
        return TExpr(f"{j.src}.{pn}(1)", f"{j.norm}.{pn}(1)", "float", j.log, j.md,
                     j.refusal or "a property is not a function or method [oracle only]")

    def obj(self, cls_name: str, scope, d) -> TExpr:
        "an expression of class type cls_name"
        vs = [n for n, t in self.visible(scope) if t == cls_name]
        if vs and (d <= 0 or self.rng.random() < 0.7):
            n = self.rng.choice(vs)
            return TExpr(n, n, cls_name, [], [])
        lib = self.lib
        if cls_name == "Jet":
            choices = []
            ev = [n for n, t in self.visible(scope) if t == "Evt"]
            if ev:
                e = TExpr(ev[0], ev[0], "Evt", [], [])
                choices.append(lambda: self.call(e, lib.classes["Evt"], self.m("Evt", "lead"), scope, d))
                choices.append(lambda: self.first(self.seq("Jet", scope, d - 1)))
                choices.append(lambda: self.call(self.call(e, lib.classes["Evt"], self.m("Evt", "jvec"), scope, d), lib.classes["Vec"], self.m("Vec", "lead"), scope, d, tbind={"T": "Jet"}))
                choices.append(lambda: self.call(self.call(e, lib.classes["Evt"], self.m("Evt", "jvec2"), scope, d), lib.classes["JVec"], self.m("JVec", "hardest"), scope, d))
                choices.append(lambda: self.call(self.call(e, lib.classes["Evt"], self.m("Evt", "jvec2"), scope, d), lib.classes["Vec"], self.m("Vec", "lead"), scope, d, tbind={"T": "Jet"}))
                # Vec.lead() -> T through TVec[int, Jet]: T is Jet (the subclass's second parameter); and its element type
                choices.append(lambda: self.call(self.call(e, lib.classes["Evt"], self.m("Evt", "tvec"), scope, d), lib.classes["Vec"], self.m("Vec", "lead"), scope, d, tbind={"T": "Jet"}))
                choices.append(lambda: self.first(TExpr(**{**self.call(e, lib.classes["Evt"], self.m("Evt", "tvec"), scope, d).__dict__, "ty": "Iterable[Jet]"})))
            if choices:
                return self.rng.choice(choices)()
        if cls_name == "Cal":
            j = self.obj("Jet", scope, d - 1)
            return self.call(j, lib.classes["Jet"], self.m("Jet", "cal"), scope, d)
        if cls_name == "Trk":
            return self.first(self.seq("Trk", scope, d - 1))
        if vs:
            n = self.rng.choice(vs)
            return TExpr(n, n, cls_name, [], [])
        raise RuntimeError(f"no way to build {cls_name} in {scope}")

    def m(self, cls, name) -> MethodSpec:
        return next(x for x in self.lib.classes[cls].methods if x.name == name)

    @staticmethod
    def visible(scope):
        seen = {}
        for n, t in scope:
            seen[n] = t
        return list(seen.items())

    def first(self, s: TExpr) -> TExpr:
        el = s.ty[len("Iterable["):-1] if s.ty.startswith("Iterable[") else "Any"
        return TExpr(f"{s.src}.First()", f"{s.norm}.First()", el, s.log, s.md, s.refusal)

    def seq(self, el: str, scope, d) -> TExpr:
        "an expression of type Iterable[el]"
        lib = self.lib
        ev = [n for n, t in self.visible(scope) if t == "Evt"]
        jv = [n for n, t in self.visible(scope) if t == "Jet"]
        base = None
        if el == "Jet" and ev:
            e = TExpr(ev[0], ev[0], "Evt", [], [])
            if self.rng.random() < 0.2:
                g = self.call(e, lib.classes["Evt"], self.m("Evt", "jet_groups"), scope, d)
                base = self.call(g, lib.classes["Grouped"], self.m("Grouped", "first_group"), scope, d, tbind={"T": "Iterable[Jet]"})
            else:
                base = self.call(e, lib.classes["Evt"], self.m("Evt", "jets"), scope, d)
        elif el == "Trk":
            if jv and self.rng.random() < 0.7:
                j = TExpr(jv[0], jv[0], "Jet", [], [])
                base = self.call(j, lib.classes["Jet"], self.m("Jet", "trks"), scope, d)
            elif ev:
                e = TExpr(ev[0], ev[0], "Evt", [], [])
                base = self.call(e, lib.classes["Evt"], self.m("Evt", "trks"), scope, d)
        if base is None:
            # map from jets
            if el in ("float", "int", "bool") and (ev or jv):
                src = self.seq("Jet" if ev else "Trk", scope, d - 1)
                return self.select(src, scope, d, want=el)
            raise RuntimeError(f"no sequence of {el}")
        if d > 0 and self.rng.random() < 0.35:
            base = self.where(base, scope, d - 1)
        return base

    def elem_of(self, s: TExpr) -> str:
        return s.ty[len("Iterable["):-1] if s.ty.startswith("Iterable[") else "Any"

    def lam(self, param_ty: str, scope, d, want: str):
        x = self.fresh([n for n, _ in scope])
        sc = scope + [(x, param_ty)]
        if want == "bool":
            b = self.boolean(sc, d)
        elif want in ("int", "float"):
            b = self.scalar(sc, d, want=want)
        elif want.startswith("Iterable["):
            b = self.seq(want[9:-1], sc, d)
        else:
            b = self.obj(want, sc, d)
        return x, b

    def select(self, s: TExpr, scope, d, want: str) -> TExpr:
        x, b = self.lam(self.elem_of(s), scope, d - 1, want)
        kw = "f=" if self.rng.random() < 0.25 else ""  # the lambda passed by keyword: emitted positionally, still followed
        return TExpr(f"{s.src}.Select({kw}lambda {x}: {b.src})", f"{s.norm}.Select(lambda {x}: {b.norm})", f"Iterable[{b.ty}]",
                     s.log + b.log, s.md + b.md, s.refusal or b.refusal)

    def where(self, s: TExpr, scope, d) -> TExpr:
        x, b = self.lam(self.elem_of(s), scope, d - 1, "bool")
        kw = "filter=" if self.rng.random() < 0.25 else ""
        return TExpr(f"{s.src}.Where({kw}lambda {x}: {b.src})", f"{s.norm}.Where(lambda {x}: {b.norm})", s.ty,
                     s.log + b.log, s.md + b.md, s.refusal or b.refusal)

    def called(self, scope, d, make):
        """(lambda p…: BODY)(ARG…): an immediately called lambda whose parameter is bound to a typed object; the body
        (built by `make(scope)`) must be followed with the argument's type: defaults, callbacks, return type."""
        rng = self.rng
        objs = [(n, t) for n, t in self.visible(scope) if t in self.lib.classes]
        if not objs:
            return None
        n, t = rng.choice(objs)
        arg = TExpr(n, n, t, [], [])
        if rng.random() < 0.4 and d > 1:
            try:
                arg = self.obj(rng.choice(["Jet", "Trk"]), scope, d - 2)
            except RuntimeError:
                pass
        if arg.ty not in self.lib.classes:
            return None
        p = n if rng.random() < 0.25 else self.fresh([x for x, _ in scope])
        sc = scope + [(p, arg.ty)]
        extra = None
        if rng.random() < 0.3:
            q2 = self.rng.choice([x for x in ["u", "w", "k2", "z"] if x != p])
            extra = (q2, self.lit("int"))
            sc = sc + [(q2, "int")]
        body = make(sc)
        shape = rng.randrange(3)
        params = p + (f", {extra[0]}" if extra else "")
        if shape == 0 or (shape == 2 and not extra):
            args_src = arg.src + (f", {extra[1].src}" if extra else "")
            args_norm = arg.norm + (f", {extra[1].norm}" if extra else "")
        elif shape == 1:
            args_src = f"{p}={arg.src}" + (f", {extra[0]}={extra[1].src}" if extra else "")
            args_norm = f"{p}={arg.norm}" + (f", {extra[0]}={extra[1].norm}" if extra else "")
        else:
            args_src = f"{arg.src}, {extra[0]}={extra[1].src}"
            args_norm = f"{arg.norm}, {extra[0]}={extra[1].norm}"
        return TExpr(f"(lambda {params}: {body.src})({args_src})", f"(lambda {params}: {body.norm})({args_norm})", body.ty,
                     arg.log + body.log, arg.md + body.md, arg.refusal or body.refusal)

    def scalar(self, scope, d, want="float") -> TExpr:
        rng = self.rng
        lib = self.lib
        if d > 0 and rng.random() < 0.08:
            c = self.called(scope, d, lambda sc: self.scalar(sc, d - 1, want))
            if c is not None:
                return c
        if want == "float" and d > 0 and rng.random() < 0.1:
            c = self.param_call(scope, d)
            if c is not None:
                return c
        if d > 0 and rng.random() < 0.06:
            c = self.odd_call(scope, d, want)
            if c is not None:
                return c
        objs = [(n, t) for n, t in self.visible(scope) if t in lib.classes]
        r = rng.random()
        if not objs or d <= 0 and r < 0.2:
            return self.lit(want if want in DEFAULT_VALUES else "int")
        n, t = rng.choice(objs)
        recv = TExpr(n, n, t, [], [])
        cls = lib.classes[t]
        cands = [m for m in cls.methods if m.ret == want]
        if r < 0.55 and cands:
            return self.call(recv, cls, rng.choice(cands), scope, d)
        if r < 0.65 and d > 0:
            a, b = self.scalar(scope, d - 1, want), self.scalar(scope, d - 1, rng.choice(["int", "float"]))
            op = rng.choice(["+", "-", "*"])
            ty = "float" if "float" in (a.ty, b.ty) else "int"
            if "Any" in (a.ty, b.ty):
                ty = "Any"
            return TExpr(f"({a.src} {op} {b.src})", f"({a.norm} {op} {b.norm})", ty, a.log + b.log, a.md + b.md, a.refusal or b.refusal)
        if r < 0.72 and d > 0 and want == "float":
            a = self.scalar(scope, d - 1, "float")
            f = lib.funcs["sqrtf"]
            log, md, args = list(a.log), list(a.md), [a.norm, repr(f.params[1].default)]
            shape = rng.randrange(4)
            src = [f"sqrtf({a.src})", f"sqrtf(x={a.src})", f"sqrtf({a.src}, scale=3.5)", f"sqrtf(scale=3.5, x={a.src})"][shape]
            if shape >= 2:
                args[1] = "3.5"
            if f.proc:
                log.append(f.proc.tag)
                if f.proc.md is not None:
                    md.append(f.proc.md)
                if f.proc.add_arg is not None:
                    args.append(repr(f.proc.add_arg))
            return TExpr(src, f"sqrtf({', '.join(args)})", "float", log, md, a.refusal)
        if r < 0.8 and d > 0 and want == "int":
            s = self.seq(rng.choice(["Jet", "Trk"]), scope, d - 1) if any(t == "Evt" or t == "Jet" for _, t in objs) else None
            if s is not None:
                return TExpr(f"{s.src}.Count()", f"{s.norm}.Count()", "int", s.log, s.md, s.refusal)
        if r < 0.88 and d > 0:
            try:
                o = self.obj(rng.choice(["Jet", "Cal", "Trk"]), scope, d - 1)
            except RuntimeError:
                o = None
            if o is not None and o.ty in lib.classes:
                cands2 = [m for m in lib.classes[o.ty].methods if m.ret == want]
                if cands2:
                    return self.call(o, lib.classes[o.ty], rng.choice(cands2), scope, d)
        if cands:
            return self.call(recv, cls, rng.choice(cands), scope, d)
        return self.lit(want if want in DEFAULT_VALUES else "int")

    def boolean(self, scope, d) -> TExpr:
        rng = self.rng
        if d > 0 and rng.random() < 0.08:
            c = self.called(scope, d, lambda sc: self.boolean(sc, d - 1))
            if c is not None:
                return c
        r = rng.random()
        if r < 0.55 or d <= 0:
            a, b = self.scalar(scope, d - 1, rng.choice(["float", "int"])), self.scalar(scope, d - 1, "float")
            op = rng.choice([">", "<", ">=", "==", "!="])
            return TExpr(f"({a.src} {op} {b.src})", f"({a.norm} {op} {b.norm})", "bool", a.log + b.log, a.md + b.md, a.refusal or b.refusal)
        if r < 0.75:
            a, b = self.boolean(scope, d - 1), self.boolean(scope, d - 1)
            op = rng.choice(["and", "or"])
            return TExpr(f"({a.src} {op} {b.src})", f"({a.norm} {op} {b.norm})", "bool", a.log + b.log, a.md + b.md, a.refusal or b.refusal)
        if r < 0.85:
            a = self.boolean(scope, d - 1)
            return TExpr(f"(not {a.src})", f"(not {a.norm})", "bool", a.log, a.md, a.refusal)
        objs = [(n, t) for n, t in self.visible(scope) if t in ("Jet", "Evt")]
        if objs:
            n, t = rng.choice(objs)
            m = self.m(t, "isGood" if t == "Jet" else "flag")
            return self.call(TExpr(n, n, t, [], []), self.lib.classes[t], m, scope, d)
        return self.boolean(scope, 0)

    def top(self, op: str, d: int) -> TExpr:
        "body of a lambda over an event for operator `op`"
        rng = self.rng
        scope_param = rng.choice(["e", "e", "evt", "j"])
        scope = [(scope_param, "Evt")]
        if op == "Where":
            b = self.boolean(scope, d) if rng.random() < 0.9 else self.scalar(scope, d, "int")
            if b.ty != "bool" and b.refusal is None:
                b.refusal = "The Where filter must return a boolean"
        elif op == "SelectMany":
            b = self.seq(rng.choice(["Jet", "Trk"]), scope, d)
        else:
            r = rng.random()
            c = None
            if rng.random() < 0.12:
                # an immediately called lambda whose body holds a collection operator: the operator's lambda sees the called
                # lambda's parameter (typed by the argument) next to its own
                want = rng.choice(["float", "int", "bool"])
                c = self.called(scope, max(d, 2), lambda sc: self.select(self.seq(rng.choice(["Jet", "Trk"]), sc, 1), sc, 2, want))
            if c is not None:
                b = c
            elif r < 0.04:
                b = self.odd_call(scope, max(d, 1), "top") or self.scalar(scope, d, "float")
            elif r < 0.35:
                b = self.scalar(scope, d, rng.choice(["float", "int"]))
            elif r < 0.6:
                s = self.seq(rng.choice(["Jet", "Trk"]), scope, d - 1)
                b = self.select(s, scope, d, rng.choice(["float", "int", "bool"]))
            elif r < 0.7:
                b = self.seq(rng.choice(["Jet", "Trk"]), scope, d)
            elif r < 0.8:
                b = self.obj(rng.choice(["Jet", "Cal"]), scope, d)
            elif r < 0.9:
                a, c = self.scalar(scope, d - 1, "float"), self.scalar(scope, d - 1, "int")
                b = TExpr(f"({a.src}, {c.src})", f"({a.norm}, {c.norm})", "Any", a.log + c.log, a.md + c.md, a.refusal or c.refusal)
            else:
                # field / element types vary from query to query (float, int, bool under the same keys)
                def _field(ty):
                    return self.boolean(scope, d - 1) if ty == "bool" else self.scalar(scope, d - 1, ty)
                a, c = _field(rng.choice(["float", "float", "int", "bool"])), _field(rng.choice(["int", "int", "float", "bool"]))
                # projections out of a literal: the type is the one recorded for that element when the literal was visited;
                # a field of a value BUILT from a dictionary literal (the parameter of an immediately called lambda): the
                # field's type in the dataclass made for that literal
                shape = rng.choice(["attr", "attr", "key", "key2", "tup0", "tup1", "tupT", "dcattr", "dcattr2", "dckey", "dupattr", "dupattr2"])
                if shape in ("dcattr", "dcattr2", "dckey"):
                    dv = rng.choice(["d", "rec", "x"])
                    use, ty = {"dcattr": (f"{dv}.pt", a.ty), "dcattr2": (f"{dv}.n", c.ty), "dckey": (f"{dv}['n']", c.ty)}[shape]
                    lit_s, lit_n = "{'pt': %s, 'n': %s}" % (a.src, c.src), "{'pt': %s, 'n': %s}" % (a.norm, c.norm)
                    kw = rng.random() < 0.3
                    b = TExpr(f"(lambda {dv}: {use})({dv + '=' if kw else ''}{lit_s})", f"(lambda {dv}: {use})({dv + '=' if kw else ''}{lit_n})", ty,
                              a.log + c.log, a.md + c.md, a.refusal or c.refusal)
                    return scope_param, b
                if shape in ("dupattr", "dupattr2"):
                    # the same key twice: the value - and so the type - of the field is the LAST entry's
                    if shape == "dupattr":
                        lit_s, lit_n, ty = "{'pt': %s, 'n': 1, 'pt': %s}" % (c.src, a.src), "{'pt': %s, 'n': 1, 'pt': %s}" % (c.norm, a.norm), a.ty
                        logs, mds = c.log + a.log, c.md + a.md
                    else:
                        lit_s, lit_n, ty = "{'pt': %s, 'pt': %s, 'n': 1}" % (a.src, c.src), "{'pt': %s, 'pt': %s, 'n': 1}" % (a.norm, c.norm), c.ty
                        logs, mds = a.log + c.log, a.md + c.md
                    b = TExpr(lit_s + ".pt", lit_n + ".pt", ty, logs, mds, a.refusal or c.refusal)
                    return scope_param, b
                if shape == "attr":
                    pre, post, ty = "{'pt': %s, 'n': %s}", ".pt", a.ty
                elif shape == "key":
                    pre, post, ty = "{'pt': %s, 'n': %s}", "['pt']", a.ty
                elif shape == "key2":
                    pre, post, ty = "{'pt': %s, 'n': %s}", "['n']", c.ty
                elif shape == "tup0":
                    pre, post, ty = "(%s, %s)", "[0]", a.ty
                elif shape == "tup1":
                    pre, post, ty = "(%s, %s)", "[1]", c.ty
                else:
                    pre, post, ty = "(%s, %s)", "[True]", c.ty
                b = TExpr(pre % (a.src, c.src) + post, pre % (a.norm, c.norm) + post, ty, a.log + c.log, a.md + c.md, a.refusal or c.refusal)
        return scope_param, b
