"""Seeded Python values for the embedding entry points (C13)."""
from __future__ import annotations

import random
import struct

ALPHABETS = [
    "abcXYZ019_ ",
    "'\"`",
    "\\",
    "\n\r\t\x00\x1b\x7f",
    "()[]{},:;.=+-*/%<>!&|^~@#$?",
    "éÿ\xa0\xad",
    "Āλж€ ​",
    "日本語😀𝑝\U0010ffff",
]
CODE_LIKE = ["'; import os; '", "lambda x: x", "__import__('os')", "a' + 'b", "\\'", "\\", "'", '"', "'''", '"""',
             "x)", "# c", "f'{x}'", "\\n", "%s", "{0}", "a\\", "\\\\'", "b'x'", "None", "1e5", "-1"]


def gen_str(rng: random.Random) -> str:
    r = rng.random()
    if r < 0.2:
        return rng.choice(CODE_LIKE)
    if r < 0.3:
        return rng.choice(["", "pt", "jets", "col1", "file.root", "my tree"])
    n = rng.choice([1, 1, 2, 3, 5, 9])
    pools = rng.sample(ALPHABETS, rng.choice([1, 2, 3]))
    return "".join(rng.choice(rng.choice(pools)) for _ in range(n))


def gen_float(rng: random.Random) -> float:
    r = rng.random()
    if r < 0.3:
        return rng.choice([0.0, -0.0, 1.0, -1.5, 1e22, 1e-7, 1.7976931348623157e308, 5e-324, 2.2250738585072014e-308,
                           0.1, 1 / 3, -2.5e-5, 1e16, 123456789.123456789])
    if r < 0.6:
        return rng.uniform(-1000, 1000)
    while True:
        f = struct.unpack("<d", struct.pack("<Q", rng.getrandbits(64)))[0]
        if f == f and f not in (float("inf"), float("-inf")):
            return f


def gen_scalar(rng: random.Random):
    r = rng.random()
    if r < 0.4:
        return gen_str(rng)
    if r < 0.6:
        return rng.choice([0, 1, -1, 7, -42, 2**63, -(2**64) - 1, 10**30, rng.randint(-10**6, 10**6)])
    if r < 0.75:
        return gen_float(rng)
    if r < 0.83:
        return rng.choice([True, False])
    if r < 0.9:
        return None
    return bytes(rng.choice([b"", b"x", b"it's", b"\x00\xff", b'"', b"\\", gen_str(rng).encode("utf-8")]))


def gen_key(rng: random.Random):
    r = rng.random()
    if r < 0.7:
        return gen_str(rng)
    if r < 0.85:
        return rng.randint(-5, 50)
    return rng.choice([None, 2.5, b"k", (1, "a")])


def gen_value(rng: random.Random, depth: int = 3):
    r = rng.random()
    if depth <= 0 or r < 0.45:
        return gen_scalar(rng)
    if r < 0.65:
        return [gen_value(rng, depth - 1) for _ in range(rng.choice([0, 1, 2, 3]))]
    if r < 0.8:
        return tuple(gen_value(rng, depth - 1) for _ in range(rng.choice([0, 1, 2, 3])))
    d = {}
    for _ in range(rng.choice([0, 1, 2, 3])):
        k = gen_key(rng)
        if any((k == k2) for k2 in d):  # keep keys pairwise distinct as Python sees them
            continue
        d[k] = gen_value(rng, depth - 1)
    return d


def gen_metadata(rng: random.Random) -> dict:
    d = {}
    for _ in range(rng.choice([0, 1, 2, 3])):
        d[gen_str(rng)] = gen_value(rng, 2)
    return d


def gen_columns(rng: random.Random):
    r = rng.random()
    if r < 0.3:
        return gen_str(rng)
    return [gen_str(rng) for _ in range(rng.choice([0, 1, 2, 3]))]
