"""Generator of whole programs for C01: a module whose `build(ds, L, A)` makes a tree of Select/Where/SelectMany calls on
`ds` (branching from shared parents) and returns the leaf streams.  Lambdas are written as Python callables in the module
(free to use module-level integers, helper functions and data-class / NamedTuple constructors), as source strings
(`L("lambda …")`) or as ASTs (`A("lambda …")`).  The same module runs on func_adl streams and directly on in-memory
sequences (there `L`/`A` evaluate the text)."""
from __future__ import annotations

import random
import re

from gen.data import SCHEMA
from gen.expr import BOOL, INT, Gen, GenDeadEnd, Opt

E = ("obj", "E")
FIELDS = sorted({f for c in SCHEMA.values() for f in list(c["ints"]) + list(c["seqs"])})
CALL_FIELDS = re.compile(r"\.(" + "|".join(FIELDS) + r")\b(?!\()")

HELPERS = {
    "helper1": (1, "def helper1(a): return a * 2 + 1"),
    "helper2": (2, "def helper2(a, b): return a - b * 3"),
    "ident": (1, "def ident(v): return v"),
    # defaulted parameters, some of them given (always called with two arguments): binding of the rest to THEIR defaults
    "helper3": (2, "def helper3(a, b=4, c=9, v=70): return a + b * 2 - c * 5 + v"),
    # a keyword-only parameter: the call cannot be inlined by substitution (front end and backend simplifier leave it a call)
    "helper4": (1, "def helper4(a, *, k=3): return a * k + 1"),
}


def _opts(rng, typed, how):
    o = Opt(form="method", naming="mixed", comps=True, comp_rate=0.08, world_funcs=False, max_depth=rng.choice([1, 2, 2, 3]),
            closed=True, called_lambda=True, kw_called_lambda=True, called_rate=0.18, called_kw_rate=0.6)
    if typed:
        o.rec_keys = ("a", "b", "c", "u", "w")
    if how == "callable":
        o.captured_ints = ("CAP_A", "CAP_B")
        o.helpers = tuple((n, k) for n, (k, _) in HELPERS.items())
        # lambda parameters spelled like the helpers' own parameters: arguments are bound in parallel, not one by one
        # ... and like the names the backend simplifier generates (arg_N): they are reserved, never captured
        o.extra_binder_names = ("a", "b", "v", "a", "b", "arg_0", "arg_1")
        o.rec_ctor = True
    else:
        o.extra_binder_names = ("arg_0", "arg_1", "arg_2")
        o.rec_ctor = True  # records made upstream by constructors are read by attribute; strings make none themselves
    return o


def _no_records(sort):
    if sort[0] == "rec":
        return False
    if sort[0] == "tup":
        return all(_no_records(s) for s in sort[1])
    if sort[0] == "seq":
        return _no_records(sort[1])
    return True


def gen_program(rng: random.Random, typed: bool):
    classes = {}
    features = set()
    lines = []
    streams = [("ds", ("seq", E))]  # (variable, sort)
    n_ops = rng.choice([1, 2, 2, 3, 3, 4, 5, 6])
    hows = []
    factories = []
    for i in range(n_ops):
        if i > 0 and rng.random() < 0.18:
            # the same lambda (one code object) used twice with different captured values: a factory function
            parent, psort = rng.choice(streams[-2:])
            g = Gen(rng, Opt(form="method", comps=False, world_funcs=False, max_depth=rng.choice([1, 2]), closed=True, captured_ints=("c", "c", "CAP_A"),
                             rec_keys=("a", "b", "c2", "u", "w"), rec_ctor=True))
            x = g.fresh([])
            op = rng.choice(["Select", "Where"])
            try:
                body = g.int_expr([(x, psort[1])], g.opt.max_depth) if op == "Select" else g.bool_expr([(x, psort[1])], g.opt.max_depth)
            except (GenDeadEnd, RecursionError):
                continue
            if g.rec_classes or not re.search(r"\bc\b", body):
                continue
            if typed:
                body = CALL_FIELDS.sub(lambda m: "." + m.group(1) + "()", body)
            fname = f"make{i + 1}"
            factories += [f"def {fname}(s, c):", f"    return s.{op}(lambda {x}: {body})", ""]
            nsort = ("seq", INT) if op == "Select" else psort
            for c in rng.sample([1, 4, 9, 30, -2], 2):
                var = f"s{i + 1}_{abs(c)}"
                lines.append(f"    {var} = {fname}({parent}, {c})")
                streams.append((var, nsort))
            features |= {"factory-same-lambda-twice", "closure-captured", "op-" + op}
            continue
        for attempt in range(12):
            parent, psort = rng.choice(streams[-2:] if rng.random() < 0.75 else streams)
            el = psort[1]
            how = rng.choice(["callable", "callable", "string", "ast"])
            g = Gen(rng, _opts(rng, typed, how))
            g.rec_classes = classes if how == "callable" else {}
            op = rng.choice(["Select", "Select", "Where", "SelectMany"])
            x = g.fresh([])
            scope = [(x, el)]
            try:
                if op == "Select":
                    out = g.rand_sort(scope, 2) if rng.random() < 0.6 else rng.choice([INT, ("obj", "J"), ("seq", INT), ("seq", ("obj", "J"))])
                    if how != "callable" and not _no_records(out):
                        continue
                    body, nsort = g.expr(out, scope, g.opt.max_depth), ("seq", out)
                elif op == "Where":
                    body, nsort = g.bool_expr(scope, g.opt.max_depth), psort
                else:
                    inner = rng.choice([INT, ("obj", "J"), ("obj", "T"), INT])
                    body, nsort = g.seq_expr(inner, scope, g.opt.max_depth), ("seq", inner)
            except (GenDeadEnd, RecursionError):
                continue
            if how != "callable" and g.rec_classes:
                continue
            break
        else:
            continue
        if typed:
            body = CALL_FIELDS.sub(lambda m: "." + m.group(1) + "()", body)
        features |= g.features | {"lambda-as-" + how, "op-" + op}
        hows.append(how)
        lam = f"lambda {x}: {body}"
        if how == "string":
            arg = f"L({lam!r})"
        elif how == "ast":
            arg = f"A({lam!r})"
        else:
            arg = lam
        var = f"s{i + 1}"
        lines.append(f"    {var} = {parent}.{op}({arg})")
        streams.append((var, nsort))
        if parent != streams[-2][0]:
            features.add("branch")
    used = {p for l in lines for p in re.findall(r"= (\w+)\.", l) + re.findall(r"= make\d+\((\w+),", l)}
    leaves = [v for v, _ in streams[1:] if v not in used] or [streams[-1][0]]
    if rng.random() < 0.3 and len(streams) > 2:
        extra = rng.choice(streams[1:-1])[0]
        if extra not in leaves:
            leaves.append(extra)  # an inner stream is asked for its value as well
            features.add("inner-stream-value")
    head = ["from dataclasses import dataclass", "from typing import NamedTuple", "", "CAP_A = %d" % rng.choice([2, 7, -3]),
            "CAP_B = %d" % rng.choice([0, 1, 11]), ""]
    for _, (_, text) in HELPERS.items():
        head += [text, ""]
    for keys, cname in classes.items():
        if rng.random() < 0.5:
            head += ["@dataclass", f"class {cname}:"] + [f"    {k}: object" for k in keys] + [""]
            features.add("dataclass")
        else:
            head += [f"class {cname}(NamedTuple):"] + [f"    {k}: object" for k in keys] + [""]
            features.add("namedtuple")
    head += factories
    text = "\n".join(head) + "\ndef build(ds, L, A):\n" + "\n".join(lines) + f"\n    return [{', '.join(leaves)}]\n"
    return text, {"features": sorted(features), "n_ops": len(lines), "leaves": leaves, "typed": typed}
