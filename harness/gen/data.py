"""Schema and generated datasets for the semantic oracles.

A fixed small schema keeps generated queries well-typed (so that most of them evaluate under the
Lean `ev`), while data values, collection sizes (including empty) and nesting are generated.
"""
from __future__ import annotations

import random
from typing import Any, Dict, List

# class -> {"ints": [...], "seqs": {field: element sort}}
SCHEMA: Dict[str, Dict[str, Any]] = {
    "E": {"ints": ["met", "run"], "seqs": {"jets": ("obj", "J"), "els": ("obj", "J"), "nums": ("int",)}},
    "J": {"ints": ["pt", "eta", "n"], "seqs": {"trks": ("obj", "T"), "vals": ("int",)}},
    "T": {"ints": ["pt", "q"], "seqs": {}},
}


def gen_obj(rng: random.Random, cls: str, max_len: int = 3) -> dict:
    sch = SCHEMA[cls]
    fields = {}
    for f in sch["ints"]:
        fields[f] = rng.choice([0, 1, 2, 3, 5, -1, -4, 7, 10, 40])
    for f, el in sch["seqs"].items():
        n = rng.choice([0, 0, 1, 2, 2, 3][: max_len + 3])
        if el[0] == "int":
            fields[f] = [rng.choice([0, 1, -2, 3, 6, 9]) for _ in range(n)]
        else:
            fields[f] = [gen_obj(rng, el[1], max_len) for _ in range(n)]
    return {"__cls__": cls, **fields}


def gen_dataset(rng: random.Random, max_events: int = 3) -> list:
    n = rng.choice([0, 1, 2, 2, 3][: max_events + 2])
    return [gen_obj(rng, "E") for _ in range(n)]


def val_sexpr(v: Any) -> str:
    "Python value (ints, bools, None, str, tuple, list, dict, record dict) -> Lean `Val` S-expression."
    from sexpr import q

    if v is None:
        return "none"
    if isinstance(v, bool):
        return "(bool true)" if v else "(bool false)"
    if isinstance(v, int):
        return f"(int {v})"
    if isinstance(v, str):
        return f"(str {q(v)})"
    if isinstance(v, float):
        return f"(float {q(repr(v))})"
    if isinstance(v, tuple):
        return "(tuple (" + " ".join(val_sexpr(x) for x in v) + "))"
    if isinstance(v, list):
        return "(list (" + " ".join(val_sexpr(x) for x in v) + "))"
    if isinstance(v, dict):
        if "__cls__" in v:
            names = [k for k in v if k != "__cls__"]
            return (
                f"(obj {q(v['__cls__'])} (" + " ".join(q(k) for k in names) + ") ("
                + " ".join(val_sexpr(v[k]) for k in names) + "))"
            )
        return (
            "(dict (" + " ".join(val_sexpr(k) for k in v.keys()) + ") ("
            + " ".join(val_sexpr(x) for x in v.values()) + "))"
        )
    raise TypeError(f"cannot encode {type(v)}")
