"""Seeded, sort-directed generator of query expressions (as Python source text).

Sorts:  ("int",) ("bool",) ("seq", S) ("obj", C) ("tup", (S…)) ("rec", ((key, S)…))

Options (class Opt) select operator form (function / method / mixed), binder naming scheme
(distinct / same / reuse), and which features may appear.  Everything is drawn from the single
`random.Random` passed in, so a case is reproducible from the PRNG state.
"""
from __future__ import annotations

import random
from dataclasses import dataclass, field
from typing import List, Optional, Tuple

from gen.data import SCHEMA

INT = ("int",)
BOOL = ("bool",)


@dataclass
class Opt:
    form: str = "mixed"  # func | method | mixed
    naming: str = "mixed"  # distinct | same | reuse | mixed
    called_lambda: bool = True
    kw_called_lambda: bool = True
    comps: bool = False
    comp_rate: float = 0.0  # extra probability of a comprehension wherever a sequence is wanted
    packs: bool = True  # tuples / lists / dicts + constant projection
    first: bool = True
    aggregates: bool = True  # Count/len/Sum/Max/Min
    methods_with_args: bool = True
    world_funcs: bool = True
    ifexp: bool = True
    max_depth: int = 4
    odd_names: bool = False  # draw binder names from python-ast field names etc.
    non_op_methods_like_ops: bool = False  # x.select(...) style look-alikes
    captured_ints: tuple = ()  # names (of the enclosing scope) that hold ints
    helpers: tuple = ()  # (name, n_params) of int-valued helper functions that may be called
    extra_binder_names: tuple = ()  # additional names binders may be given (to collide with captured names)
    called_rate: float = 0.12
    called_kw_rate: float = 0.3
    rec_ctor: bool = False  # records are built with data-class / NamedTuple constructors (collected in Gen.rec_classes) and read by attribute only
    rec_keys: tuple = ("a", "b", "c", "pt", "val")
    closed: bool = False  # no free dataset name: a sequence that cannot be reached from the scope is a dead end (GenDeadEnd)


class GenDeadEnd(Exception):
    pass


NAME_POOL = ["e", "j", "t", "x", "y", "z", "a", "b", "jet", "trk", "v", "w"]
ODD_POOL = ["value", "id", "attr", "ctx", "lineno", "elts", "args", "func", "keys", "body", "slice"]


class Gen:
    def __init__(self, rng: random.Random, opt: Opt):
        self.rng = rng
        self.opt = opt
        self.counter = 0
        scheme = opt.naming
        if scheme == "mixed":
            scheme = rng.choice(["distinct", "distinct", "same", "reuse", "reuse"])
        self.scheme = scheme
        self.same_name = rng.choice(NAME_POOL)
        self.features: set = set()
        self.rec_classes: dict = {}  # key tuple -> class name

    # names --------------------------------------------------------------------------------
    def fresh(self, scope) -> str:
        pool = NAME_POOL + (ODD_POOL if self.opt.odd_names else []) + list(self.opt.extra_binder_names) * 3
        live = [n for n, _ in scope if n != "ds"]
        if self.scheme == "same":
            return self.same_name
        if self.scheme == "reuse" and live and self.rng.random() < 0.5:
            self.features.add("binder-reuse")
            return self.rng.choice(live)
        cands = [n for n in pool if n not in live]
        if not cands or self.rng.random() < 0.1:
            self.counter += 1
            return f"q{self.counter}"
        return self.rng.choice(cands)

    @staticmethod
    def visible(scope):
        "bindings visible after shadowing: last binding of each name wins"
        seen = {}
        for n, s in scope:
            seen[n] = s
        return list(seen.items())

    def vars_of(self, scope, pred):
        return [n for n, s in self.visible(scope) if pred(s)]

    # operators ----------------------------------------------------------------------------
    def opcall(self, op: str, src: str, args: List[str]) -> str:
        form = self.opt.form
        if form == "mixed":
            form = self.rng.choice(["func", "method"])
        self.features.add("form-" + form)
        if form == "func":
            return f"{op}({', '.join([src] + args)})"
        if not (src.replace("_", "a").replace(".", "a").isalnum() or src.endswith(")") or src.endswith("]")):
            src = f"({src})"
        return f"{src}.{op}({', '.join(args)})"

    def lam(self, scope, sort_in, sort_out, d) -> str:
        x = self.fresh(scope)
        body = self.expr(sort_out, scope + [(x, sort_in)], d)
        return f"lambda {x}: {body}"

    # expressions --------------------------------------------------------------------------
    def expr(self, sort, scope, d) -> str:
        k = sort[0]
        if k == "int":
            return self.int_expr(scope, d)
        if k == "bool":
            return self.bool_expr(scope, d)
        if k == "seq":
            return self.seq_expr(sort[1], scope, d)
        if k == "obj":
            return self.obj_expr(sort[1], scope, d)
        if k == "tup":
            self.features.add("tuple")
            parts = [self.expr(s, scope, d - 1) for s in sort[1]]
            if self.rng.random() < 0.2:
                self.features.add("list-literal")
                return "[" + ", ".join(parts) + "]"
            return "(" + ", ".join(parts) + ("," if len(parts) == 1 else "") + ")"
        if k == "rec":
            if self.opt.rec_ctor:
                self.features.add("record-ctor")
                keys = tuple(k for k, _ in sort[1])
                cname = self.rec_classes.setdefault(keys, "R_" + "_".join(keys))
                parts = [(key, self.expr(s, scope, d - 1)) for key, s in sort[1]]
                if self.rng.random() < 0.4:
                    return f"{cname}(" + ", ".join(v for _, v in parts) + ")"
                self.rng.shuffle(parts) if self.rng.random() < 0.3 else None
                return f"{cname}(" + ", ".join(f"{k}={v}" for k, v in parts) + ")"
            self.features.add("dict")
            return "{" + ", ".join(f"'{key}': {self.expr(s, scope, d - 1)}" for key, s in sort[1]) + "}"
        raise ValueError(sort)

    def wrap_called(self, sort, scope, d) -> Optional[str]:
        "(lambda p…: body)(args…) producing `sort`"
        if not self.opt.called_lambda or d <= 0 or self.rng.random() > self.opt.called_rate:
            return None
        self.features.add("called-lambda")
        n = self.rng.choice([1, 1, 2] if self.opt.called_rate <= 0.12 else [1, 2, 2, 3])
        psorts = [self.rand_sort(scope, 1) for _ in range(n)]
        names = []
        sc = list(scope)
        for s in psorts:
            x = self.fresh(sc)
            while x in names:
                self.counter += 1
                x = f"p{self.counter}"
            names.append(x)
            sc = sc + [(x, s)]
        body = self.expr(sort, sc, d - 1)
        args = [self.expr(s, scope, d - 1) for s in psorts]
        if self.opt.kw_called_lambda and self.rng.random() < self.opt.called_kw_rate:
            self.features.add("called-lambda-kw")
            npos = self.rng.randrange(0, n)
            kws = list(zip(names[npos:], args[npos:]))
            self.rng.shuffle(kws)
            arglist = args[:npos] + [f"{k}={v}" for k, v in kws]
        else:
            arglist = args
        return f"(lambda {', '.join(names)}: {body})({', '.join(arglist)})"

    def rand_sort(self, scope, d):
        r = self.rng.random()
        if r < 0.45 or d <= 0:
            return INT
        if r < 0.6:
            return ("obj", self.rng.choice(list(SCHEMA)))
        if r < 0.8:
            return ("seq", self.rng.choice([INT, ("obj", "J"), ("obj", "T")]))
        if r < 0.9 and self.opt.packs:
            return ("tup", tuple(self.rand_sort(scope, d - 1) for _ in range(self.rng.choice([1, 2, 3]))))
        if self.opt.packs:
            keys = self.rng.sample(list(self.opt.rec_keys), self.rng.choice([1, 2]))
            return ("rec", tuple((k, self.rand_sort(scope, d - 1)) for k in keys))
        return INT

    def proj(self, sort, scope, d) -> Optional[str]:
        "build a pack containing `sort` and project it out again with a constant selector"
        if not self.opt.packs or d <= 0 or self.rng.random() > 0.12:
            return None
        if self.rng.random() < 0.6:
            n = self.rng.choice([1, 2, 3])
            i = self.rng.randrange(n)
            sorts = [sort if k == i else self.rand_sort(scope, d - 1) for k in range(n)]
            pack = self.expr(("tup", tuple(sorts)), scope, d - 1)
            self.features.add("proj-index")
            return f"{pack}[{i}]"
        keys = self.rng.sample(list(self.opt.rec_keys)[:4], self.rng.choice([1, 2]))
        i = self.rng.randrange(len(keys))
        sorts = [(k, sort if n == i else self.rand_sort(scope, d - 1)) for n, k in enumerate(keys)]
        pack = self.expr(("rec", tuple(sorts)), scope, d - 1)
        if self.rng.random() < 0.5 and not self.opt.rec_ctor:
            self.features.add("proj-key")
            return f"{pack}['{keys[i]}']"
        self.features.add("proj-attr")
        return f"{pack}.{keys[i]}"

    def via_bound_pack(self, sort, scope) -> Optional[str]:
        "use a visible tuple / record variable by projecting a component of the wanted sort"
        cands = []
        for n, s in self.visible(scope):
            if s[0] == "tup":
                for i, c in enumerate(s[1]):
                    if c == sort:
                        cands.append(f"{n}[{i}]")
            if s[0] == "rec":
                for key, c in s[1]:
                    if c == sort:
                        cands.append(f"{n}.{key}" if self.opt.rec_ctor else self.rng.choice([f"{n}['{key}']", f"{n}.{key}"]))
        if cands and self.rng.random() < 0.6:
            self.features.add("proj-of-var")
            return self.rng.choice(cands)
        return None

    def obj_of(self, scope, d, need_int=False, need_seq=None):
        "an object-sorted expression + its class, preferring variables"
        vs = self.vars_of(scope, lambda s: s[0] == "obj")
        if vs and (d <= 0 or self.rng.random() < 0.8):
            n = self.rng.choice(vs)
            cls = dict(self.visible(scope))[n][1]
            return n, cls
        cls = self.rng.choice(list(SCHEMA))
        return self.obj_expr(cls, scope, d - 1), cls

    def int_expr(self, scope, d) -> str:
        r = self.rng.random()
        w = self.wrap_called(INT, scope, d)
        if w:
            return w
        p = self.proj(INT, scope, d)
        if p:
            return p
        p = self.via_bound_pack(INT, scope)
        if p:
            return p
        ints = self.vars_of(scope, lambda s: s == INT)
        objs = self.vars_of(scope, lambda s: s[0] == "obj")
        bound = {n for n, _ in scope}
        caps = [c for c in self.opt.captured_ints if c not in bound]
        if caps and self.rng.random() < 0.25:
            self.features.add("captured-int")
            return self.rng.choice(caps)
        helpers = [h for h in self.opt.helpers if h[0] not in bound]
        if helpers and d > 0 and self.rng.random() < 0.2:
            name, npar = self.rng.choice(helpers)
            self.features.add("helper-call")
            args = [self.int_expr(scope, d - 1) for _ in range(npar)]
            return f"{name}({', '.join(args)})"
        if d <= 0 or r < 0.25:
            c = []
            if ints:
                c.append(self.rng.choice(ints))
            if objs:
                o = self.rng.choice(objs)
                cls = dict(self.visible(scope))[o][1]
                f = self.rng.choice(SCHEMA[cls]["ints"])
                c.append(f"{o}.{f}")
                c.append(f"{o}.{f}()")
            c.append(str(self.rng.choice([0, 1, 2, 3, 10, 30])))
            return self.rng.choice(c)
        if r < 0.45:
            op = self.rng.choice(["+", "-", "*", "+", "//", "%"])
            self.features.add("arith")
            l, rr = self.int_expr(scope, d - 1), self.int_expr(scope, d - 1)
            if op in ("//", "%"):
                rr = self.rng.choice(["2", "3", "7"])
            return f"({l} {op} {rr})"
        if r < 0.6 and self.opt.aggregates:
            agg = self.rng.choice(["Count", "len", "Sum", "Max", "Min", "Count"])
            self.features.add("agg-" + agg)
            if agg in ("Count", "len"):
                el = self.rng.choice([INT, ("obj", "J"), ("obj", "T")])
            else:
                el = INT
            s = self.seq_expr(el, scope, d - 1)
            if agg == "len":
                return f"len({s})"
            return self.opcall(agg, s, [])
        if r < 0.68 and self.opt.first:
            self.features.add("first")
            s = self.seq_expr(INT, scope, d - 1)
            return self.opcall("First", s, [])
        if r < 0.78 and self.opt.methods_with_args and (objs or not self.opt.closed):
            o, cls = self.obj_of(scope, d)
            f = self.rng.choice(SCHEMA[cls]["ints"])
            self.features.add("method-args")
            args = [self.int_expr(scope, d - 2) for _ in range(self.rng.choice([1, 1, 2]))]
            if self.rng.random() < 0.3:
                args.append(f"k={self.int_expr(scope, d - 2)}")
                self.features.add("method-kw")
            if not o.replace("_", "a").isalnum():
                o = f"({o})" if not (o.endswith(")") or o.endswith("]")) else o
            return f"{o}.{f}({', '.join(args)})"
        if r < 0.84 and self.opt.world_funcs:
            self.features.add("world-func")
            fn = self.rng.choice(["abs", "fn1", "calc"])
            if fn == "abs":
                return f"abs({self.int_expr(scope, d - 1)})"
            args = [self.int_expr(scope, d - 2) for _ in range(self.rng.choice([1, 2]))]
            if self.rng.random() < 0.3:
                args.append(f"w={self.int_expr(scope, d - 2)}")
            return f"{fn}({', '.join(args)})"
        if r < 0.92 and self.opt.ifexp:
            self.features.add("ifexp")
            return f"({self.int_expr(scope, d - 1)} if {self.bool_expr(scope, d - 1)} else {self.int_expr(scope, d - 1)})"
        if r < 0.96:
            self.features.add("unary")
            return f"(-{self.int_expr(scope, d - 1)})"
        if self.opt.closed and not objs:
            return str(self.rng.choice([0, 1, 2, 5]))
        o, cls = self.obj_of(scope, d)
        f = self.rng.choice(SCHEMA[cls]["ints"])
        if not o.replace("_", "a").isalnum():
            o = f"({o})" if not (o.endswith(")") or o.endswith("]")) else o
        return f"{o}.{f}"

    def bool_expr(self, scope, d) -> str:
        r = self.rng.random()
        if d <= 0 or r < 0.55:
            op = self.rng.choice([">", "<", ">=", "<=", "==", "!="])
            self.features.add("compare")
            if d > 0 and self.rng.random() < 0.1:
                self.features.add("compare-chain")
                return f"({self.int_expr(scope, d - 1)} {op} {self.int_expr(scope, d - 1)} {self.rng.choice(['<', '<=', '!='])} {self.int_expr(scope, d - 1)})"
            return f"({self.int_expr(scope, d - 1)} {op} {self.int_expr(scope, d - 1)})"
        if r < 0.8:
            op = self.rng.choice(["and", "or"])
            self.features.add("boolop")
            n = self.rng.choice([2, 2, 3])
            return "(" + f" {op} ".join(self.bool_expr(scope, d - 1) for _ in range(n)) + ")"
        if r < 0.9:
            self.features.add("not")
            return f"(not {self.bool_expr(scope, d - 1)})"
        w = self.wrap_called(BOOL, scope, d)
        if w:
            return w
        return self.rng.choice(["True", "False", f"({self.int_expr(scope, d - 1)} > 0)"])

    def seq_base(self, el, scope, d) -> str:
        "a sequence of `el` without operators: variable, field, or projection"
        c = [n for n in self.vars_of(scope, lambda s: s == ("seq", el))]
        for n, s in self.visible(scope):
            if s[0] == "obj":
                for f, fe in SCHEMA[s[1]]["seqs"].items():
                    if tuple(fe) == tuple(el):
                        c.append(f"{n}.{f}")
                        c.append(f"{n}.{f}()")
        p = self.via_bound_pack(("seq", el), scope)
        if p:
            c.append(p)
        if c:
            return self.rng.choice(c)
        # reach it from the dataset: go through any object variable or ds
        if self.opt.closed and d < -6:
            raise GenDeadEnd()
        if el == ("obj", "E"):
            if self.opt.closed:
                raise GenDeadEnd()
            return "ds"
        if el == ("obj", "J"):
            src = self.obj_expr("E", scope, d - 1)
            return f"{src}.{self.rng.choice(['jets', 'els'])}"
        if el == ("obj", "T"):
            src = self.obj_expr("J", scope, d - 1)
            return f"{src}.trks"
        if el == INT:
            if self.opt.closed and not self.vars_of(scope, lambda s: s[0] == "obj"):
                self.features.add("list-literal")
                return "[" + ", ".join(self.int_expr(scope, 0) for _ in range(self.rng.choice([0, 1, 2, 3]))) + "]"
            if self.rng.random() < 0.5:
                return f"{self.obj_expr('E', scope, d - 1)}.nums"
            return f"{self.obj_expr('J', scope, d - 1)}.vals"
        # sequence of packs etc.: build with Select over some sequence
        src_el = self.rng.choice([INT, ("obj", "J"), ("obj", "T")])
        src = self.seq_base(src_el, scope, d - 1)
        return self.opcall("Select", src, [self.lam(scope, src_el, el, max(d - 1, 0))])

    def seq_expr(self, el, scope, d) -> str:
        if d <= 0:
            return self.seq_base(el, scope, 0)
        w = self.wrap_called(("seq", el), scope, d)
        if w:
            return w
        p = self.proj(("seq", el), scope, d)
        if p:
            return p
        r = self.rng.random()
        if self.opt.comps and self.rng.random() < self.opt.comp_rate:
            r = 0.95
        if r < 0.2:
            return self.seq_base(el, scope, d)
        if r < 0.5:
            self.features.add("Select")
            src_el = self.rng.choice([INT, ("obj", "J"), ("obj", "T"), ("obj", "E")]) if self.rng.random() < 0.8 else self.rand_sort(scope, 1)
            src = self.seq_expr(src_el, scope, d - 1)
            return self.opcall("Select", src, [self.lam(scope, src_el, el, d - 1)])
        if r < 0.75:
            self.features.add("Where")
            src = self.seq_expr(el, scope, d - 1)
            return self.opcall("Where", src, [self.lam(scope, el, BOOL, d - 1)])
        if r < 0.92:
            self.features.add("SelectMany")
            src_el = self.rng.choice([("obj", "J"), ("obj", "E"), ("obj", "T"), INT])
            src = self.seq_expr(src_el, scope, d - 1)
            return self.opcall("SelectMany", src, [self.lam(scope, src_el, ("seq", el), d - 1)])
        if self.opt.comps:
            self.features.add("comprehension")
            src_el = self.rng.choice([INT, ("obj", "J"), ("obj", "T")])
            src = self.seq_expr(src_el, scope, d - 1)
            x = self.fresh(scope)
            sc = scope + [(x, src_el)]
            ifs = "".join(f" if {self.bool_expr(sc, d - 2)}" for _ in range(self.rng.choice([0, 0, 1, 2])))
            body = self.expr(el, sc, d - 1)
            if self.rng.random() < 0.5:
                return f"[{body} for {x} in {src}{ifs}]"
            return f"({body} for {x} in {src}{ifs})"
        return self.seq_base(el, scope, d)

    def obj_expr(self, cls, scope, d) -> str:
        vs = self.vars_of(scope, lambda s: s == ("obj", cls))
        p = self.via_bound_pack(("obj", cls), scope)
        if p:
            return p
        if vs and self.opt.helpers and self.rng.random() < 0.25:
            # a *bare* use of the variable (not as the base of an attribute)
            self.features.add("bare-var-use")
            v = self.rng.choice(vs)
            return self.rng.choice([f"ident({v})", f"({v}, 0)[0]"])
        if vs and (d <= 0 or self.rng.random() < 0.85):
            return self.rng.choice(vs)
        if self.opt.first:
            self.features.add("first-obj")
            s = self.seq_expr(("obj", cls), scope, max(d - 1, 0))
            return self.opcall("First", s, [])
        if vs:
            return self.rng.choice(vs)
        s = self.seq_base(("obj", cls), scope, 0)
        return f"{s}[0]"


def gen_query(rng: random.Random, opt: Opt, top_sort=None) -> Tuple[str, set]:
    """A closed query over the free name `ds` (a sequence of events)."""
    g = Gen(rng, opt)
    scope = [("ds", ("seq", ("obj", "E")))]
    if top_sort is None:
        r = rng.random()
        if r < 0.7:
            el = rng.choice([INT, ("obj", "J"), INT, ("tup", (INT, INT)), ("rec", (("a", INT), ("b", INT)))])
            if not opt.packs and el[0] in ("tup", "rec"):
                el = INT
            top_sort = ("seq", el)
        elif r < 0.9:
            top_sort = INT
        else:
            top_sort = ("seq", ("seq", INT))
    src = g.expr(top_sort, scope, opt.max_depth)
    return src, g.features
