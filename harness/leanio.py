"""Building, auditing and driving the Lean side."""
from __future__ import annotations

import fcntl
import os
import re
import subprocess
import tempfile
import time
from pathlib import Path
from typing import Dict, List, Optional, Tuple

VERIF = Path(__file__).resolve().parent.parent
LEAN_DIR = VERIF / "lean"
DRIVER = LEAN_DIR / ".lake" / "build" / "bin" / "fadl_driver"

ALLOWED_AXIOMS = {"propext", "Classical.choice", "Quot.sound"}
FORBIDDEN = re.compile(
    r"\bsorry\b|\badmit\b|^\s*axiom\s|native_decide|bv_decide|implemented_by|\bunsafe\s|maxHeartbeats\s+0\b",
    re.M,
)


def _strip_comments(src: str) -> str:
    # remove nested /- -/ block comments and -- line comments (strings in our sources never contain them)
    out = []
    i, depth, n = 0, 0, len(src)
    while i < n:
        if src.startswith("/-", i):
            depth += 1
            i += 2
        elif depth and src.startswith("-/", i):
            depth -= 1
            i += 2
        elif depth:
            if src[i] == "\n":
                out.append("\n")
            i += 1
        elif src.startswith("--", i):
            while i < n and src[i] != "\n":
                i += 1
        else:
            out.append(src[i])
            i += 1
    return "".join(out)


def grep_forbidden() -> List[str]:
    hits = []
    files = list((LEAN_DIR / "Fadl").rglob("*.lean")) + [
        LEAN_DIR / "Driver.lean",
        LEAN_DIR / "Fadl.lean",
        LEAN_DIR / "FadlProofs.lean",
    ]
    for f in files:
        if not f.exists():
            continue
        src = _strip_comments(f.read_text())
        for m in FORBIDDEN.finditer(src):
            line = src.count("\n", 0, m.start()) + 1
            hits.append(f"{f.relative_to(VERIF)}:{line}: {m.group(0).strip()}")
    return hits


def ensure_built(timeout: int = 3600) -> Tuple[bool, str]:
    """`lake build` under a lock (no-op when up to date).  Returns (ok, log)."""
    lock = LEAN_DIR / ".build.lock"
    with open(lock, "w") as lf:
        fcntl.flock(lf, fcntl.LOCK_EX)
        try:
            r = subprocess.run(
                ["lake", "build"], cwd=LEAN_DIR, capture_output=True, text=True, timeout=timeout
            )
        finally:
            fcntl.flock(lf, fcntl.LOCK_UN)
    ok = r.returncode == 0 and DRIVER.exists()
    return ok, (r.stdout + r.stderr)[-6000:]


_AX_RE = re.compile(r"'([^']+)' depends on axioms: \[([^\]]*)\]")
_NOAX_RE = re.compile(r"'([^']+)' does not depend on any axioms")


def audit(theorems: List[str]) -> Dict[str, Optional[List[str]]]:
    """`#print axioms` for each theorem.  Value None = theorem missing / does not check."""
    res: Dict[str, Optional[List[str]]] = {t: None for t in theorems}
    if not theorems:
        return res
    body = "import FadlProofs\n" + "".join(f"#print axioms Fadl.{t}\n" for t in theorems)
    with tempfile.NamedTemporaryFile("w", suffix=".lean", dir=LEAN_DIR / ".lake", delete=False) as f:
        f.write(body)
        path = f.name
    try:
        r = subprocess.run(
            ["lake", "env", "lean", path], cwd=LEAN_DIR, capture_output=True, text=True, timeout=1800
        )
        out = r.stdout + r.stderr
    finally:
        os.unlink(path)
    out = out.replace("\n  ", " ")
    for m in _AX_RE.finditer(out):
        name = m.group(1).removeprefix("Fadl.")
        if name in res:
            res[name] = [a.strip() for a in m.group(2).replace("\n", " ").split(",") if a.strip()]
    for m in _NOAX_RE.finditer(out):
        name = m.group(1).removeprefix("Fadl.")
        if name in res:
            res[name] = []
    return res


def leanchecker(modules: List[str]) -> Tuple[bool, str]:
    r = subprocess.run(
        ["lake", "env", "leanchecker"] + modules, cwd=LEAN_DIR, capture_output=True, text=True, timeout=3600
    )
    return r.returncode == 0, (r.stdout + r.stderr)[-2000:]


class Driver:
    """Batch interface to the compiled line-protocol driver."""

    def __init__(self):
        self.calls = 0
        self.lines = 0

    def batch(self, reqs: List[Tuple[str, List[str]]]) -> List[Tuple[str, str]]:
        """reqs: [(op, [args…])] → [(status, payload)] in order."""
        if not reqs:
            return []
        inp = "".join(f"{i}\t{op}\t" + "\t".join(args) + "\n" for i, (op, args) in enumerate(reqs))
        r = subprocess.run([str(DRIVER)], input=inp, capture_output=True, text=True, timeout=3600)
        if r.returncode != 0:
            raise RuntimeError(f"driver failed: rc={r.returncode} {r.stderr[-2000:]}")
        out: List[Optional[Tuple[str, str]]] = [None] * len(reqs)
        for line in r.stdout.split("\n"):
            if not line:
                continue
            parts = line.split("\t", 2)
            if len(parts) < 3:
                parts += [""] * (3 - len(parts))
            out[int(parts[0])] = (parts[1], parts[2])
        if any(o is None for o in out):
            raise RuntimeError("driver dropped a request")
        self.calls += 1
        self.lines += len(reqs)
        return out  # type: ignore
