"""Typed view of the generated data for C01: classes with annotated methods (what func_adl's type follower reads) whose
bodies delegate to the world's rule (pyworld.IntField), so that the same program runs directly in CPython.  Every integer
method takes (a0, a1, k) with defaults; a few defaults are non-zero, so an AST in which the library did not fill them
evaluates differently from the direct run."""
from __future__ import annotations

from typing import Iterable

from pyworld import Rec, Seq

INT_DEFAULTS = {("E", "run"): (1, 0, 0), ("J", "eta"): (3, 0, 0), ("T", "q"): (2, 0, 1)}
INT_METHODS = {"E": ["met", "run"], "J": ["pt", "eta", "n"], "T": ["pt", "q"]}
SEQ_METHODS = {"E": {"jets": "Jet", "els": "Jet", "nums": "int"}, "J": {"trks": "Trk", "vals": "int"}, "T": {}}
CLS_NAME = {"E": "Event", "J": "Jet", "T": "Trk"}
PARAMS = ["a0", "a1", "k"]


class TObj:
    def __init__(self, rec: Rec):
        self._r = rec

    def __eq__(self, other):
        return isinstance(other, TObj) and self._r == other._r

    def __hash__(self):
        return hash(self._r)


def _wrap(v, cls):
    if cls == "int":
        return int(v)
    return TYPES[cls](v)


def _mk_int(field, d):
    def m(self, a0: int = d[0], a1: int = d[1], k: int = d[2]) -> int:
        return getattr(self._r, field)(a0=a0, a1=a1, k=k)

    m.__name__ = field
    return m


def _mk_seq(field, el):
    def m(self):
        return Seq(_wrap(x, el) for x in getattr(self._r, field))

    m.__name__ = field
    return m


TYPES = {}
for _c in ("T", "J", "E"):
    ns = {}
    for _f in INT_METHODS[_c]:
        ns[_f] = _mk_int(_f, INT_DEFAULTS.get((_c, _f), (0, 0, 0)))
    for _f, _el in SEQ_METHODS[_c].items():
        _m = _mk_seq(_f, _el)
        _m.__annotations__ = {"return": Iterable[int] if _el == "int" else Iterable[TYPES[_el]]}
        ns[_f] = _m
    TYPES[CLS_NAME[_c]] = type(CLS_NAME[_c], (TObj,), ns)
    TYPES[CLS_NAME[_c]].__module__ = __name__
Event, Jet, Trk = TYPES["Event"], TYPES["Jet"], TYPES["Trk"]


def typed_world(world_seq) -> Seq:
    return Seq(Event(e) for e in world_seq)


def untyped(v):
    "typed result -> world objects"
    if isinstance(v, TObj):
        return v._r
    if isinstance(v, Seq):
        return Seq(untyped(x) for x in v)
    if isinstance(v, list):
        return [untyped(x) for x in v]
    if isinstance(v, tuple) and not hasattr(v, "_fields"):
        return tuple(untyped(x) for x in v)
    if isinstance(v, dict):
        return {k: untyped(x) for k, x in v.items()}
    return v
