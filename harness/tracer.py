"""Symbolic tracing of a Python callable: applies it to tracer objects that record every operation performed on them,
so two callables can be compared for behaviour (on the operations they perform and the constants they use) without
needing real data.  Truthiness is a parameter, so both arms of and/or/if-else/not are explored by two runs."""
from __future__ import annotations

import types


class Ctx:
    def __init__(self, truth):
        self.truth = truth
        self.fresh = 0


def show(v, ctx):
    if isinstance(v, T):
        return v.r
    if isinstance(v, types.FunctionType):
        ctx.fresh += 1
        n = v.__code__.co_argcount
        args = [T(f"p{ctx.fresh}_{i}", ctx) for i in range(n)]
        try:
            return "(fn " + show(v(*args), ctx) + ")"
        except Exception as e:  # noqa
            return f"(fn-raises {type(e).__name__})"
    if isinstance(v, (list, tuple)):
        return type(v).__name__ + "[" + ", ".join(show(x, ctx) for x in v) + "]"
    if isinstance(v, dict):
        return "dict[" + ", ".join(show(k, ctx) + ": " + show(x, ctx) for k, x in v.items()) + "]"
    return f"{type(v).__name__}:{v!r}"


def _bin(name):
    def f(self, o):
        return T(f"({self.r} {name} {show(o, self.ctx)})", self.ctx)

    return f


def _rbin(name):
    def f(self, o):
        return T(f"({show(o, self.ctx)} {name} {self.r})", self.ctx)

    return f


class T:
    def __init__(self, r, ctx):
        object.__setattr__(self, "r", r)
        object.__setattr__(self, "ctx", ctx)

    def __getattr__(self, n):
        if n.startswith("__") and n.endswith("__"):
            raise AttributeError(n)
        return T(f"{self.r}.{n}", self.ctx)

    def __call__(self, *a, **k):
        parts = [show(x, self.ctx) for x in a] + [f"{n}={show(x, self.ctx)}" for n, x in k.items()]
        return T(f"{self.r}({', '.join(parts)})", self.ctx)

    def __getitem__(self, i):
        return T(f"{self.r}[{show(i, self.ctx)}]", self.ctx)

    def __bool__(self):
        return self.ctx.truth

    def __neg__(self):
        return T(f"(-{self.r})", self.ctx)

    def __pos__(self):
        return T(f"(+{self.r})", self.ctx)

    def __invert__(self):
        return T(f"(~{self.r})", self.ctx)

    def __abs__(self):
        return T(f"abs({self.r})", self.ctx)

    def __iter__(self):
        return iter([T(f"{self.r}[*0]", self.ctx), T(f"{self.r}[*1]", self.ctx)])

    def __hash__(self):
        return hash(self.r)

    def __repr__(self):
        return self.r


for _n, _s in [("add", "+"), ("sub", "-"), ("mul", "*"), ("truediv", "/"), ("floordiv", "//"), ("mod", "%"), ("pow", "**"),
               ("and", "&"), ("or", "|"), ("xor", "^"), ("lshift", "<<"), ("rshift", ">>")]:
    setattr(T, f"__{_n}__", _bin(_s))
    setattr(T, f"__r{_n}__", _rbin(_s))
for _n, _s in [("lt", "<"), ("le", "<="), ("gt", ">"), ("ge", ">="), ("eq", "=="), ("ne", "!=")]:
    setattr(T, f"__{_n}__", _bin(_s))


def trace(f, nargs=None):
    "the pair of traces (truthiness True / False) of calling f on symbolic arguments"
    out = []
    n = f.__code__.co_argcount if nargs is None else nargs
    for truth in (True, False):
        ctx = Ctx(truth)
        try:
            out.append(show(f(*[T(f"a{i}", ctx) for i in range(n)]), ctx))
        except Exception as e:  # noqa
            out.append(f"raises {type(e).__name__}: {str(e)[:60]}")
    return tuple(out)
