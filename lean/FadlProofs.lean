import Fadl.Props.C17
