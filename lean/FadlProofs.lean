import Fadl.Lemmas.Basic
import Fadl.Lemmas.Mono
import Fadl.Props.C13
import Fadl.Props.C15
import Fadl.Props.C17
import Fadl.Props.C19
import Fadl.Props.C20
