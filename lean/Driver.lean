/-
  Line-protocol driver: one request per line  `id <TAB> op <TAB> arg …`  → one answer per line
  `id <TAB> ok <TAB> payload`  |  `id <TAB> err <TAB> kind`.
  Payloads are canonical S-expressions (Fadl/Syntax.lean).  Nothing imported here touches Mathlib.
-/
import Fadl
open Fadl

def parseExpr (s : String) : Option Expr := (SExpr.parse s).bind Expr.ofSExpr
def parseVal (s : String) : Option Val := (SExpr.parse s).bind Val.ofSExpr

def parseEnv (s : String) : Option (List (String × Val)) :=
  match SExpr.parse s with
  | some (.list xs) => xs.mapM (fun x => match x with
      | .list [.str n, v] => (Val.ofSExpr v).map (fun v => (n, v))
      | _ => none)
  | _ => none

def parseQMd : SExpr → Option QMd
  | .list xs => xs.mapM (fun x => match x with
      | .list [.str k, v] => (PyVal.ofSExpr v).map (fun v => (k, v))
      | _ => none)
  | _ => none

def parseOptNat : SExpr → Option (Option Nat)
  | .atom "none" => some none
  | .atom n => n.toNat?.map some
  | _ => none

def parseOp : SExpr → Option Op
  | .list [.atom "dataset", .str ty] => some (.dataset ty [])
  | .list [.atom "dataset", .str ty, .list args] => do pure (.dataset ty (← Expr.ofSExprL args))
  | .list [.atom "derive", .atom s, .str op, .list args, .str ty] => do
    pure (.derive (← s.toNat?) op (← Expr.ofSExprL args) ty)
  | .list [.atom "terminal", .atom s, .str op, .list args] => do
    pure (.terminal (← s.toNat?) op (← Expr.ofSExprL args))
  | .list [.atom "qmeta", .atom s, md] => do pure (.qmeta (← s.toNat?) (← parseQMd md))
  | .list [.atom "value", .atom s, o, t] => do
    let title := match t with
      | .str x => some x
      | _ => none
    pure (.value (← s.toNat?) (← parseOptNat o) title)
  | _ => none

/-- index of the (first) stream whose root cell is `cell` — how executors are named on the wire -/
def streamOfCell (st : St) (cell : Nat) : Nat :=
  (st.streams.findIdx? (fun s => s.root == cell)).getD cell

def obsStream (st : St) (keys : List String) (s : Stream) : SExpr :=
  let exe : SExpr := match getExecutor st.heap s.root none with
    | .ok d => .atom (toString (streamOfCell st d))
    | .error e => .str e.render
  let looks := keys.map (fun k => match lookupQMD st.heap s.root k with
    | some v => v.toSExpr
    | none => .atom "absent")
  .list [(abs st.heap s.root).toSExpr, .str s.itemType, exe, .list looks]

def obsCall (st : St) (c : CallEvent) : SExpr :=
  let a : SExpr := match c.ast with
    | .ok e => e.toSExpr
    | .error err => .str err.render
  let exe := if c.exe ≥ 1000 then c.exe else streamOfCell st c.exe
  .list [.atom (toString exe), a, match c.title with | some t => .str t | none => .atom "none"]

def obsState (st : St) (keys : List String) : SExpr :=
  .list [.list (st.streams.map (obsStream st keys)), .list (st.calls.map (obsCall st))]

def runHistory (ops : List Op) (keys : List String) : SExpr :=
  let rec go (st : St) (ops : List Op) (acc : List SExpr) : List SExpr :=
    match ops with
    | [] => acc.reverse
    | op :: rest =>
      let st' := step st op
      go st' rest (obsState st' keys :: acc)
  .list (go St.init ops [])

def parseOutcome : SExpr → Option Outcome
  | .list [.atom "ret", .atom n] => n.toNat?.map .ret
  | .list [.atom "raise", .atom n] => n.toNat?.map .raise
  | _ => none

def parseEv : SExpr → Option Ev
  | .list [.atom "start", .atom s, o, t] => do
    let title := match t with
      | .str x => some x
      | _ => none
    pure (.start (← s.toNat?) (← parseOptNat o) title)
  | .list [.atom "complete", .atom c, out] => do pure (.complete (← c.toNat?) (← parseOutcome out))
  | x => (parseOp x).map .op

def renderOutcome : Outcome → SExpr
  | .ret n => .list [.atom "ret", .atom (toString n)]
  | .raise n => .list [.atom "raise", .atom (toString n)]

/-- concurrent history: the final state as `history` renders it, and per finished task how it ended -/
def runConc (evs : List Ev) (keys : List String) : SExpr :=
  let cs := crun evs
  let done := cs.done.map (fun p => SExpr.list [.atom (toString p.1), match p.2 with
    | .got c out => .list [.atom "got", .atom (toString c), renderOutcome out]
    | .failedEarly => .atom "failedEarly"])
  .list [obsState cs.st keys, .list done, .atom (toString cs.pending.length)]

def parseClassTable (s : String) : Option ClassTable :=
  match SExpr.parse s with
  | some (.list xs) => xs.mapM (fun x => match x with
      | .list [.str t, names] => (strsOfSExpr names).map (fun ns => (t, ns))
      | _ => none)
  | _ => none

def parseCaptured : SExpr → Option Captured
  | .list [.atom "lit", c] => (Const.ofSExpr c).map .lit
  | .list [.atom "klass", c] => (Const.ofSExpr c).map .klass
  | .list [.atom "lam", e] => (Expr.ofSExpr e).map .lam
  | .atom "keep" => some .keep
  | _ => none

def parseSnapshot (s : String) : Option Snapshot :=
  match SExpr.parse s with
  | some (.list xs) => xs.mapM (fun x => match x with
      | .list [.str n, c] => (parseCaptured c).map (fun c => (n, c))
      | _ => none)
  | _ => none

def parseAttrResult : SExpr → Option AttrResult
  | .list [.atom "const", c] => (Const.ofSExpr c).map .const
  | .atom "keepNode" => some .keepNode
  | .list [.atom "expr", e] => (Expr.ofSExpr e).map .expr
  | _ => none

def parseAttrTable (s : String) : Option AttrTable :=
  match SExpr.parse s with
  | some (.list xs) => xs.mapM (fun x => match x with
      | .list [.str t, .str a, r] => (parseAttrResult r).map (fun r => (t, a, r))
      | _ => none)
  | _ => none

mutual
partial def parseTy : SExpr → Option Ty
  | .atom "any" => some .any
  | .atom "int" => some .int
  | .atom "float" => some .float
  | .atom "bool" => some .bool
  | .atom "str" => some .str
  | .atom "callable" => some .callable
  | .list [.atom "other", .str s] => some (.other s)
  | .list [.atom "tvar", .str s] => some (.tvar s)
  | .list [.atom "cls", .str n, .list args] => do pure (.cls n (← parseTyL args))
  | .list [.atom "iterable", t] => do pure (.iterable (← parseTy t))
  | .list [.atom "stream", t] => do pure (.stream (← parseTy t))
  | _ => none
partial def parseTyL : List SExpr → Option (List Ty)
  | [] => some []
  | x :: xs => do pure ((← parseTy x) :: (← parseTyL xs))
end

mutual
partial def renderTy : Ty → SExpr
  | .any => .atom "any"
  | .int => .atom "int"
  | .float => .atom "float"
  | .bool => .atom "bool"
  | .str => .atom "str"
  | .callable => .atom "callable"
  | .other s => .list [.atom "other", .str s]
  | .tvar s => .list [.atom "tvar", .str s]
  | .cls n args => .list [.atom "cls", .str n, .list (renderTyL args)]
  | .iterable t => .list [.atom "iterable", renderTy t]
  | .stream t => .list [.atom "stream", renderTy t]
  | .dictDC ks ts => .list [.atom "dictDC", strsToSExpr ks, .list (renderTyL ts)]
partial def renderTyL : List Ty → List SExpr
  | [] => []
  | t :: ts => renderTy t :: renderTyL ts
end

def parseOpt {α : Type} (f : SExpr → Option α) : SExpr → Option (Option α)
  | .atom "none" => some none
  | .list [.atom "some", x] => (f x).map some
  | _ => none

def parseStrS : SExpr → Option String
  | .str s => some s
  | _ => none

def parseCb : SExpr → Option CbSpec
  | .list [.str tag, md, rn, aa] => do
    pure { tag := tag, md := ← parseOpt PyVal.ofSExpr md, rename := ← parseOpt parseStrS rn, addArg := ← parseOpt Const.ofSExpr aa }
  | _ => none

def parseParam : SExpr → Option Param
  | .list [.str n, d] => do pure { name := n, dflt := ← parseOpt Const.ofSExpr d }
  | _ => none

def parseList {α : Type} (f : SExpr → Option α) : SExpr → Option (List α)
  | .list xs => xs.mapM f
  | _ => none

def parseMethod : SExpr → Option MethodInfo
  | .list [.str n, ps, r, cb] => do
    pure { name := n, params := ← parseList parseParam ps, ret := ← parseOpt parseTy r, cb := ← parseOpt parseCb cb }
  | _ => none

def parseProp : SExpr → Option PropInfo
  | .list [.str n, cb, r] => do pure { name := n, cb := ← parseOpt parseCb cb, ret := ← parseTy r }
  | _ => none

def parseKlass : SExpr → Option Klass
  | .list [.str n, tps, b, ms, ps, cb, .atom coll] => do
    pure { name := n, tparams := ← strsOfSExpr tps, base := ← parseOpt parseTy b, methods := ← parseList parseMethod ms,
           props := ← parseList parseProp ps, classCb := ← parseOpt parseCb cb, collection := coll == "true" }
  | _ => none

def parseFunc : SExpr → Option FuncInfo
  | .list [.str n, ps, r, cb] => do
    pure { name := n, params := ← parseList parseParam ps, ret := ← parseOpt parseTy r, proc := ← parseOpt parseCb cb }
  | _ => none

def parseModel (s : String) : Option Model :=
  match SExpr.parse s with
  | some (.list [cs, fs]) => do pure { classes := ← parseList parseKlass cs, funcs := ← parseList parseFunc fs }
  | _ => none

def okE (e : Expr) : String := "ok\t" ++ e.render
def bad : String := "err\tbad-request"

def resStr : Res → String
  | .ok v => "ok\t" ++ v.toSExpr.render
  | .error e => "err\t" ++ e.render

def handle (op : String) (args : List String) : String :=
  match op, args with
  | "echo", [e] => match parseExpr e with
    | some e => okE e
    | none => bad
  | "toCalls", [e] => match parseExpr e with
    | some e => okE (toCalls e)
    | none => bad
  | "aggT", [e] => match parseExpr e with
    | some e => okE (aggT e)
    | none => bad
  | "extractMD", [e] => match parseExpr e with
    | some e => (match extractMetadata e with
      | .ok (e', mds) => "ok\t" ++ (SExpr.list [e'.toSExpr, .list (PyVal.toSExprL mds)]).render
      | .error err => "err\t" ++ err.render)
    | none => bad
  | "removeEmptyMD", [e] => match parseExpr e with
    | some e => (match removeEmptyMD e with
      | .ok e' => okE e'
      | .error err => "err\t" ++ err.render)
    | none => bad
  | "literalEval", [e] => match parseExpr e with
    | some e => (match literalEval e with
      | .ok v => "ok\t" ++ v.toSExpr.render
      | .error err => "err\t" ++ err.render)
    | none => bad
  | "dump", [t] => match (SExpr.parse t).bind Tree.ofSExpr with
    | some t => "ok\t" ++ (SExpr.str (dump t)).render
    | none => bad
  | "inlDomain", [e] => match parseExpr e with
    | some e => "ok\t" ++ (if inlB e then "true" else "false")
    | none => bad
  | "selfDelim", [t] => match (SExpr.parse t).bind Tree.ofSExpr with
    | some t => "ok\t" ++ (if selfDelimiting t then "true" else "false")
    | none => bad
  | "asAst", [v] => match (SExpr.parse v).bind PyVal.ofSExpr with
    | some v => okE (asAst v)
    | none => bad
  | "checkAst", [e] => match parseExpr e with
    | some e => (match checkAst e with
      | .ok _ => "ok\tunit"
      | .error err => "err\t" ++ err.render)
    | none => bad
  | "terminal", kind :: src :: vals =>
    match parseExpr src, vals.mapM (fun v => (SExpr.parse v).bind PyVal.ofSExpr) with
    | some src, some vs =>
      (match kind, vs with
       | "MetaData", [md] => okE (mdCall src md)
       | "AsPandasDF", [c] => okE (asPandas src c)
       | "AsAwkwardArray", [c] => okE (asAwkward src c)
       | "AsROOTTTree", [f, t, c] => okE (asRootTTree src f t c)
       | "AsParquetFiles", [f, c] => okE (asParquet src f c)
       | _, _ => bad)
    | _, _ => bad
  | "history", [ops, keys] =>
    match SExpr.parse ops, (SExpr.parse keys).bind strsOfSExpr with
    | some (.list xs), some ks => (match xs.mapM parseOp with
      | some ops => "ok\t" ++ (runHistory ops ks).render
      | none => bad)
    | _, _ => bad
  | "conc", [evs, keys] =>
    match SExpr.parse evs, (SExpr.parse keys).bind strsOfSExpr with
    | some (.list xs), some ks => (match xs.mapM parseEv with
      | some evs => "ok\t" ++ (runConc evs ks).render
      | none => bad)
    | _, _ => bad
  | "findEDS", [e] => match parseExpr e with
    | some e => (match findEventDataset e with
      | .ok _ => "ok\tunit"
      | .error err => "err\t" ++ err.render)
    | none => bad
  | "sugar", [ct, e] => match parseClassTable ct, parseExpr e with
    | some ct, some e => (match resolveSugar ct e with
      | .ok e' => okE e'
      | .error err => "err\t" ++ err.render)
    | _, _ => bad
  | "capture", [snap, attrs, ctors, e] =>
    match parseSnapshot snap, parseAttrTable attrs, (SExpr.parse ctors).bind strsOfSExpr, parseExpr e with
    | some snap, some attrs, some ctors, some e => okE (parseCallable snap attrs ctors e)
    | _, _, _, _ => bad
  | "inlDomainCap", [snap, attrs, ctors, e] =>
    -- hypothesis of resolveCalled_refines on the expression the inliner is given (after capture rewriting)
    match parseSnapshot snap, parseAttrTable attrs, (SExpr.parse ctors).bind strsOfSExpr, parseExpr e with
    | some snap, some attrs, some ctors, some e =>
      "ok\t" ++ (if inlB (rewriteCaptured snap attrs ctors [] e) then "true" else "false")
    | _, _, _, _ => bad
  | "resolveCalled", [e] => match parseExpr e with
    | some e => okE (resolveCalled [] e)
    | none => bad
  | "streamOp", [m, op, ty, lam] =>
    match parseModel m, (SExpr.parse ty).bind parseTy, parseExpr lam with
    | some m, some ty, some lam => (match streamOp m op ty lam with
      | .ok (l, t, st) => "ok\t" ++ (SExpr.list [l.toSExpr, renderTy t, .list (PyVal.toSExprL st.md), strsToSExpr st.log]).render
      | .error err => "err\t" ++ err.render)
    | _, _, _ => bad
  | "streamOpTy", [m, op, ty, lam] =>
    -- the declared-type checker (Model/TypeSpec.lean): the specification of C08, run on the lambda the user wrote
    match parseModel m, (SExpr.parse ty).bind parseTy, parseExpr lam with
    | some m, some ty, some (.lam [x] body) => (match streamOpTy m op ty x body with
      | .ok t => "ok\t" ++ (renderTy t).render
      | .error err => "err\t" ++ err.render)
    | _, _, _ => bad
  | "streamOpEff", [m, ty, lam] =>
    -- the declared callback sites (Model/EffectSpec.lean): the specification of C09, run on the lambda the user wrote
    match parseModel m, (SExpr.parse ty).bind parseTy, parseExpr lam with
    | some m, some ty, some (.lam [x] body) =>
      let w := streamOpEff m ty x body
      "ok\t" ++ (SExpr.list [.list (PyVal.toSExprL w.md), strsToSExpr w.log]).render
    | _, _, _ => bad
  | "streamOpElab", [m, ty, lam] =>
    -- the emitted lambda (Model/ElabSpec.lean): the specification of C07, run on the lambda the user wrote
    match parseModel m, (SExpr.parse ty).bind parseTy, parseExpr lam with
    | some m, some ty, some (.lam [x] body) => okE (streamOpElab m ty x body)
    | _, _, _ => bad
  | "streamOpQuery", [m, op, src, ty, lam] =>
    -- the query of the stream a typed operator returns (Model/StreamQuery.lean): MetaData wrappers on the source, then the operator
    match parseModel m, parseExpr src, (SExpr.parse ty).bind parseTy, parseExpr lam with
    | some m, some src, some ty, some lam => (match streamOpQuery m op src ty lam with
      | .ok (q, t, log) => "ok\t" ++ (SExpr.list [q.toSExpr, renderTy t, strsToSExpr log]).render
      | .error err => "err\t" ++ err.render)
    | _, _, _, _ => bad
  | "untypedHyp", [m, ty, lam] =>
    -- hypotheses of streamOp_untyped_identity: untyped item type, no call of a registered function by name
    match parseModel m, (SExpr.parse ty).bind parseTy, parseExpr lam with
    | some m, some ty, some (.lam [_] body) => "ok\t" ++ (if ty.untyped && noFuncCall m body then "true" else "false")
    | some _, some _, some _ => "ok\tfalse"
    | _, _, _ => bad
  | "wfU", [lam] =>
    -- hypothesis of streamOp_untyped_no_internal: a tree the parser can produce
    match parseExpr lam with
    | some (.lam [_] body) => "ok\t" ++ (if wfU body then "true" else "false")
    | some _ => "ok\tfalse"
    | none => bad
  | "simp", [c, e] => match c.toNat?, parseExpr e with
    | some c, some e => (match simplify (400 * e.size + 400) c e with
      | .ok (e', _) => okE e'
      | .error err => "err\t" ++ err.render)
    | _, _ => bad
  | "simpCk", [c, e] => match c.toNat?, parseExpr e with
    | some c, some e => (match simplifyCk (400 * e.size + 400) c e with
      | .ok (e', _) => okE e'
      | .error err => "err\t" ++ err.render)
    | _, _ => bad
  | "nf", [e] => match parseExpr e with
    | some e => "ok\t" ++ (if nf e then "true" else "false")
    | none => bad
  | "shape", [e] => match parseExpr e with
    -- the pack-chain discipline on a query (Model/Shape.lean): shape kind, resOK, noLit
    | some e =>
      let k := match shapeOf (4 * e.size + 8) [] e with
        | some s => if s.isOpq then "opq" else "pack"
        | none => "none"
      "ok\t" ++ k ++ " " ++ (if resOK e then "true" else "false") ++ " " ++ (if noLit e then "true" else "false")
    | none => bad
  | "wfq", [e] => match parseExpr e with
    | some e => "ok\t" ++ (if wfq e then "true" else "false")
    | none => bad
  | "backend", [c, e] => match c.toNat?, parseExpr e with
    | some c, some e => (match backend (400 * e.size + 800) c e with
      | .ok e' => okE e'
      | .error err => "err\t" ++ err.render)
    | _, _ => bad
  | "backendFront", [e] => match parseExpr e with
    | some e => okE (backendFront e)
    | none => bad
  | "evStrict", [ds, env, e] => match parseVal ds, parseEnv env, parseExpr e with
    | some ds, some env, some e => resStr (ev (driverWorld ds) (Env.ofList env.reverse) e)
    | _, _, _ => bad
  | "scanLine", [key, toks] =>
    -- the loop over the lambdas of a logical line: tokens after the first `lambda` keyword, the NAME token before it
    match SExpr.parse key, SExpr.parse toks with
    | some k, some (.list ts) =>
      let keyO : Option Token := match k with
        | .str s => some ⟨.name, s⟩
        | _ => none
      let kindOf (s : String) : TKind :=
        if s == "name" then .name else if s == "op" then .op else if s == "newline" then .newline
        else if s == "nl" then .nl else if s == "comment" then .comment else .other
      let parsed := ts.mapM (fun x => match x with
        | .list [.atom kd, .str tx] => some ({ kind := kindOf kd, text := tx } : Token)
        | _ => none)
      (match parsed with
       | some tl =>
         let res := scanLine (tl.length + 1) keyO tl
         "ok\t" ++ (SExpr.list (res.map (fun p => SExpr.list [(match p.1 with | some s => SExpr.str s | none => SExpr.atom "none"),
           SExpr.list (p.2.map (fun t => SExpr.str t.text))]))).render
       | none => bad)
    | _, _ => bad
  | "pick", [caller, argNames, cands] =>
    match SExpr.parse caller, (SExpr.parse argNames).bind strsOfSExpr, SExpr.parse cands with
    | some c, some an, some (.list cs) =>
      let callerO : Option String := match c with
        | .str s => some s
        | _ => none
      let parsed := cs.mapM (fun x => match x with
        | .list [k, ps] => (strsOfSExpr ps).map (fun ps => ({ key := (match k with | .str s => some s | _ => none), params := ps } : Cand))
        | _ => none)
      (match parsed with
       | some cl => (match pickLambda callerO an cl with
         | .ok i => "ok\t" ++ toString i
         | .error err => "err\t" ++ err.render)
       | none => bad)
    | _, _, _ => bad
  | "ev", [ds, env, e] => match parseVal ds, parseEnv env, parseExpr e with
    | some ds, some env, some e => resStr (evLz (driverWorld ds) (Env.ofList env.reverse) e)
    | _, _, _ => bad
  | "table", [n] =>
    if n = "opNames" then "ok\t" ++ (strsToSExpr opNames).render
    else if n = "builtinOps" then "ok\t" ++ (strsToSExpr builtinOps).render
    else if n = "aggLambdas" then "ok\t" ++ (SExpr.list [lamCount.toSExpr, lamSum.toSExpr, lamMax.toSExpr, lamMin.toSExpr]).render
    else "err\tbad-table"
  | _, _ => "err\tbad-op"

partial def loop (hin hout : IO.FS.Stream) : IO Unit := do
  let line ← hin.getLine
  if line.isEmpty then return ()
  let line := (line.dropEndWhile (fun c => c == '\n' || c == '\r')).toString
  match line.splitOn "\t" with
  | id :: op :: args => hout.putStrLn (id ++ "\t" ++ handle op args)
  | _ => hout.putStrLn "?\terr\tbad-line"
  loop hin hout

def main : IO Unit := do
  let hin ← IO.getStdin
  let hout ← IO.getStdout
  loop hin hout
  hout.flush
