/-
  Line-protocol driver: one request per line  `id <TAB> op <TAB> arg …`  → one answer per line
  `id <TAB> ok <TAB> payload`  |  `id <TAB> err <TAB> kind`.
  Payloads are canonical S-expressions (Fadl/Syntax.lean).  Nothing imported here touches Mathlib.
-/
import Fadl
open Fadl

def parseExpr (s : String) : Option Expr := (SExpr.parse s).bind Expr.ofSExpr
def parseVal (s : String) : Option Val := (SExpr.parse s).bind Val.ofSExpr

def parseEnv (s : String) : Option (List (String × Val)) :=
  match SExpr.parse s with
  | some (.list xs) => xs.mapM (fun x => match x with
      | .list [.str n, v] => (Val.ofSExpr v).map (fun v => (n, v))
      | _ => none)
  | _ => none

def okE (e : Expr) : String := "ok\t" ++ e.render
def bad : String := "err\tbad-request"

def resStr : Res → String
  | .ok v => "ok\t" ++ v.toSExpr.render
  | .error e => "err\t" ++ e.render

def handle (op : String) (args : List String) : String :=
  match op, args with
  | "echo", [e] => match parseExpr e with
    | some e => okE e
    | none => bad
  | "toCalls", [e] => match parseExpr e with
    | some e => okE (toCalls e)
    | none => bad
  | "aggT", [e] => match parseExpr e with
    | some e => okE (aggT e)
    | none => bad
  | "extractMD", [e] => match parseExpr e with
    | some e => (match extractMetadata e with
      | .ok (e', mds) => "ok\t" ++ (SExpr.list [e'.toSExpr, .list (PyVal.toSExprL mds)]).render
      | .error err => "err\t" ++ err.render)
    | none => bad
  | "removeEmptyMD", [e] => match parseExpr e with
    | some e => (match removeEmptyMD e with
      | .ok e' => okE e'
      | .error err => "err\t" ++ err.render)
    | none => bad
  | "literalEval", [e] => match parseExpr e with
    | some e => (match literalEval e with
      | .ok v => "ok\t" ++ v.toSExpr.render
      | .error err => "err\t" ++ err.render)
    | none => bad
  | "dump", [t] => match (SExpr.parse t).bind Tree.ofSExpr with
    | some t => "ok\t" ++ (SExpr.str (dump t)).render
    | none => bad
  | "asAst", [v] => match (SExpr.parse v).bind PyVal.ofSExpr with
    | some v => okE (asAst v)
    | none => bad
  | "checkAst", [e] => match parseExpr e with
    | some e => (match checkAst e with
      | .ok _ => "ok\tunit"
      | .error err => "err\t" ++ err.render)
    | none => bad
  | "terminal", kind :: src :: vals =>
    match parseExpr src, vals.mapM (fun v => (SExpr.parse v).bind PyVal.ofSExpr) with
    | some src, some vs =>
      (match kind, vs with
       | "MetaData", [md] => okE (mdCall src md)
       | "AsPandasDF", [c] => okE (asPandas src c)
       | "AsAwkwardArray", [c] => okE (asAwkward src c)
       | "AsROOTTTree", [f, t, c] => okE (asRootTTree src f t c)
       | "AsParquetFiles", [f, c] => okE (asParquet src f c)
       | _, _ => bad)
    | _, _ => bad
  | "ev", [ds, env, e] => match parseVal ds, parseEnv env, parseExpr e with
    | some ds, some env, some e => resStr (ev (driverWorld ds) (Env.ofList env.reverse) e)
    | _, _, _ => bad
  | "table", [n] =>
    if n = "opNames" then "ok\t" ++ (strsToSExpr opNames).render
    else if n = "builtinOps" then "ok\t" ++ (strsToSExpr builtinOps).render
    else if n = "aggLambdas" then "ok\t" ++ (SExpr.list [lamCount.toSExpr, lamSum.toSExpr, lamMax.toSExpr, lamMin.toSExpr]).render
    else "err\tbad-table"
  | _, _ => "err\tbad-op"

partial def loop (hin hout : IO.FS.Stream) : IO Unit := do
  let line ← hin.getLine
  if line.isEmpty then return ()
  let line := (line.dropEndWhile (fun c => c == '\n' || c == '\r')).toString
  match line.splitOn "\t" with
  | id :: op :: args => hout.putStrLn (id ++ "\t" ++ handle op args)
  | _ => hout.putStrLn "?\terr\tbad-line"
  loop hin hout

def main : IO Unit := do
  let hin ← IO.getStdin
  let hout ← IO.getStdout
  loop hin hout
  hout.flush
