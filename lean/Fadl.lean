import Fadl.Syntax
import Fadl.Err
import Fadl.Model.ToCalls
import Fadl.Model.Aggregate
import Fadl.Sem
import Fadl.ValCodec
import Fadl.PyVal
import Fadl.Model.MetaData
