/-
  Val ⇄ SExpr and the concrete `World` used by the driver (shared, by construction, with
  harness/world.py which implements the same functions in Python for the C01 end-to-end run).
-/
import Fadl.Sem
namespace Fadl

def EErr.render : EErr → String
  | .unbound x => "unbound:" ++ x
  | .type w => "type:" ++ w
  | .index => "index"
  | .zeroDiv => "zerodiv"
  | .arity => "arity"
  | .unsupported w => "unsupported:" ++ w
  | .world w => "world:" ++ w

mutual
def Val.toSExpr : Val → SExpr
  | .int n => .list [.atom "int", .atom (toString n)]
  | .bool b => .list [.atom "bool", .atom (if b then "true" else "false")]
  | .str s => .list [.atom "str", .str s]
  | .none => .atom "none"
  | .float r => .list [.atom "float", .str r]
  | .tuple vs => .list [.atom "tuple", .list (Val.toSExprL vs)]
  | .list vs => .list [.atom "list", .list (Val.toSExprL vs)]
  | .dict ks vs => .list [.atom "dict", .list (Val.toSExprL ks), .list (Val.toSExprL vs)]
  | .obj c fns fvs => .list [.atom "obj", .str c, strsToSExpr fns, .list (Val.toSExprL fvs)]
  | .slice a b c =>
    let o (x : Option Int) : SExpr := match x with
      | some i => .atom (toString i)
      | Option.none => .atom "none"
    .list [.atom "slice", o a, o b, o c]
  | .poison e => .list [.atom "poison", .str e.render]
def Val.toSExprL : List Val → List SExpr
  | [] => []
  | v :: vs => v.toSExpr :: Val.toSExprL vs
end

mutual
partial def Val.ofSExpr : SExpr → Option Val
  | .list [.atom "int", .atom n] => n.toInt?.map .int
  | .list [.atom "bool", .atom b] => some (.bool (b == "true"))
  | .list [.atom "str", .str s] => some (.str s)
  | .atom "none" => some .none
  | .list [.atom "float", .str r] => some (.float r)
  | .list [.atom "tuple", .list vs] => do pure (.tuple (← Val.ofSExprL vs))
  | .list [.atom "list", .list vs] => do pure (.list (← Val.ofSExprL vs))
  | .list [.atom "dict", .list ks, .list vs] => do pure (.dict (← Val.ofSExprL ks) (← Val.ofSExprL vs))
  | .list [.atom "obj", .str c, fns, .list fvs] => do
    pure (.obj c (← strsOfSExpr fns) (← Val.ofSExprL fvs))
  | _ => Option.none
partial def Val.ofSExprL : List SExpr → Option (List Val)
  | [] => some []
  | x :: xs => do
    let v ← Val.ofSExpr x
    let vs ← Val.ofSExprL xs
    pure (v :: vs)
end

/-! ### the driver's concrete world

  method `m` on a record: the record's field `m`; with integer arguments `a_0 …` and keyword
  values `k_0 …` on an integer field `f`:  f + Σ (i+2)·a_i + Σ (j+11)·k_j.
  function `EventDataset()` → the dataset; `abs(x)`; any other function of integers:
  |name| + Σ (i+3)·a_i + Σ (j+13)·k_j.
-/

def weighted (base : Int) (start : Int) : List Val → Except EErr Int
  | [] => .ok base
  | v :: vs => match asInt v with
    | some i => weighted (base + start * i) (start + 1) vs
    | Option.none => .error (.world "non-integer argument")

def driverWorld (ds : Val) : World where
  method := fun m self args _kwn kvs =>
    match self with
    | .obj _ fns fvs =>
      match lookupField m fns fvs with
      | some f =>
        if args.isEmpty && kvs.isEmpty then .ok f
        else match asInt f with
          | some b => do
            let r ← weighted b 2 args
            let r ← weighted r 11 kvs
            pure (.int r)
          | Option.none => .ok f
      | Option.none => .error (.world ("no method " ++ m))
    | _ => .error (.world ("method on non-record " ++ m))
  func := fun n args _kwn kvs =>
    if n = "EventDataset" then .ok ds
    else if n = "abs" then
      (match args with
       | [v] => match asInt v with
         | some i => .ok (.int (if i < 0 then -i else i))
         | Option.none => .error (.world "abs")
       | _ => .error (.world "abs arity"))
    else do
      let r ← weighted n.length 3 args
      let r ← weighted r 13 kvs
      pure (.int r)

end Fadl
