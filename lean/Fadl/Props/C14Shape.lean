/-
  C14 — intermediate tuples and dictionaries are compiled away: the typing argument.

  `typed_nf_packed` (induction over the fuel of `shapeOf`, every clause): an expression that obeys the pack-chain discipline
  (`shapeOf` accepts it: Model/Shape.lean) and is in normal form (`nf`: no constant projection left on a literal or on a
  `First`, no stage left on a source it fuses with) holds tuple / list / dictionary constructions in RESULT position only
  (`resOK`), none at all if its shape is pack-free (`noLit`), and a pack-shaped one is a literal or a `First(…)`.  The
  reason: a projection with a pack-shaped base would have a literal base (then it is a redex) or a `First` base (then it
  is pushed inside), both excluded by `nf`; and the source of a stage in normal form is pack-free (`stage_src_opq`), so
  lambda parameters never hold packs.
  With `simplify_normal_form` (Props/C14Normal.lean): whatever the simplifier model returns for a well-formed query, if
  it obeys the discipline, holds constructions only where they are part of the final result
  (`simplify_pack_chain_eliminated`).  That the output of a pack chain obeys the discipline (subject reduction of the
  simplifier for shapes) is not proved; it is evaluated on the real simplifier's output for every generated pack chain.
-/
import Fadl.Model.Shape
import Fadl.Props.C14Normal
namespace Fadl
set_option linter.unusedSimpArgs false
set_option linter.unusedVariables false


def GOpq (G : List (String × Shape)) : Prop := ∀ x, (shapeGet x G).isOpq = true

theorem GOpq.cons {G : List (String × Shape)} (h : GOpq G) (x : String) : GOpq ((x, .opq) :: G) := by
  intro y
  simp only [shapeGet]
  split
  · rfl
  · exact h y

def Shape.isPack : Shape → Bool
  | .tup _ => true
  | .lst _ => true
  | .dct _ _ => true
  | _ => false

def isLit : Expr → Bool
  | .tuple _ => true
  | .list _ => true
  | .dict _ _ => true
  | _ => false

theorem constsOf_allConst : ∀ (ks : List Expr) (cs : List Const), constsOf ks = some cs → allConstKeys ks = true
  | [], _, _ => rfl
  | .const c :: ks, cs, h => by
    simp only [constsOf] at h
    cases h2 : constsOf ks with
    | none => simp [h2] at h
    | some cs' => simp only [allConstKeys]; exact constsOf_allConst ks cs' h2
  | .name _ :: _, _, h => by simp [constsOf] at h
  | .attr _ _ :: _, _, h => by simp [constsOf] at h
  | .call _ _ _ _ :: _, _, h => by simp [constsOf] at h
  | .lam _ _ :: _, _, h => by simp [constsOf] at h
  | .sub _ _ :: _, _, h => by simp [constsOf] at h
  | .tuple _ :: _, _, h => by simp [constsOf] at h
  | .list _ :: _, _, h => by simp [constsOf] at h
  | .dict _ _ :: _, _, h => by simp [constsOf] at h
  | .op _ _ :: _, _, h => by simp [constsOf] at h
  | .comp _ _ _ _ _ _ :: _, _, h => by simp [constsOf] at h

theorem shapeOfL_length : ∀ (fuel : Nat) (G : List (String × Shape)) (es : List Expr) (ss : List Shape),
    shapeOfL fuel G es = some ss → ss.length = es.length
  | 0, _, _, _, h => by simp [shapeOfL] at h
  | fuel + 1, G, [], ss, h => by simp only [shapeOfL, Option.some.injEq] at h; subst h; rfl
  | fuel + 1, G, e :: es, ss, h => by
    simp only [shapeOfL] at h
    split at h
    · rename_i s ss' h1 h2
      simp only [Option.some.injEq] at h; subst h
      simp [shapeOfL_length fuel G es ss' h2]
    · cases h

/-- a typed key lookup in a dictionary literal finds something where the simplifier's lookup finds something -/
theorem dctGet_lookupLast (k : Const) :
    ∀ (ks vs : List Expr) (cs : List Const) (ss : List Shape) (σ : Shape),
    constsOf ks = some cs → ss.length = vs.length → dctGet cs ss k = some σ → (dictLookupLast k ks vs).isSome = true
  | [], vs, cs, ss, σ, hc, hl, hg => by
    simp only [constsOf, Option.some.injEq] at hc; subst hc; simp [dctGet] at hg
  | .const c :: ks, [], cs, ss, σ, hc, hl, hg => by
    simp only [List.length_nil, List.length_eq_zero_iff] at hl; subst hl
    cases cs <;> simp [dctGet] at hg
  | .const c :: ks, v :: vs, cs, ss, σ, hc, hl, hg => by
    simp only [constsOf] at hc
    cases h2 : constsOf ks with
    | none => simp [h2] at hc
    | some cs' =>
      simp only [h2, Option.map_some, Option.some.injEq] at hc; subst hc
      cases ss with
      | nil => simp at hl
      | cons s ss' =>
        simp only [List.length_cons, Nat.add_right_cancel_iff] at hl
        simp only [dctGet] at hg
        simp only [dictLookupLast]
        cases hr : dictLookupLast k ks vs with
        | some r => rfl
        | none =>
          by_cases hk : constKeyEq c k = true
          · simp [hk]
          · simp only [hk, if_false] at hg
            have := dctGet_lookupLast k ks vs cs' ss' σ h2 hl hg
            rw [hr] at this; cases this
  | .name _ :: _, _, _, _, _, h, _, _ => by simp [constsOf] at h
  | .attr _ _ :: _, _, _, _, _, h, _, _ => by simp [constsOf] at h
  | .call _ _ _ _ :: _, _, _, _, _, h, _, _ => by simp [constsOf] at h
  | .lam _ _ :: _, _, _, _, _, h, _, _ => by simp [constsOf] at h
  | .sub _ _ :: _, _, _, _, _, h, _, _ => by simp [constsOf] at h
  | .tuple _ :: _, _, _, _, _, h, _, _ => by simp [constsOf] at h
  | .list _ :: _, _, _, _, _, h, _, _ => by simp [constsOf] at h
  | .dict _ _ :: _, _, _, _, _, h, _, _ => by simp [constsOf] at h
  | .op _ _ :: _, _, _, _, _, h, _, _ => by simp [constsOf] at h
  | .comp _ _ _ _ _ _ :: _, _, _, _, _, h, _, _ => by simp [constsOf] at h

theorem dctGet_dictLookup (ks vs : List Expr) (cs : List Const) (ss : List Shape) (k : Const) (σ : Shape)
    (hc : constsOf ks = some cs) (hl : ss.length = vs.length) (hg : dctGet cs ss k = some σ) :
    (dictLookup ks vs k).isSome = true := by
  simp only [dictLookup, constsOf_allConst ks cs hc, if_true]
  exact dctGet_lookupLast k ks vs cs ss σ hc hl hg


theorem isOpq_eq {s : Shape} (h : s.isOpq = true) : s = .opq := by cases s <;> simp_all [Shape.isOpq]

theorem isPack_not_opq {s : Shape} (h : s.isOpq = true) : s.isPack = false := by rw [isOpq_eq h]; rfl

mutual
theorem resOK_of_noLit : ∀ (e : Expr), noLit e = true → resOK e = true
  | .name _, _ => by simp [resOK, noLit]
  | .const _, _ => by simp [resOK, noLit]
  | .attr v a, h => by simp only [resOK]; exact h
  | .lam ps b, h => by simp only [noLit] at h; simp only [resOK]; exact resOK_of_noLit b h
  | .sub v s, h => by simp only [resOK]; exact h
  | .tuple _, h => by simp [noLit] at h
  | .list _, h => by simp [noLit] at h
  | .dict _ _, h => by simp [noLit] at h
  | .op _ _, h => by simp only [resOK]; exact h
  | .comp _ _ _ _ _ _, h => by simp only [resOK]; exact h
  | .call f args kwn kwv, h => by
    have h' := h
    simp only [noLit, Bool.and_eq_true] at h'
    obtain ⟨⟨hf, ha⟩, hk⟩ := h'
    unfold resOK
    split
    · rename_i n src l
      simp only [noLitL, Bool.and_eq_true] at ha
      obtain ⟨h1, h2, _⟩ := ha
      split
      · simp only [h1, resOK_of_noLit l h2, hk, Bool.and_self]
      · split
        · simp only [resOK_of_noLit src h1, h2, hk, Bool.and_self]
        · exact h
    · rename_i n s
      simp only [noLitL, Bool.and_eq_true] at ha
      split
      · simp only [resOK_of_noLit s ha.1, hk, Bool.and_self]
      · exact h
    · exact h
theorem resOKL_of_noLitL : ∀ (es : List Expr), noLitL es = true → resOKL es = true
  | [], _ => rfl
  | e :: es, h => by
    simp only [noLitL, Bool.and_eq_true] at h
    simp only [resOKL, resOK_of_noLit e h.1, resOKL_of_noLitL es h.2, Bool.and_self]
end

theorem constsOf_noLitL : ∀ (ks : List Expr) (cs : List Const), constsOf ks = some cs → noLitL ks = true
  | [], _, _ => rfl
  | .const c :: ks, cs, h => by
    simp only [constsOf] at h
    cases h2 : constsOf ks with
    | none => simp [h2] at h
    | some cs' => simp only [noLitL, noLit, Bool.true_and]; exact constsOf_noLitL ks cs' h2
  | .name _ :: _, _, h => by simp [constsOf] at h
  | .attr _ _ :: _, _, h => by simp [constsOf] at h
  | .call _ _ _ _ :: _, _, h => by simp [constsOf] at h
  | .lam _ _ :: _, _, h => by simp [constsOf] at h
  | .sub _ _ :: _, _, h => by simp [constsOf] at h
  | .tuple _ :: _, _, h => by simp [constsOf] at h
  | .list _ :: _, _, h => by simp [constsOf] at h
  | .dict _ _ :: _, _, h => by simp [constsOf] at h
  | .op _ _ :: _, _, h => by simp [constsOf] at h
  | .comp _ _ _ _ _ _ :: _, _, h => by simp [constsOf] at h

/-- what a typed normal form looks like -/
def Concl (e : Expr) (σ : Shape) : Prop :=
  resOK e = true ∧ (σ.isOpq = true → noLit e = true) ∧ (σ.isPack = true → isLit e = true ∨ (firstArg? e).isSome = true)

def ConclL (es : List Expr) (ss : List Shape) : Prop :=
  resOKL es = true ∧ (ss.all Shape.isOpq = true → noLitL es = true)

theorem concl_opq {e : Expr} (h : noLit e = true) : Concl e .opq :=
  ⟨resOK_of_noLit e h, fun _ => h, fun hp => by simp [Shape.isPack] at hp⟩


theorem all_opq_cons {s : Shape} {ss : List Shape} : (s :: ss).all Shape.isOpq = true ↔ s.isOpq = true ∧ ss.all Shape.isOpq = true := by
  simp [List.all_cons]

theorem lit_of_tup {fuel : Nat} {G : List (String × Shape)} {v : Expr} {cs : List Shape}
    (hv : shapeOf fuel G v = some (.tup cs)) (hl : isLit v = true) : ∃ es, v = .tuple es := by
  cases fuel with
  | zero => simp [shapeOf] at hv
  | succ k =>
    cases v with
    | tuple es => exact ⟨es, rfl⟩
    | list es => simp only [shapeOf] at hv; cases hsl : shapeOfL k G es <;> simp [hsl] at hv
    | dict kx vs => simp only [shapeOf] at hv; split at hv <;> simp at hv
    | _ => simp [isLit] at hl

theorem lit_of_lst {fuel : Nat} {G : List (String × Shape)} {v : Expr} {cs : List Shape}
    (hv : shapeOf fuel G v = some (.lst cs)) (hl : isLit v = true) : ∃ es, v = .list es := by
  cases fuel with
  | zero => simp [shapeOf] at hv
  | succ k =>
    cases v with
    | list es => exact ⟨es, rfl⟩
    | tuple es => simp only [shapeOf] at hv; cases hsl : shapeOfL k G es <;> simp [hsl] at hv
    | dict kx vs => simp only [shapeOf] at hv; split at hv <;> simp at hv
    | _ => simp [isLit] at hl

theorem lit_of_dct {fuel : Nat} {G : List (String × Shape)} {v : Expr} {ks : List Const} {ss : List Shape}
    (hv : shapeOf fuel G v = some (.dct ks ss)) (hl : isLit v = true) :
    ∃ kx vs, v = .dict kx vs ∧ constsOf kx = some ks ∧ ss.length = vs.length := by
  cases fuel with
  | zero => simp [shapeOf] at hv
  | succ k =>
    cases v with
    | tuple es => simp only [shapeOf] at hv; cases hsl : shapeOfL k G es <;> simp [hsl] at hv
    | list es => simp only [shapeOf] at hv; cases hsl : shapeOfL k G es <;> simp [hsl] at hv
    | dict kx vs =>
      simp only [shapeOf] at hv
      split at hv
      · rename_i cs ss' hc hs
        simp only [Option.some.injEq, Shape.dct.injEq] at hv
        obtain ⟨rfl, rfl⟩ := hv
        exact ⟨kx, vs, rfl, hc, shapeOfL_length k G vs _ hs⟩
      · cases hv
    | _ => simp [isLit] at hl

theorem isFusable_where_eq (p : Expr) : isFusable "Where" p = isStageOp p := by
  simp only [isFusable, isStageOp]
  cases opCall? p with
  | none => rfl
  | some r => obtain ⟨m, _⟩ := r; simp [Bool.or_comm, Bool.or_assoc, Bool.or_left_comm]

/-- in a typed normal form the source of a stage holds no pack -/
theorem stage_src_opq (fuel : Nat) (G : List (String × Shape)) (src : Expr) (s : Shape) (n : String)
    (hn : n = "Select" ∨ n = "SelectMany" ∨ n = "Where")
    (hs : shapeOf fuel G src = some s) (hr : (isStageOp src || s.isOpq) = true)
    (hnf : nf src = true) (hfus : isFusable n src = false) : s.isOpq = true := by
  by_cases hso : isStageOp src = true
  · -- the source is itself a stage: not fusable with `n`, so it is a Where, whose own source is not a stage
    cases src with
    | call f pargs kn kv =>
      cases f with
      | name m =>
        simp only [isStageOp, opCall?] at hso
        simp only [isFusable, opCall?] at hfus
        have hm : m = "Where" := by
          rcases hn with rfl | rfl | rfl <;> simp_all
        subst hm
        cases fuel with
        | zero => simp [shapeOf] at hs
        | succ k =>
          simp only [shapeOf] at hs
          split at hs
          all_goals (try (simp_all; done))
          · -- the Where pattern
            rename_i base x c
            simp only [nf, nfL, Bool.and_eq_true, Bool.not_eq_true'] at hnf
            obtain ⟨⟨⟨hnb, _⟩, _⟩, hfb⟩ := hnf
            rw [isFusable_where_eq] at hfb
            split at hs
            · rename_i sb hsb
              split at hs
              · cases hs
              · rename_i hcond
                simp only [hfb, Bool.false_or, Bool.not_eq_true', Bool.not_eq_false] at hcond
                split at hs
                · split at hs
                  · simp only [Option.some.injEq] at hs; subst hs
                    simpa using hcond
                  · cases hs
                · cases hs
            · cases hs
          · -- the generic clause
            split at hs
            · split at hs
              · simp only [Option.some.injEq] at hs; subst hs; rfl
              · cases hs
            · cases hs
      | _ => simp [isStageOp, opCall?] at hso
    | _ => simp [isStageOp, opCall?] at hso
  · simp only [Bool.not_eq_true] at hso
    simpa [hso] using hr

theorem typed_nf_packed : ∀ fuel : Nat,
    (∀ G e σ, GOpq G → shapeOf fuel G e = some σ → nf e = true → Concl e σ) ∧
    (∀ G es ss, GOpq G → shapeOfL fuel G es = some ss → nfL es = true → ConclL es ss) := by
  intro fuel
  induction fuel with
  | zero =>
    constructor
    · intro G e σ _ h; simp [shapeOf] at h
    · intro G es ss _ h; simp [shapeOfL] at h
  | succ fuel ih =>
    obtain ⟨ihS, ihL⟩ := ih
    constructor
    · intro G e σ hG h hn
      cases e with
      | name x =>
        simp only [shapeOf, Option.some.injEq] at h; subst h
        have := isOpq_eq (hG x)
        rw [this]; exact concl_opq rfl
      | const c => simp only [shapeOf, Option.some.injEq] at h; subst h; exact concl_opq rfl
      | lam ps b => simp [shapeOf] at h
      | comp k a b c d f => simp [shapeOf] at h
      | attr v a =>
        simp only [nf, Bool.and_eq_true, Bool.not_eq_true', Option.isNone_iff_eq_none] at hn
        obtain ⟨⟨hnv, hred⟩, hfirst⟩ := hn
        simp only [shapeOf] at h
        split at h
        · rename_i hv
          simp only [Option.some.injEq] at h; subst h
          obtain ⟨_, c2, _⟩ := ihS G v .opq hG hv hnv
          exact concl_opq (by simp only [noLit]; exact c2 rfl)
        · rename_i ks ss hv
          exfalso
          have c3 := (ihS G v (.dct ks ss) hG hv hnv).2.2
          rcases c3 rfl with hl | hf
          · cases fuel with
            | zero => simp [shapeOf] at hv
            | succ k =>
              cases v with
              | tuple es =>
                simp only [shapeOf] at hv
                cases hsl : shapeOfL k G es <;> simp [hsl] at hv
              | list es =>
                simp only [shapeOf] at hv
                cases hsl : shapeOfL k G es <;> simp [hsl] at hv
              | dict kx vs =>
                simp only [shapeOf] at hv
                split at hv
                · rename_i cs ss' hc hs
                  simp only [Option.some.injEq, Shape.dct.injEq] at hv
                  obtain ⟨rfl, rfl⟩ := hv
                  have hlen := shapeOfL_length k G vs ss' hs
                  have := dctGet_dictLookup kx vs cs ss' (.str a) σ hc hlen h
                  simp only [isAttrRedex] at hred
                  rw [hred] at this; cases this
                · cases hv
              | _ => simp [isLit] at hl
          · rw [hfirst] at hf; cases hf
        · cases h
      | sub v s =>
        simp only [nf, Bool.and_eq_true, Bool.not_eq_true', Option.isNone_iff_eq_none] at hn
        obtain ⟨⟨⟨hnv, hns⟩, hred⟩, hfirst⟩ := hn
        simp only [shapeOf] at h
        -- a pack-shaped base in normal form would be a literal (a redex) or a First (excluded)
        have hpack : ∀ sv, shapeOf fuel G v = some sv → sv.isPack = true → isLit v = true := by
          intro sv hv hp
          rcases (ihS G v sv hG hv hnv).2.2 hp with hl | hf
          · exact hl
          · rw [hfirst] at hf; cases hf
        split at h
        · rename_i hv hs
          simp only [Option.some.injEq] at h; subst h
          have c2 := (ihS G v .opq hG hv hnv).2.1 rfl
          have d2 := (ihS G s .opq hG hs hns).2.1 rfl
          exact concl_opq (by simp only [noLit, c2, d2, Bool.and_self])
        · rename_i cs hv hs
          exfalso
          obtain ⟨es, rfl⟩ := lit_of_tup hv (hpack _ hv rfl)
          split at h
          · rename_i n
            split at h
            · rename_i hge; simp [isLitProjRedex, hge] at hred
            · cases h
          · cases h
        · rename_i cs hv hs
          exfalso
          obtain ⟨es, rfl⟩ := lit_of_lst hv (hpack _ hv rfl)
          split at h
          · rename_i n
            split at h
            · rename_i hge; simp [isLitProjRedex, hge] at hred
            · cases h
          · cases h
        · rename_i ks ss hv hs
          exfalso
          obtain ⟨kx, vs, rfl, hc, hlen⟩ := lit_of_dct hv (hpack _ hv rfl)
          split at h
          · rename_i n
            have := dctGet_dictLookup kx vs ks ss (.int n) σ hc hlen h
            simp only [isLitProjRedex] at hred
            rw [hred] at this; cases this
          · rename_i k
            have := dctGet_dictLookup kx vs ks ss (.str k) σ hc hlen h
            simp only [isLitProjRedex] at hred
            rw [hred] at this; cases this
          · cases h
        · cases h
      | tuple es =>
        simp only [nf] at hn
        simp only [shapeOf] at h
        cases hs : shapeOfL fuel G es with
        | none => simp [hs] at h
        | some ss =>
          simp only [hs, Option.map_some, Option.some.injEq] at h; subst h
          obtain ⟨d1, _⟩ := ihL G es ss hG hs hn
          exact ⟨by simp only [resOK]; exact d1, fun ho => by simp [Shape.isOpq] at ho, fun _ => Or.inl rfl⟩
      | list es =>
        simp only [nf] at hn
        simp only [shapeOf] at h
        cases hs : shapeOfL fuel G es with
        | none => simp [hs] at h
        | some ss =>
          simp only [hs, Option.map_some, Option.some.injEq] at h; subst h
          obtain ⟨d1, _⟩ := ihL G es ss hG hs hn
          exact ⟨by simp only [resOK]; exact d1, fun ho => by simp [Shape.isOpq] at ho, fun _ => Or.inl rfl⟩
      | dict ks vs =>
        simp only [nf, Bool.and_eq_true] at hn
        simp only [shapeOf] at h
        split at h
        · rename_i cs ss hc hs
          simp only [Option.some.injEq] at h; subst h
          obtain ⟨d1, _⟩ := ihL G vs ss hG hs hn.2
          exact ⟨by simp only [resOK, constsOf_noLitL ks cs hc, d1, Bool.and_self],
                 fun ho => by simp [Shape.isOpq] at ho, fun _ => Or.inl rfl⟩
        · cases h
      | op k args =>
        simp only [nf] at hn
        simp only [shapeOf] at h
        split at h
        · rename_i ss hs
          split at h
          · rename_i hall
            simp only [Option.some.injEq] at h; subst h
            obtain ⟨_, d2⟩ := ihL G args ss hG hs hn
            exact concl_opq (by simp only [noLit]; exact d2 hall)
          · cases h
        · cases h
      | call f args kwn kwv =>
        simp only [shapeOf] at h
        split at h
        · -- Select(src, lambda x: b)
          rename_i src x b
          simp only [nf, nfL, Bool.and_eq_true, Bool.not_eq_true', Bool.and_true] at hn
          obtain ⟨⟨hns, hnb⟩, hfus⟩ := hn
          split at h
          · rename_i s hs
            split at h
            · cases h
            · rename_i hcond
              simp only [Bool.not_eq_true', Bool.not_eq_false] at hcond
              have hso := stage_src_opq fuel G src s "Select" (Or.inl rfl) hs hcond hns hfus
              have := isOpq_eq hso; subst this
              simp only [elemOf] at h
              cases hb : shapeOf fuel ((x, .opq) :: G) b with
              | none => simp [hb] at h
              | some sb =>
                simp only [hb, Option.map_some, Option.some.injEq] at h; subst h
                have cs := (ihS G src .opq hG hs hns).2.1 rfl
                obtain ⟨b1, b2, _⟩ := ihS _ b sb (hG.cons x) hb hnb
                refine ⟨?_, ?_, ?_⟩
                · unfold resOK; simp [cs, resOK, b1, noLitL]
                · intro ho
                  have : sb.isOpq = true := by
                    simp only [mkSeq] at ho; split at ho
                    · assumption
                    · simp [Shape.isOpq] at ho
                  simp [noLit, noLitL, cs, b2 this]
                · intro hp; simp only [mkSeq] at hp; split at hp <;> simp [Shape.isPack] at hp
          · cases h
        · -- SelectMany(src, lambda x: b)
          rename_i src x b
          simp only [nf, nfL, Bool.and_eq_true, Bool.not_eq_true', Bool.and_true] at hn
          obtain ⟨⟨hns, hnb⟩, hfus⟩ := hn
          split at h
          · rename_i s hs
            split at h
            · cases h
            · rename_i hcond
              simp only [Bool.not_eq_true', Bool.not_eq_false] at hcond
              have hso := stage_src_opq fuel G src s "SelectMany" (Or.inr (Or.inl rfl)) hs hcond hns hfus
              have := isOpq_eq hso; subst this
              simp only [elemOf] at h
              have cs := (ihS G src .opq hG hs hns).2.1 rfl
              split at h
              · rename_i hb
                simp only [Option.some.injEq] at h; subst h
                obtain ⟨b1, b2, _⟩ := ihS _ b .opq (hG.cons x) hb hnb
                exact concl_opq (by simp [noLit, noLitL, cs, b2 rfl])
              · rename_i t hb
                split at h
                · cases h
                · simp only [Option.some.injEq] at h; subst h
                  obtain ⟨b1, _, _⟩ := ihS _ b (.seq t) (hG.cons x) hb hnb
                  refine ⟨?_, fun ho => by simp [Shape.isOpq] at ho, fun hp => by simp [Shape.isPack] at hp⟩
                  unfold resOK; simp [cs, resOK, b1, noLitL]
              · cases h
          · cases h
        · -- Where(src, lambda x: c)
          rename_i src x c
          simp only [nf, nfL, Bool.and_eq_true, Bool.not_eq_true', Bool.and_true] at hn
          obtain ⟨⟨hns, hnc⟩, hfus⟩ := hn
          split at h
          · rename_i s hs
            split at h
            · cases h
            · rename_i hcond
              simp only [Bool.not_eq_true', Bool.not_eq_false] at hcond
              have hso := stage_src_opq fuel G src s "Where" (Or.inr (Or.inr rfl)) hs hcond hns hfus
              have := isOpq_eq hso; subst this
              simp only [elemOf] at h
              have cs := (ihS G src .opq hG hs hns).2.1 rfl
              split at h
              · rename_i hc
                simp only [Option.some.injEq] at h; subst h
                have c2 := (ihS _ c .opq (hG.cons x) hc hnc).2.1 rfl
                exact concl_opq (by simp [noLit, noLitL, cs, c2])
              · cases h
          · cases h
        · -- First(src)
          rename_i src
          simp only [nf, nfL, Bool.and_eq_true, Bool.not_eq_true', Bool.and_true] at hn
          obtain ⟨hns, hfus⟩ := hn
          split at h
          · rename_i s hs
            obtain ⟨c1, c2, _⟩ := ihS G src s hG hs hns
            refine ⟨?_, ?_, fun _ => Or.inr (by simp [firstArg?])⟩
            · unfold resOK; simp [c1, noLitL]
            · intro ho
              have hσ := isOpq_eq ho; subst hσ
              cases s with
              | opq => simp [noLit, noLitL, c2 rfl]
              | seq t =>
                simp only [elemOf] at h
                split at h
                · cases h
                · rename_i ht
                  simp only [Option.some.injEq] at h; subst h
                  simp [Shape.isOpq] at ht
              | _ => simp [elemOf] at h
          · cases h
        · -- any other function called by name
          rename_i n _ _ _ _
          split at h
          · rename_i sa sk ha hk
            split at h
            · rename_i hall
              simp only [Bool.and_eq_true] at hall
              simp only [Option.some.injEq] at h; subst h
              simp only [nf, Bool.and_eq_true] at hn
              obtain ⟨⟨hna, hnk⟩, _⟩ := hn
              have a2 := (ihL G args sa hG ha hna).2 hall.1
              have k2 := (ihL G kwv sk hG hk hnk).2 hall.2
              exact concl_opq (by simp [noLit, a2, k2])
            · cases h
          · cases h
        · -- a method call
          rename_i v m
          split at h
          · rename_i sa sk hv ha hk
            split at h
            · rename_i hall
              simp only [Bool.and_eq_true] at hall
              simp only [Option.some.injEq] at h; subst h
              simp only [nf, Bool.and_eq_true] at hn
              obtain ⟨⟨hna, hnk⟩, hnv, _⟩ := hn
              have v2 := (ihS G v .opq hG hv hnv).2.1 rfl
              have a2 := (ihL G args sa hG ha hna).2 hall.1
              have k2 := (ihL G kwv sk hG hk hnk).2 hall.2
              exact concl_opq (by simp [noLit, v2, a2, k2])
            · cases h
          · cases h
        · cases h
    · intro G es ss hG h hn
      cases es with
      | nil =>
        simp only [shapeOfL, Option.some.injEq] at h; subst h
        exact ⟨rfl, fun _ => rfl⟩
      | cons e rest =>
        simp only [nfL, Bool.and_eq_true] at hn
        simp only [shapeOfL] at h
        split at h
        · rename_i s ss' h1 h2
          simp only [Option.some.injEq] at h; subst h
          obtain ⟨c1, c2, _⟩ := ihS G e s hG h1 hn.1
          obtain ⟨d1, d2⟩ := ihL G rest ss' hG h2 hn.2
          refine ⟨by simp only [resOKL, c1, d1, Bool.and_self], ?_⟩
          intro hall
          rw [all_opq_cons] at hall
          simp only [noLitL, c2 hall.1, d2 hall.2, Bool.and_self]
        · cases h


/-- **C14 (typed normal forms)**: a query in normal form that obeys the pack-chain discipline holds constructions in result
    position only, and none if its shape is pack-free. -/
theorem typed_normal_form_constructions (fuel : Nat) (e : Expr) (σ : Shape)
    (h : shapeOf fuel [] e = some σ) (hn : nf e = true) :
    resOK e = true ∧ (σ.isOpq = true → noLit e = true) := by
  have hG : GOpq [] := fun _ => rfl
  obtain ⟨c1, c2, _⟩ := (typed_nf_packed fuel).1 [] e σ hG h hn
  exact ⟨c1, c2⟩

/-- **C14**: what the simplifier model returns for a well-formed query, if it obeys the pack-chain discipline, holds
    tuple / list / dictionary constructions only where they are part of the final result — and none when the result is
    pack-free. -/
theorem simplify_pack_chain_eliminated (fuel c : Nat) (e e' : Expr) (c' : Nat) (sfuel : Nat) (σ : Shape)
    (hw : wfq e = true) (h : simplify fuel c e = .ok (e', c')) (hs : shapeOf sfuel [] e' = some σ) :
    resOK e' = true ∧ (σ.isOpq = true → noLit e' = true) :=
  typed_normal_form_constructions sfuel e' σ hs (simplify_normal_form fuel c e e' c' hw h)

/-- Non-vacuity: a fused pack chain whose result is a plain value obeys the discipline with a pack-free shape; one that
    still projects out of a literal is not a normal form. -/
example : (shapeOf 20 [] (fcall "Select" [.name "ds", .lam ["e"] (.op (.bin "Add") [.attr (.name "e") "a", .attr (.name "e") "b"])])).map Shape.isOpq
    = some true := by decide
example : (shapeOf 20 [] (fcall "Select" [.name "ds", .lam ["e"] (.tuple [.attr (.name "e") "a", .attr (.name "e") "b"])])).map Shape.isOpq
    = some false := by decide
example : nf (.sub (.tuple [.name "a", .name "b"]) (.const (.int 0))) = false := by decide

end Fadl
