/-
  C12 — concurrently awaited value_async() calls, in any completion order (Model/Concurrent.lean).
-/
import Fadl.Model.Concurrent
import Fadl.Props.C12
namespace Fadl

/-! ### the streams and the executor invocations do not depend on when (or whether) invocations complete -/

theorem cstep_st (cs : CSt) (ev : Ev) :
    (cstep cs ev).st = match ev.seq with
      | some o => step cs.st o
      | Option.none => cs.st := by
  cases ev with
  | op o => rfl
  | start s ovr title => simp only [cstep, Ev.seq]; split <;> rfl
  | complete c out => simp only [cstep, Ev.seq]; split <;> rfl

theorem cfold_st (evs : List Ev) : ∀ (cs : CSt),
    (evs.foldl cstep cs).st = (evs.filterMap Ev.seq).foldl step cs.st := by
  induction evs with
  | nil => intro cs; rfl
  | cons ev evs ih =>
    intro cs
    simp only [List.foldl_cons, ih, cstep_st]
    cases h : ev.seq with
    | none => simp [h]
    | some o => simp [h]

/-- **C12 (any completion order)**: the streams, the heap and the log of executor invocations reached by a concurrent
    history are those of the sequential history in which every `value_async` is a `value()` at the point where it was
    started - completions, in whatever order and interleaving, change nothing. -/
theorem conc_state (evs : List Ev) : (crun evs).st = run (evs.filterMap Ev.seq) := by
  simp only [crun, run, cfold_st]; rfl

/-- a completion changes no stream, no query and no invocation record -/
theorem complete_changes_nothing (cs : CSt) (c : Nat) (out : Outcome) : (cstep cs (.complete c out)).st = cs.st := by
  simp only [cstep]; split <;> rfl

/-- **exactly one executor, once, with this stream's query** - for a task started in any reachable concurrent state:
    whatever is pending or has completed, the start appends the one invocation `value_calls_once` describes -/
theorem start_invokes_once (evs : List Ev) (hwf : ∀ op ∈ evs.filterMap Ev.seq, op.wf = true) (i : Nat) (s : Stream)
    (hs : (crun evs).st.streams[i]? = some s) (override : Option Nat) (title : Option String) :
    (cstep (crun evs) (.start i override title)).st.calls =
      (crun evs).st.calls ++ [{ exe := override.getD s.ds, ast := removeEmptyMD s.tm, title := title }] := by
  rw [cstep_st]
  simp only [Ev.seq]
  rw [conc_state] at hs ⊢
  exact value_calls_once _ hwf i s hs override title

/-! ### every task ends with what ITS OWN executor invocation produced -/

theorem pendingTask_mem {c t : Nat} : ∀ {p : List (Nat × Nat)}, pendingTask c p = some t → (c, t) ∈ p
  | [], h => by simp [pendingTask] at h
  | (c', t') :: rest, h => by
    simp only [pendingTask] at h
    split at h
    · rename_i hc; cases h; subst hc; exact List.mem_cons_self
    · exact List.mem_cons_of_mem _ (pendingTask_mem h)

structure CInv (cs : CSt) (evs : List Ev) : Prop where
  pend : ∀ p ∈ cs.pending, p ∈ cs.log
  done : ∀ t c out, (t, TaskEnd.got c out) ∈ cs.done → (c, t) ∈ cs.log ∧ Ev.complete c out ∈ evs
  idx : ∀ p ∈ cs.log, p.1 < cs.st.calls.length ∧ p.2 < cs.tasks
  inj : ∀ p ∈ cs.log, ∀ q ∈ cs.log, (p.1 = q.1 ↔ p.2 = q.2)

theorem calls_mono (st : St) (o : Op) : st.calls.length ≤ (step st o).calls.length := by
  by_cases h : o.isValue = true
  · cases o with
    | value s ovr t =>
      simp only [step]
      cases st.streams[s]? with
      | none => exact Nat.le_refl _
      | some str =>
        simp only []
        cases getExecutor st.heap str.root ovr with
        | error e => exact Nat.le_refl _
        | ok e => simp
    | _ => simp [Op.isValue] at h
  · rw [build_calls_nothing st o (by simpa using h)]; exact Nat.le_refl _

theorem cinv_step (cs : CSt) (evs : List Ev) (ev : Ev) (h : CInv cs evs) : CInv (cstep cs ev) (evs ++ [ev]) := by
  cases ev with
  | op o =>
    refine ⟨h.pend, fun t c out hd => ?_, fun p hp => ?_, h.inj⟩
    · obtain ⟨h1, h2⟩ := h.done t c out hd
      exact ⟨h1, List.mem_append_left _ h2⟩
    · have := h.idx p hp
      exact ⟨Nat.lt_of_lt_of_le this.1 (calls_mono cs.st o), this.2⟩
  | complete c out =>
    simp only [cstep]
    cases hp : pendingTask c cs.pending with
    | none =>
      simp only []
      exact ⟨h.pend, fun t c' out' hd => by
        obtain ⟨h1, h2⟩ := h.done t c' out' hd
        exact ⟨h1, List.mem_append_left _ h2⟩, h.idx, h.inj⟩
    | some t =>
      simp only []
      refine ⟨fun p hp' => h.pend p (List.mem_filter.mp hp').1, fun t' c' out' hd => ?_, h.idx, h.inj⟩
      simp only [List.mem_append, List.mem_singleton, Prod.mk.injEq, TaskEnd.got.injEq] at hd
      rcases hd with hd | ⟨rfl, rfl, rfl⟩
      · obtain ⟨h1, h2⟩ := h.done t' c' out' hd
        exact ⟨h1, List.mem_append_left _ h2⟩
      · exact ⟨h.pend _ (pendingTask_mem hp), List.mem_append_right _ (by simp)⟩
  | start s ovr title =>
    simp only [cstep]
    have hmono := calls_mono cs.st (.value s ovr title)
    split
    · rename_i hlen
      refine ⟨fun p hp => ?_, fun t c out hd => ?_, fun p hp => ?_, fun p hp q hq => ?_⟩
      · simp only [List.mem_append, List.mem_singleton] at hp ⊢
        rcases hp with hp | hp
        · exact Or.inl (h.pend p hp)
        · exact Or.inr hp
      · obtain ⟨h1, h2⟩ := h.done t c out hd
        exact ⟨List.mem_append_left _ h1, List.mem_append_left _ h2⟩
      · simp only [List.mem_append, List.mem_singleton] at hp
        rcases hp with hp | rfl
        · have := h.idx p hp
          refine ⟨?_, ?_⟩ <;> dsimp only <;> omega
        · refine ⟨?_, ?_⟩ <;> dsimp only <;> omega
      · simp only [List.mem_append, List.mem_singleton] at hp hq
        rcases hp with hp | rfl <;> rcases hq with hq | rfl
        · exact h.inj p hp q hq
        · have := h.idx p hp
          constructor <;> intro he <;> simp only [] at he <;> omega
        · have := h.idx q hq
          constructor <;> intro he <;> simp only [] at he <;> omega
        · simp
    · refine ⟨h.pend, fun t c out hd => ?_, fun p hp => ?_, h.inj⟩
      · simp only [List.mem_append, List.mem_singleton, Prod.mk.injEq] at hd
        rcases hd with hd | ⟨_, hd⟩
        · obtain ⟨h1, h2⟩ := h.done t c out hd
          exact ⟨h1, List.mem_append_left _ h2⟩
        · cases hd
      · have := h.idx p hp
        refine ⟨?_, ?_⟩ <;> dsimp only <;> omega

theorem cinv_run (evs : List Ev) : CInv (crun evs) evs := by
  have : ∀ (evs pre : List Ev) (cs : CSt), CInv cs pre → CInv (evs.foldl cstep cs) (pre ++ evs) := by
    intro evs
    induction evs with
    | nil => intro pre cs h; simpa using h
    | cons ev evs ih =>
      intro pre cs h
      have := ih (pre ++ [ev]) (cstep cs ev) (cinv_step cs pre ev h)
      simpa [List.append_assoc] using this
  have h0 : CInv CSt.init [] := ⟨by simp [CSt.init], by simp [CSt.init], by simp [CSt.init], by simp [CSt.init]⟩
  simpa [crun] using this evs [] CSt.init h0

/-- **C12 (returns or raises exactly what that executor returned or raised, in any completion order)**: in every
    concurrent history, a task that ended with `out` from invocation `c` is the task that MADE invocation `c`, and `out` is
    what a completion event of `c` delivered -/
theorem task_gets_own_outcome (evs : List Ev) (t c : Nat) (out : Outcome)
    (h : (t, TaskEnd.got c out) ∈ (crun evs).done) :
    (c, t) ∈ (crun evs).log ∧ Ev.complete c out ∈ evs ∧ c < (crun evs).st.calls.length :=
  let hi := cinv_run evs
  ⟨(hi.done t c out h).1, (hi.done t c out h).2, (hi.idx _ (hi.done t c out h).1).1⟩

/-- one invocation per task and one task per invocation -/
theorem invocation_task_bijective (evs : List Ev) (c t c' t' : Nat)
    (h1 : (c, t) ∈ (crun evs).log) (h2 : (c', t') ∈ (crun evs).log) : (c = c' ↔ t = t') :=
  (cinv_run evs).inj _ h1 _ h2

/-- Non-vacuity: two tasks on two datasets, completed in the opposite order; each gets its own outcome. -/
example :
    (crun [.op (.dataset "A" []), .op (.dataset "B" []), .start 0 none none, .start 1 none (some "t"),
           .complete 1 (.raise 1), .complete 0 (.ret 0)]).done = [(1, .got 1 (.raise 1)), (0, .got 0 (.ret 0))] := by
  decide +kernel

end Fadl
