/-
  C13 — Python values embedded in a query keep their exact value.
-/
import Fadl.Model.AsAst
import Fadl.Lemmas.Basic
namespace Fadl

/-! ### well-formed values: what the property quantifies over -/

/-- later keys differ (as Python dict keys) from earlier ones -/
def distinctKeys : List PyVal → Bool
  | [] => true
  | k :: ks => ks.all (fun k' => !PyVal.keyEq k' k) && distinctKeys ks

/-- A float `repr` carries at most one leading minus sign. -/
def wfFloatRepr (r : String) : Bool :=
  match r.toList with
  | '-' :: '-' :: _ => false
  | _ => true

mutual
def WFVal : PyVal → Bool
  | .float r => wfFloatRepr r
  | .ellipsis => false
  | .tuple vs => WFValL vs
  | .list vs => WFValL vs
  | .dict ks vs => decide (ks.length = vs.length) && PyVal.hashableL ks && distinctKeys ks && WFValL ks && WFValL vs
  | _ => true
def WFValL : List PyVal → Bool
  | [] => true
  | v :: vs => WFVal v && WFValL vs
end

/-! ### dict(zip(keys, values)) rebuilds a dictionary with distinct keys -/

theorem dictSet_fresh (k v : PyVal) (ak av : List PyVal) (hl : ak.length = av.length)
    (h : ak.all (fun k' => !PyVal.keyEq k k') = true) :
    dictSet k v ak av = (ak ++ [k], av ++ [v]) := by
  induction ak generalizing av with
  | nil => cases av with
    | nil => rfl
    | cons _ _ => simp at hl
  | cons a ak ih =>
    cases av with
    | nil => simp at hl
    | cons b av =>
      simp only [List.all_cons, Bool.and_eq_true, Bool.not_eq_true'] at h
      simp only [dictSet, h.1, Bool.false_eq_true, if_false]
      rw [ih av (by simpa using hl) h.2]
      rfl

theorem dictOfPairs_distinct (ks vs ak av : List PyVal) (hl : ks.length = vs.length)
    (hla : ak.length = av.length) (hd : distinctKeys (ak ++ ks) = true) :
    dictOfPairs ks vs (ak, av) = (ak ++ ks, av ++ vs) := by
  induction ks generalizing vs ak av with
  | nil => cases vs with
    | nil => simp [dictOfPairs]
    | cons _ _ => simp at hl
  | cons k ks ih =>
    cases vs with
    | nil => simp at hl
    | cons v vs =>
      have hfresh : ak.all (fun k' => !PyVal.keyEq k k') = true := by
        clear ih hl hla
        induction ak with
        | nil => rfl
        | cons a ak iha =>
          simp only [List.cons_append, distinctKeys, Bool.and_eq_true, List.all_append, List.all_cons] at hd
          simp only [List.all_cons, Bool.and_eq_true]
          exact ⟨hd.1.2.1, iha hd.2⟩
      simp only [dictOfPairs]
      rw [dictSet_fresh k v ak av hla hfresh]
      rw [ih vs (ak ++ [k]) (av ++ [v]) (by simpa using hl) (by simp [hla]) (by simpa using hd)]
      simp

/-! ### as_ast is exact -/

theorem negFloatRepr_abs (r : String) (hneg : isNegRepr r = true) (hwf : wfFloatRepr r = true) :
    negFloatRepr (absRepr r) = r := by
  unfold isNegRepr at hneg
  unfold wfFloatRepr at hwf
  unfold absRepr negFloatRepr
  cases hr : r.toList with
  | nil => simp [hr] at hneg
  | cons c cs =>
    simp [hr] at hneg
    subst hneg
    simp only [hr, List.drop_one, List.tail_cons, String.toList_ofList]
    cases cs with
    | nil =>
      have h2 : String.ofList r.toList = r := String.ofList_toList
      rw [hr] at h2
      simpa using h2
    | cons d ds =>
      by_cases hd : d = '-'
      · subst hd; simp [hr] at hwf
      · have : ∀ (rest : List Char), (match d :: ds with
            | '-' :: rest => String.ofList rest
            | cs => String.ofList ('-' :: cs)) = String.ofList ('-' :: d :: ds) := by
          intro _; split
          · rename_i heq; simp at heq; exact absurd heq.1 hd
          · rfl
        have h2 : String.ofList r.toList = r := String.ofList_toList
        rw [hr] at h2
        exact (this []).trans h2

def ExactSpec (v : PyVal) : Prop := WFVal v = true → literalEval (valToExpr v) = .ok v

theorem exactL (vs : List PyVal) (h : ∀ v ∈ vs, ExactSpec v) (hwf : WFValL vs = true) :
    literalEvalL (valToExprL vs) = .ok vs := by
  induction vs with
  | nil => rfl
  | cons v vs ih =>
    simp only [WFValL, Bool.and_eq_true] at hwf
    simp only [valToExprL, literalEvalL, h v (List.mem_cons_self) hwf.1,
      ih (fun x hx => h x (List.mem_cons_of_mem _ hx)) hwf.2, bind, Except.bind, pure, Except.pure]

theorem PyVal.induct_mem (P : PyVal → Prop)
    (int : ∀ n, P (.int n)) (float : ∀ r, P (.float r)) (str : ∀ s, P (.str s)) (bytes : ∀ r, P (.bytes r))
    (bool : ∀ b, P (.bool b)) (none : P .none) (ellipsis : P .ellipsis)
    (tuple : ∀ vs, (∀ v ∈ vs, P v) → P (.tuple vs))
    (list : ∀ vs, (∀ v ∈ vs, P v) → P (.list vs))
    (dict : ∀ ks vs, (∀ v ∈ ks, P v) → (∀ v ∈ vs, P v) → P (.dict ks vs)) : ∀ v, P v := by
  apply WFVal.induct (motive_1 := P) (motive_2 := fun vs => ∀ v ∈ vs, P v)
  · exact float
  · exact ellipsis
  · exact tuple
  · exact list
  · exact dict
  · intro v h1 h2 h3 h4 h5
    cases v <;> first | exact int _ | exact str _ | exact bytes _ | exact bool _ | exact none | skip
    · exact absurd rfl (h1 _)
    · exact absurd rfl h2
    · exact absurd rfl (h3 _)
    · exact absurd rfl (h4 _)
    · exact absurd rfl (h5 _ _)
  · intro v h; cases h
  · intro v vs hv hvs x hx
    cases hx with
    | head => exact hv
    | tail _ h => exact hvs x h

theorem valToExprL_length (vs : List PyVal) : (valToExprL vs).length = vs.length := by
  induction vs with
  | nil => rfl
  | cons v vs ih => simp [valToExprL, ih]

theorem exact_all : ∀ v, ExactSpec v := by
  apply PyVal.induct_mem
  case int =>
    intro n _
    simp only [valToExpr]
    split
    · simp [literalEval, constToPyVal, bind, Except.bind, pure, Except.pure]
    · simp [literalEval, constToPyVal]
  case float =>
    intro r hwf
    simp only [WFVal] at hwf
    simp only [valToExpr]
    split
    · rename_i hneg
      simp only [literalEval, constToPyVal, bind, Except.bind, pure, Except.pure]
      rw [negFloatRepr_abs r hneg hwf]
    · simp [literalEval, constToPyVal]
  case str => intro s _; simp [valToExpr, literalEval, constToPyVal]
  case bytes => intro s _; simp [valToExpr, literalEval, constToPyVal]
  case bool => intro s _; simp [valToExpr, literalEval, constToPyVal]
  case none => intro _; simp [valToExpr, literalEval, constToPyVal]
  case ellipsis => intro h; simp [WFVal] at h
  case tuple =>
    intro vs ih hwf
    simp only [WFVal] at hwf
    simp only [valToExpr, literalEval, exactL vs ih hwf, bind, Except.bind, pure, Except.pure]
  case list =>
    intro vs ih hwf
    simp only [WFVal] at hwf
    simp only [valToExpr, literalEval, exactL vs ih hwf, bind, Except.bind, pure, Except.pure]
  case dict =>
    intro ks vs ihk ihv hwf
    simp only [WFVal, Bool.and_eq_true, decide_eq_true_eq] at hwf
    obtain ⟨⟨⟨⟨hl, hh⟩, hd⟩, hwk⟩, hwv⟩ := hwf
    simp only [valToExpr, literalEval, exactL ks ihk hwk, exactL vs ihv hwv, bind, Except.bind]
    simp only [hl, ne_eq, not_true_eq_false, if_false, hh, Bool.not_true, Bool.false_eq_true]
    rw [dictOfPairs_distinct ks vs [] [] hl rfl (by simpa using hd)]
    rfl

/-- **C13 (as_ast is exact)**: for every well-formed value of the listed types (any nesting of
    list/tuple/dict), the literal that `as_ast` emits evaluates back (`ast.literal_eval`) to an equal
    value of the same type. -/
theorem asAst_exact (v : PyVal) (h : WFVal v = true) : literalEval (asAst v) = .ok v := exact_all v h

/-! ### entry points -/

theorem normColumns_wf (c : PyVal) (h : WFVal c = true) : WFVal (normColumns c) = true := by
  cases c <;> simp_all [normColumns, WFVal, WFValL]

/-- **C13 (entry points)**: the literal argument nodes of MetaData / ResultTTree / ResultParquet /
    ResultPandasDF / ResultAwkwardArray evaluate back to the values given (a single column name
    becomes a one-element list, as documented). -/
theorem terminals_exact (src : Expr) (md filename treename cols : PyVal)
    (h1 : WFVal md = true) (h2 : WFVal filename = true) (h3 : WFVal treename = true) (h4 : WFVal cols = true) :
    (∃ d, mdCall src md = fcall "MetaData" [src, d] ∧ literalEval d = .ok md) ∧
    (∃ c t f, asRootTTree src filename treename cols = fcall "ResultTTree" [src, c, t, f] ∧
        literalEval c = .ok (normColumns cols) ∧ literalEval t = .ok treename ∧ literalEval f = .ok filename) ∧
    (∃ c f, asParquet src filename cols = fcall "ResultParquet" [src, c, f] ∧
        literalEval c = .ok (normColumns cols) ∧ literalEval f = .ok filename) ∧
    (∃ c, asPandas src cols = fcall "ResultPandasDF" [src, c] ∧ literalEval c = .ok (normColumns cols)) ∧
    (∃ c, asAwkward src cols = fcall "ResultAwkwardArray" [src, c] ∧ literalEval c = .ok (normColumns cols)) := by
  have hc := normColumns_wf cols h4
  exact ⟨⟨_, rfl, asAst_exact _ h1⟩, ⟨_, _, _, rfl, asAst_exact _ hc, asAst_exact _ h3, asAst_exact _ h2⟩,
    ⟨_, _, rfl, asAst_exact _ hc, asAst_exact _ h2⟩, ⟨_, rfl, asAst_exact _ hc⟩, ⟨_, rfl, asAst_exact _ hc⟩⟩

/-! ### every constant inside an emitted lambda is transportable -/

mutual
def allConstsLegal : Expr → Bool
  | .name _ => true
  | .const c => legalConst c
  | .attr v _ => allConstsLegal v
  | .call f args _ kwv => allConstsLegal f && allConstsLegalL args && allConstsLegalL kwv
  | .lam _ b => allConstsLegal b
  | .sub v s => allConstsLegal v && allConstsLegal s
  | .tuple es => allConstsLegalL es
  | .list es => allConstsLegalL es
  | .dict ks vs => allConstsLegalL ks && allConstsLegalL vs
  | .op _ args => allConstsLegalL args
  | .comp _ e t i ifs _ => allConstsLegal e && allConstsLegal t && allConstsLegal i && allConstsLegalL ifs
def allConstsLegalL : List Expr → Bool
  | [] => true
  | e :: es => allConstsLegal e && allConstsLegalL es
end

theorem unit_bind_ok {ε : Type} (r : Except ε Unit) (f : Unit → Except ε Unit) :
    (r >>= f) = .ok () ↔ r = .ok () ∧ f () = .ok () := by
  cases r with
  | error e => simp [bind, Except.bind]
  | ok u => cases u; simp [bind, Except.bind]

theorem checkAst_iff_both :
    (∀ e, checkAst e = .ok () ↔ allConstsLegal e = true) ∧
    (∀ es, checkAstL es = .ok () ↔ allConstsLegalL es = true) := by
  apply Expr.size.mutual_induct
    (motive_1 := fun e => checkAst e = .ok () ↔ allConstsLegal e = true)
    (motive_2 := fun es => checkAstL es = .ok () ↔ allConstsLegalL es = true)
  case case2 => intro c; simp only [checkAst, allConstsLegal]; split <;> simp_all
  all_goals intros
  all_goals simp_all [checkAst, checkAstL, allConstsLegal, allConstsLegalL, unit_bind_ok, and_assoc]

/-- **C13 (second sentence)**: `check_ast` accepts exactly the lambdas all of whose constants have a
    transportable scalar type; anything else is refused with ValueError (the model has no other
    outcome). -/
theorem checkAst_iff (e : Expr) : checkAst e = .ok () ↔ allConstsLegal e = true := checkAst_iff_both.1 e

theorem unit_bind_cases {r : Except Err Unit} {f : Unit → Except Err Unit}
    (hr : r = .ok () ∨ ∃ t, r = .error (.valueError t))
    (hf : f () = .ok () ∨ ∃ t, f () = .error (.valueError t)) :
    (r >>= f) = .ok () ∨ ∃ t, (r >>= f) = .error (.valueError t) := by
  rcases hr with h | ⟨t, h⟩
  · rw [h]; exact hf
  · rw [h]; exact Or.inr ⟨t, rfl⟩

theorem checkAst_outcomes_both :
    (∀ e, checkAst e = .ok () ∨ ∃ t, checkAst e = .error (.valueError t)) ∧
    (∀ es, checkAstL es = .ok () ∨ ∃ t, checkAstL es = .error (.valueError t)) := by
  apply Expr.size.mutual_induct
    (motive_1 := fun e => checkAst e = .ok () ∨ ∃ t, checkAst e = .error (.valueError t))
    (motive_2 := fun es => checkAstL es = .ok () ∨ ∃ t, checkAstL es = .error (.valueError t))
  case case1 => intro i; exact Or.inl rfl
  case case2 => intro c; simp only [checkAst]; split <;> simp
  case case3 => intro v a ih; simpa [checkAst] using ih
  case case4 => intro f args kwn kwv h1 h2 h3; simp only [checkAst]; exact unit_bind_cases h1 (unit_bind_cases h2 h3)
  case case5 => intro ps b ih; simpa [checkAst] using ih
  case case6 => intro v s h1 h2; simp only [checkAst]; exact unit_bind_cases h1 h2
  case case7 => intro es ih; simpa [checkAst] using ih
  case case8 => intro es ih; simpa [checkAst] using ih
  case case9 => intro ks vs h1 h2; simp only [checkAst]; exact unit_bind_cases h1 h2
  case case10 => intro k es ih; simpa [checkAst] using ih
  case case11 =>
    intro k e t i ifs a h1 h2 h3 h4; simp only [checkAst]
    exact unit_bind_cases h1 (unit_bind_cases h2 (unit_bind_cases h3 h4))
  case case12 => exact Or.inl rfl
  case case13 => intro e es h1 h2; simp only [checkAstL]; exact unit_bind_cases h1 h2

/-- A lambda containing a constant of another type is refused, and the refusal is a ValueError. -/
theorem checkAst_refuses (e : Expr) (h : allConstsLegal e = false) :
    ∃ t, checkAst e = .error (.valueError t) := by
  rcases checkAst_outcomes_both.1 e with h1 | h1
  · rw [(checkAst_iff e).mp h1] at h; cases h
  · exact h1

/-- Non-vacuity: a nested value with quotes, a negative number and a negative float. -/
example : literalEval (asAst (.dict [.str "it's", .str "n"] [.list [.int (-3), .float "-0.0", .str "a\nb\\"], .tuple [.none, .bool true]]))
    = .ok (.dict [.str "it's", .str "n"] [.list [.int (-3), .float "-0.0", .str "a\nb\\"], .tuple [.none, .bool true]]) :=
  asAst_exact _ (by decide)

end Fadl
