/-
  C02 — the checked simplifier model refines the plain one.

  `simp` (Model/Simplify.lean) is the model of `simplify_chained_calls` that the correspondence run compares with the
  implementation; `simpCk` (Model/SimplifyCk.lean) is the same text with explicit side conditions, and the soundness
  theorem (Props/C02Main.lean) is about `simpCk`.  This file closes the gap between the two: whenever the checked model
  returns a result, the plain model returns the same result (`simpCk_refines_simp`, for every fuel, stack, counter and
  expression).  So for every query the checked model accepts, the soundness theorem is a statement about the output of
  the model that is tied to the code (`simplify_sound_of_checked`).
-/
import Fadl.Model.SimplifyCk
import Fadl.Props.C02Main
namespace Fadl

/-! ## the checked model refines the plain one -/
set_option linter.unusedSimpArgs false
set_option linter.unusedVariables false

/-- `a'` succeeds with the same result whenever `a` succeeds -/
def Ref {α : Type} (a a' : Except Err α) : Prop := ∀ r, a = .ok r → a' = .ok r

theorem Ref.rfl' {α : Type} (a : Except Err α) : Ref a a := fun _ h => h
theorem Ref.err {α : Type} (e : Err) (a' : Except Err α) : Ref (.error e) a' := fun _ h => by cases h
theorem Ref.bind {α β : Type} {a a' : Except Err α} {f f' : α → Except Err β} (h : Ref a a') (hf : ∀ x, Ref (f x) (f' x)) :
    Ref (a >>= f) (a' >>= f') := by
  intro r hr
  cases a with
  | error e => cases hr
  | ok x =>
    have := h x rfl
    subst this
    exact hf x r hr
theorem Ref.guard {α : Type} {g : Bool} {a a' : Except Err α} {e : Err} (h : Ref a a') :
    Ref (if g = true then a else .error e) a' := by
  cases g <;> simp <;> first | exact h | exact Ref.err _ _
theorem Ref.nguard {α : Type} {g : Bool} {a a' : Except Err α} {e : Err} (h : Ref a a') :
    Ref (if (!g) = true then .error e else a) a' := by
  cases g <;> simp <;> first | exact h | exact Ref.err _ _

theorem Ref.pguard {α : Type} {P : Prop} [Decidable P] {a a' : Except Err α} {e : Err} (h : Ref a a') :
    Ref (if P then a else .error e) a' := by
  split
  · exact h
  · exact Ref.err _ _

theorem makeArgsUniqueCk_ref (ps : List String) (b : Expr) (c : Nat) (st : SStack) :
    Ref (makeArgsUniqueCk ps b c st) (.ok (makeArgsUnique ps b c)) := by
  unfold makeArgsUniqueCk
  simp only []
  split
  · exact Ref.rfl' _
  · exact Ref.err _ _

theorem convoluteCk_ref (g f : Expr) (c : Nat) (st : SStack) : Ref (convoluteCk g f c st) (convolute g f c) := by
  unfold convoluteCk convolute
  cases g <;> try exact Ref.err _ _
  rename_i gps gb
  cases f <;> try exact Ref.err _ _
  rename_i fps fb
  simp only []
  intro r h
  cases h1 : makeArgsUniqueCk gps gb c st with
  | error e => simp [h1, bind, Except.bind] at h
  | ok r1 =>
    obtain ⟨gps', gb', c1⟩ := r1
    simp only [h1, bind, Except.bind] at h
    cases h2 : makeArgsUniqueCk fps fb c1 st with
    | error e => simp [h2] at h
    | ok r2 =>
      obtain ⟨fps', fb', c2⟩ := r2
      simp only [h2] at h
      have e1 := makeArgsUniqueCk_ref _ _ _ _ _ h1
      have e2 := makeArgsUniqueCk_ref _ _ _ _ _ h2
      simp only [Except.ok.injEq] at e1 e2
      split at h
      · simp only [e1, e2]
        exact h
      · cases h

theorem Ref.bind_ok {α β : Type} {a : Except Err α} {x : α} {f : α → Except Err β} {b : Except Err β}
    (h : Ref a (.ok x)) (hf : Ref (f x) b) : Ref (a >>= f) b := by
  intro r hr
  cases a with
  | error e => cases hr
  | ok y =>
    have := h y rfl
    simp only [Except.ok.injEq] at this
    subst this
    exact hf r hr

/-- the subscript clause after both sub-expressions are simplified, as a function of the generic continuation -/
theorem subOuter_ref (v' s' : Expr) (c2 : Nat) (gen gen' : Except Err (Expr × Nat)) (hg : Ref gen gen') :
    Ref
      (match s' with
      | .const (.int n) =>
        (match v' with
         | .tuple es =>
           if n ≥ 0 then
             (match es[n.toNat]? with
              | some el => pure (el, c2)
              | Option.none => .error .indexError)
           else gen
         | .list es =>
           if n ≥ 0 then
             (match es[n.toNat]? with
              | some el => pure (el, c2)
              | Option.none => .error .indexError)
           else gen
         | .dict ks vs =>
           (match dictLookup ks vs (.int n) with
            | some r => pure (r, c2)
            | Option.none => pure (.sub v' s', c2))
         | _ => gen)
      | .const (.str k) =>
        (match v' with
         | .dict ks vs =>
           (match dictLookup ks vs (.str k) with
            | some r => pure (r, c2)
            | Option.none => pure (.sub v' s', c2))
         | _ => gen)
      | _ => gen)
      (match s' with
      | .const (.int n) =>
        (match v' with
         | .tuple es =>
           if n ≥ 0 then
             (match es[n.toNat]? with
              | some el => pure (el, c2)
              | Option.none => .error .indexError)
           else gen'
         | .list es =>
           if n ≥ 0 then
             (match es[n.toNat]? with
              | some el => pure (el, c2)
              | Option.none => .error .indexError)
           else gen'
         | .dict ks vs =>
           (match dictLookup ks vs (.int n) with
            | some r => pure (r, c2)
            | Option.none => pure (.sub v' s', c2))
         | _ => gen')
      | .const (.str k) =>
        (match v' with
         | .dict ks vs =>
           (match dictLookup ks vs (.str k) with
            | some r => pure (r, c2)
            | Option.none => pure (.sub v' s', c2))
         | _ => gen')
      | _ => gen') := by
  split
  · split
    · split
      · exact Ref.rfl' _
      · exact hg
    · split
      · exact Ref.rfl' _
      · exact hg
    · exact Ref.rfl' _
    · exact hg
  · split
    · exact Ref.rfl' _
    · exact hg
  · exact hg

theorem simpCk_refines_simp : ∀ fuel : Nat,
    (∀ st c e, Ref (simpCk fuel st c e) (simp fuel st c e)) ∧
    (∀ st c es, Ref (simpLCk fuel st c es) (simpL fuel st c es)) ∧
    (∀ st c args kwn kwv, Ref (callSelectCk fuel st c args kwn kwv) (callSelect fuel st c args kwn kwv)) ∧
    (∀ st c args kwn kwv, Ref (callSelectManyCk fuel st c args kwn kwv) (callSelectMany fuel st c args kwn kwv)) ∧
    (∀ st c args kwn kwv, Ref (callWhereCk fuel st c args kwn kwv) (callWhere fuel st c args kwn kwv)) := by
  intro fuel
  induction fuel with
  | zero =>
    refine ⟨?_, ?_, ?_, ?_, ?_⟩ <;> intros <;>
      simp only [simpCk, simpLCk, callSelectCk, callSelectManyCk, callWhereCk] <;> exact Ref.err _ _
  | succ fuel ih =>
    obtain ⟨ihS, ihL, ihSel, ihMany, ihWhere⟩ := ih
    refine ⟨?_, ?_, ?_, ?_, ?_⟩
    · intro st c e
      cases e with
      | name x => simp only [simpCk, simp]; exact Ref.rfl' _
      | const k => simp only [simpCk, simp]; exact Ref.rfl' _
      | lam ps b =>
        simp only [simpCk, simp]
        refine Ref.bind_ok (makeArgsUniqueCk_ref ps b c st) ?_
        exact Ref.bind (ihS _ _ _) (fun x => Ref.rfl' _)
      | tuple es => simp only [simpCk, simp]; exact Ref.bind (ihL _ _ _) (fun x => Ref.rfl' _)
      | list es => simp only [simpCk, simp]; exact Ref.bind (ihL _ _ _) (fun x => Ref.rfl' _)
      | dict ks vs =>
        simp only [simpCk, simp]
        exact Ref.bind (ihL _ _ _) (fun x => Ref.bind (ihL _ _ _) (fun y => Ref.rfl' _))
      | op k args => simp only [simpCk, simp]; exact Ref.bind (ihL _ _ _) (fun x => Ref.rfl' _)
      | comp kind el t i ifs a => simp only [simpCk]; exact Ref.err _ _
      | attr v a =>
        simp only [simpCk, simp]
        cases firstArg? v with
        | some o =>
          cases o with
          | some first => exact ihS _ _ _
          | none => exact Ref.rfl' _
        | none =>
          simp only []
          refine Ref.bind (ihS _ _ _) (fun x => ?_)
          obtain ⟨v', c1⟩ := x
          simp only []
          have hrest : Ref
              (match firstArg? v' with
               | some (some first) =>
                 if keyFree st (fcall "First" [makeSelect first (.lam [argName c1] (.attr (.name (argName c1)) a))]) = true then
                   simpCk fuel st (c1 + 1) (fcall "First" [makeSelect first (.lam [argName c1] (.attr (.name (argName c1)) a))])
                 else .error (sideErr "attribute pushed under First")
               | some Option.none => .error (.internal "IndexError")
               | Option.none => pure (.attr v' a, c1))
              (match firstArg? v' with
               | some (some first) =>
                 simp fuel st (c1 + 1) (fcall "First" [makeSelect first (.lam [argName c1] (.attr (.name (argName c1)) a))])
               | some Option.none => .error (.internal "IndexError")
               | Option.none => pure (.attr v' a, c1)) := by
            cases firstArg? v' with
            | some o =>
              cases o with
              | some first => exact Ref.guard (ihS _ _ _)
              | none => exact Ref.rfl' _
            | none => exact Ref.rfl' _
          cases v' <;> first | exact hrest | exact Ref.rfl' _
      | sub v s =>
        simp only [simpCk, simp]
        refine Ref.bind (ihS _ _ _) (fun x => ?_)
        obtain ⟨v', c1⟩ := x
        simp only []
        refine Ref.bind (ihS _ _ _) (fun y => ?_)
        obtain ⟨s', c2⟩ := y
        simp only []
        apply subOuter_ref
        cases firstArg? v' with
        | some o =>
          cases o with
          | some first => exact Ref.guard (ihS _ _ _)
          | none => exact Ref.rfl' _
        | none => exact Ref.rfl' _
      | call f args kwn kwv =>
        -- the generic continuation
        have hgen : ∀ (head head' : Except Err (Expr × Nat)) (P : Prop) [Decidable P], Ref head head' →
            Ref (do
              let __x ← head
              let __x_1 ← simpLCk fuel st __x.snd args
              let __x_2 ← simpLCk fuel st __x_1.snd kwv
              if P then pure (Expr.call __x.fst __x_1.fst kwn __x_2.fst, __x_2.snd)
              else Except.error (sideErr "a substituted name in callee position"))
            (do
              let __x ← head'
              let __x_1 ← simpL fuel st __x.snd args
              let __x_2 ← simpL fuel st __x_1.snd kwv
              pure (Expr.call __x.fst __x_1.fst kwn __x_2.fst, __x_2.snd)) := by
          intro head head' P _ hh
          refine Ref.bind hh (fun x => Ref.bind (ihL _ _ _) (fun y => Ref.bind (ihL _ _ _) (fun z => ?_)))
          exact Ref.pguard (Ref.rfl' _)
        cases f with
        | lam ps body =>
          simp only [simpCk, simp]
          split
          · exact hgen _ _ _ (ihS _ _ _)
          · refine Ref.bind_ok (makeArgsUniqueCk_ref ps body c st) ?_
            refine Ref.bind (ihL _ _ _) (fun y => Ref.bind (ihL _ _ _) (fun z => ?_))
            exact Ref.guard (ihS _ _ _)
        | attr v m =>
          simp only [simpCk, simp]
          cases firstArg? v with
          | some o =>
            cases o with
            | some seq => exact Ref.guard (ihS _ _ _)
            | none => exact Ref.rfl' _
          | none =>
            simp only []
            refine hgen _ _ _ ?_
            refine Ref.bind (ihS _ _ _) (fun x => Ref.rfl' _)
        | name n =>
          simp only [simpCk, simp]
          split
          · exact ihSel _ _ _ _ _
          · split
            · exact ihMany _ _ _ _ _
            · split
              · exact ihWhere _ _ _ _ _
              · exact hgen _ _ _ (ihS _ _ _)
        | const k => simp only [simpCk, simp]; exact hgen _ _ _ (ihS _ _ _)
        | sub v s => simp only [simpCk, simp]; exact hgen _ _ _ (ihS _ _ _)
        | tuple es => simp only [simpCk, simp]; exact hgen _ _ _ (ihS _ _ _)
        | list es => simp only [simpCk, simp]; exact hgen _ _ _ (ihS _ _ _)
        | dict ks vs => simp only [simpCk, simp]; exact hgen _ _ _ (ihS _ _ _)
        | op k es => simp only [simpCk, simp]; exact hgen _ _ _ (ihS _ _ _)
        | comp kind el t i ifs a => simp only [simpCk, simp]; exact hgen _ _ _ (ihS _ _ _)
        | call f2 a2 k2 v2 => simp only [simpCk, simp]; exact hgen _ _ _ (ihS _ _ _)
    · intro st c es
      cases es with
      | nil => simp only [simpLCk, simpL]; exact Ref.rfl' _
      | cons e es =>
        simp only [simpLCk, simpL]
        exact Ref.bind (ihS _ _ _) (fun x => Ref.bind (ihL _ _ _) (fun y => Ref.rfl' _))
    · -- callSelect
      intro st c args kwn kwv
      rcases args with _ | ⟨source, _ | ⟨transform, rest⟩⟩
      · simp only [callSelectCk, callSelect]; exact Ref.rfl' _
      · simp only [callSelectCk, callSelect]; exact Ref.rfl' _
      · simp only [callSelectCk, callSelect]
        split
        · exact Ref.rfl' _
        · refine Ref.bind (ihS _ _ _) (fun x => ?_)
          obtain ⟨parent, c1⟩ := x
          simp only []
          refine Ref.nguard ?_
          have hd : Ref (do let (sel, c2) ← simpCk fuel st c1 transform; pure (makeSelect parent sel, c2))
              (do let (sel, c2) ← simp fuel st c1 transform; pure (makeSelect parent sel, c2)) :=
            Ref.bind (ihS _ _ _) (fun y => Ref.rfl' _)
          cases opCall? parent with
          | none => exact hd
          | some o =>
            obtain ⟨n, pargs⟩ := o
            simp only []
            split
            · rcases pargs with _ | ⟨src, _ | ⟨f, prest⟩⟩
              · exact Ref.rfl' _
              · exact Ref.rfl' _
              · simp only []
                split
                · exact Ref.rfl' _
                · exact Ref.bind (convoluteCk_ref _ _ _ _) (fun y => Ref.bind (ihS _ _ _) (fun z => Ref.rfl' _))
            · split
              · rcases pargs with _ | ⟨src, _ | ⟨f, prest⟩⟩
                · exact Ref.rfl' _
                · exact Ref.rfl' _
                · simp only []
                  cases f <;> first | exact Ref.rfl' _ | exact Ref.guard (ihS _ _ _)
              · exact hd
    · -- callSelectMany
      intro st c args kwn kwv
      rcases args with _ | ⟨source, _ | ⟨selection, rest⟩⟩
      · simp only [callSelectManyCk, callSelectMany]; exact Ref.rfl' _
      · simp only [callSelectManyCk, callSelectMany]; exact Ref.rfl' _
      · simp only [callSelectManyCk, callSelectMany]
        split
        · exact Ref.rfl' _
        · refine Ref.bind (ihS _ _ _) (fun x => ?_)
          obtain ⟨parent, c1⟩ := x
          simp only []
          refine Ref.nguard ?_
          have hd : Ref (do let (sel, c2) ← simpCk fuel st c1 selection; pure (fcall "SelectMany" [parent, sel], c2))
              (do let (sel, c2) ← simp fuel st c1 selection; pure (fcall "SelectMany" [parent, sel], c2)) :=
            Ref.bind (ihS _ _ _) (fun y => Ref.rfl' _)
          cases opCall? parent with
          | none => exact hd
          | some o =>
            obtain ⟨n, pargs⟩ := o
            simp only []
            split
            · rcases pargs with _ | ⟨seq, _ | ⟨f, _ | ⟨g, prest⟩⟩⟩
              · exact Ref.rfl' _
              · exact Ref.rfl' _
              · simp only []
                cases f with
                | lam fps fb =>
                  cases fps with
                  | nil => exact Ref.rfl' _
                  | cons p prest => exact Ref.guard (ihS _ _ _)
                | _ => exact Ref.rfl' _
              · exact Ref.rfl' _
            · split
              · rcases pargs with _ | ⟨seq, _ | ⟨f, _ | ⟨g, prest⟩⟩⟩
                · exact Ref.rfl' _
                · exact Ref.rfl' _
                · simp only []
                  split
                  · exact Ref.rfl' _
                  · exact Ref.bind (convoluteCk_ref _ _ _ _) (fun y => Ref.bind (ihS _ _ _) (fun z => Ref.rfl' _))
                · exact Ref.rfl' _
              · exact hd
    · -- callWhere
      intro st c args kwn kwv
      rcases args with _ | ⟨source, _ | ⟨filter, rest⟩⟩
      · simp only [callWhereCk, callWhere]; exact Ref.rfl' _
      · simp only [callWhereCk, callWhere]; exact Ref.rfl' _
      · simp only [callWhereCk, callWhere]
        split
        · exact Ref.rfl' _
        · refine Ref.bind (ihS _ _ _) (fun x => ?_)
          obtain ⟨parent, c1⟩ := x
          simp only []
          refine Ref.nguard ?_
          have hd : Ref (do
                let (f', c2) ← simpCk fuel st c1 filter
                if lambdaIsTrue f' then pure (parent, c2) else pure (fcall "Where" [parent, f'], c2))
              (do
                let (f', c2) ← simp fuel st c1 filter
                if lambdaIsTrue f' then pure (parent, c2) else pure (fcall "Where" [parent, f'], c2)) :=
            Ref.bind (ihS _ _ _) (fun y => Ref.rfl' _)
          cases opCall? parent with
          | none => exact hd
          | some o =>
            obtain ⟨n, pargs⟩ := o
            simp only []
            split
            · rcases pargs with _ | ⟨src, _ | ⟨f, prest⟩⟩
              · exact Ref.rfl' _
              · exact Ref.rfl' _
              · simp only []
                split
                · exact Ref.rfl' _
                · exact Ref.guard (ihS _ _ _)
            · split
              · rcases pargs with _ | ⟨src, _ | ⟨f, prest⟩⟩
                · exact Ref.rfl' _
                · exact Ref.rfl' _
                · simp only []
                  split
                  · exact Ref.rfl' _
                  · refine Ref.bind (convoluteCk_ref _ _ _ _) (fun y => Ref.bind (ihS _ _ _) (fun z => ?_))
                    exact Ref.guard (ihS _ _ _)
              · split
                · rcases pargs with _ | ⟨src, _ | ⟨f, prest⟩⟩
                  · exact Ref.rfl' _
                  · exact Ref.rfl' _
                  · simp only []
                    cases f <;> first | exact Ref.rfl' _ | exact Ref.guard (ihS _ _ _)
                · exact hd


/-- whenever the checked model returns a result, the plain model returns the same result -/
theorem simplifyCk_refines_simplify (fuel c : Nat) (e e' : Expr) (c' : Nat)
    (h : simplifyCk fuel c e = .ok (e', c')) : simplify fuel c e = .ok (e', c') :=
  (simpCk_refines_simp fuel).1 [[]] _ e (e', c') h

/-- **C02 about the model tied to the code.** For every query the checked model accepts: the plain model
    `simplify` returns that same query `e'`, and `e'` evaluates (deferred execution, every world that is well behaved,
    every environment) to the value of the original whenever that value contains no deferred failure. -/
theorem simplify_sound_of_checked {w : World} (hw : WorldOK w) (fuel c : Nat) (e e' : Expr) (c' : Nat)
    (h : simplifyCk fuel c e = .ok (e', c')) :
    simplify fuel c e = .ok (e', c') ∧
    ∀ (env : Env), EnvLe env env → ∀ v : Val, evLz w env e = .ok v → v.clean = true → evLz w env e' = .ok v :=
  ⟨simplifyCk_refines_simplify fuel c e e' c' h, fun env henv v hv hc => simplifyCk_preserves hw fuel c e e' c' h env henv v hv hc⟩

end Fadl
