/-
  C01 — front to back for lambdas given as text / AST on an untyped dataset.

  `chain_backend` (Props/C01Full.lean) starts from the lambdas as they stand in the query.  Here the chain starts from the
  lambdas as the user WROTE them - comprehensions and generator expressions included, with Python's own semantics - and goes
  through the library's front end for a text / AST lambda on an untyped stream: `resolve_syntatic_sugar`
  (`resolveSugar`, C06), then `remap_from_lambda` (`streamOp`, the type follower; C10: identity on untyped streams).
  Composition of C06 (`sugar_preserves`), C10 (`streamOp_untyped_identity`) and `chain_backend`: whatever the chain of
  written lambdas computes when Python runs it on the in-memory sequence, the AST the library builds from what it emits,
  after the three backend passes, computes under deferred execution.
-/
import Fadl.Props.C01Full
import Fadl.Props.C06
import Fadl.Props.C10Full
namespace Fadl

theorem mapRes_imp {f g : Val → Res} (h : ∀ v r, f v = .ok r → g v = .ok r) :
    ∀ (vs out : List Val), mapRes f vs = .ok out → mapRes g vs = .ok out
  | [], out, ho => by simpa [mapRes] using ho
  | v :: vs, out, ho => by
    simp only [mapRes] at ho ⊢
    cases hf : f v with
    | error e => simp [hf, bind, Except.bind] at ho
    | ok r =>
      cases hm : mapRes f vs with
      | error e => simp [hf, hm, bind, Except.bind] at ho
      | ok rest =>
        simp only [hf, hm, bind, Except.bind, pure, Except.pure] at ho
        simp only [h v r hf, mapRes_imp h vs rest hm, bind, Except.bind, pure, Except.pure]
        exact ho

theorem filterM'_imp {f g : Val → Res} (h : ∀ v r, f v = .ok r → g v = .ok r) :
    ∀ (vs out : List Val), filterM' f vs = .ok out → filterM' g vs = .ok out
  | [], out, ho => by simpa [filterM'] using ho
  | v :: vs, out, ho => by
    simp only [filterM'] at ho ⊢
    cases hf : f v with
    | error e => simp [hf, bind, Except.bind] at ho
    | ok r =>
      cases hm : filterM' f vs with
      | error e => simp [hf, hm, bind, Except.bind] at ho
      | ok rest =>
        simp only [hf, hm, bind, Except.bind, pure, Except.pure] at ho
        simp only [h v r hf, filterM'_imp h vs rest hm, bind, Except.bind, pure, Except.pure]
        exact ho

/-- the emitted step computes whatever the written step computes -/
def StepImp (w : World) (s s' : ChainStep) : Prop :=
  s'.op = s.op ∧ s'.param = s.param ∧ ∀ env v, den w s.body env = .ok v → den w s'.body env = .ok v

theorem stepVal_imp (w : World) (env : Env) {s s' : ChainStep} (h : StepImp w s s') (vs out : List Val)
    (ho : stepVal w env s vs = .ok out) : stepVal w env s' vs = .ok out := by
  obtain ⟨hop, hp, hb⟩ := h
  have hf : ∀ v r, den w s.body (env.upd s.param v) = .ok r → den w s'.body (env.upd s'.param v) = .ok r := by
    intro v r hr; rw [hp]; exact hb _ _ hr
  simp only [stepVal, hop] at ho ⊢
  cases hso : s.op with
  | select => simp only [hso] at ho ⊢; exact mapRes_imp hf vs out ho
  | wher => simp only [hso] at ho ⊢; exact filterM'_imp hf vs out ho
  | selectMany =>
    simp only [hso] at ho ⊢
    cases hm : mapRes (fun v => den w s.body (env.upd s.param v)) vs with
    | error e => simp [hm, bind, Except.bind] at ho
    | ok rs =>
      simp only [hm, bind, Except.bind] at ho
      simp only [mapRes_imp hf vs rs hm, bind, Except.bind]
      exact ho

theorem runChain_imp (w : World) (env : Env) : ∀ (steps steps' : List ChainStep), All2 (StepImp w) steps steps' →
    ∀ (vs out : List Val), runChain w env vs steps = .ok out → runChain w env vs steps' = .ok out
  | [], _, .nil, vs, out, h => h
  | s :: rest, _, .cons (b := s') (bs := rest') hs hrest, vs, out, h => by
    simp only [runChain] at h ⊢
    cases hv : stepVal w env s vs with
    | error e => simp [hv, bind, Except.bind] at h
    | ok vs' =>
      simp only [hv, bind, Except.bind] at h
      simp only [stepVal_imp w env hs vs vs' hv, bind, Except.bind]
      exact runChain_imp w env rest rest' hrest vs' out h

/-- what the library's front end does with ONE operator call whose lambda is given as text / AST on a stream of untyped
    items: sugar lowering of the lambda, then the type follower; `s'` is the step as it stands in the query -/
def FrontText (M : Model) (cs : ClassTable) (s s' : ChainStep) : Prop :=
  ∃ (itemTy ty' : Ty) (st : FSt) (b1 : Expr),
    itemTy.untyped = true ∧
    resolveSugar cs s.lam = .ok (.lam [s.param] b1) ∧
    noFuncCall M b1 = true ∧
    streamOp M s.op.name itemTy (.lam [s.param] b1) = .ok (s'.lam, ty', st) ∧
    s'.op = s.op

theorem frontText_stepImp (M : Model) (cs : ClassTable) (w : World) (s s' : ChainStep) (h : FrontText M cs s s') :
    StepImp w s s' := by
  obtain ⟨itemTy, ty', st, b1, hu, hsug, hnf, hop, hsame⟩ := h
  have hid := (streamOp_untyped_identity M s.op.name itemTy s.param b1 s'.lam ty' st hu hnf hop).1
  simp only [ChainStep.lam, Expr.lam.injEq, List.cons.injEq, and_true] at hid
  obtain ⟨hp, hb⟩ := hid
  refine ⟨hsame, hp, ?_⟩
  -- the sugar pass on the lambda is the sugar pass on its body
  have hbody : resolveSugar cs s.body = .ok b1 := by
    simp only [ChainStep.lam, resolveSugar] at hsug
    cases hr : resolveSugar cs s.body with
    | error e => simp [hr, bind, Except.bind] at hsug
    | ok b => simp [hr, bind, Except.bind, pure, Except.pure] at hsug; rw [hsug]
  intro env v hv
  rw [hb]
  exact sugar_preserves w cs env s.body b1 v hbody hv

/-- **C01 front to back (text / AST lambdas, untyped dataset)**: the chain of WRITTEN lambdas run by Python on the in-memory
    sequence, and the simplified backend form of the AST built from what the front end emits for each of them -/
theorem chain_text_backend (M : Model) (cs : ClassTable) (w : World) (hw : WorldClean w) (env : Env) (henv : EnvClean env)
    (src : Expr) (steps steps' : List ChainStep) (vs out : List Val) (fuel c : Nat) (e' : Expr)
    (hfront : All2 (FrontText M cs) steps steps')
    (hsrc : den w src env = .ok (.list vs)) (hrun : runChain w env vs steps = .ok out)
    (hb : backendCk fuel c (buildChain src steps') = .ok e') : evLz w env e' = .ok (.list out) := by
  have himp : ∀ (a b : List ChainStep), All2 (FrontText M cs) a b → All2 (StepImp w) a b := by
    intro a b hab
    induction hab with
    | nil => exact .nil
    | cons h _ ih => exact .cons (frontText_stepImp M cs w _ _ h) ih
  have himp := himp steps steps' hfront
  exact chain_backend w hw env henv src steps' vs out fuel c e' hsrc (runChain_imp w env steps steps' himp vs out hrun) hb

namespace C01FrontExample
def written : Expr :=
  .comp "ListComp" (.attr (.name "j") "pt") (.name "j") (.attr (.name "e") "jets")
    [.op (.cmp ["Gt"]) [.attr (.name "j") "pt", .const (.int 30)]] false
def lowered : Expr :=
  .call (.attr (.call (.attr (.attr (.name "e") "jets") "Where")
      [.lam ["j"] (.op (.cmp ["Gt"]) [.attr (.name "j") "pt", .const (.int 30)])] [] []) "Select")
    [.lam ["j"] (.attr (.name "j") "pt")] [] []

/-- Non-vacuity: `Select("lambda e: [j.pt for j in e.jets if j.pt > 30]")` on an untyped dataset goes through the front end:
    the comprehension is lowered to Where / Select and the follower leaves the lowered lambda as it is. -/
example : FrontText { classes := [], funcs := [] } [] { op := .select, param := "e", body := written }
    { op := .select, param := "e", body := lowered } := by
  refine ⟨.any, .any, { md := [], log := [] }, lowered, rfl, by rfl, by decide +kernel, ?_, rfl⟩
  rfl
end C01FrontExample

end Fadl
