/-
  C14 — intermediate tuples and dictionaries are compiled away.
  First layer: the projection-of-literal steps by which packaging is eliminated (the shape theorem for whole
  pack chains is being developed in Fadl/Props/C14Chain.lean).
-/
import Fadl.Props.C18
namespace Fadl

/-- a constant index into a (simplified) tuple literal is replaced by that component: neither the
    tuple construction nor the projection survives -/
theorem proj_of_tuple (fuel : Nat) (st : SStack) (c c1 c2 : Nat) (v s : Expr) (es : List Expr) (n : Nat) (el : Expr)
    (hv : simp fuel st c v = .ok (.tuple es, c1)) (hs : simp fuel st c1 s = .ok (.const (.int n), c2))
    (hel : es[n]? = some el) :
    simp (fuel + 1) st c (.sub v s) = .ok (el, c2) := by
  rw [simp_sub_tuple_const fuel st c c1 c2 v s es n hv hs, hel]

theorem proj_of_list (fuel : Nat) (st : SStack) (c c1 c2 : Nat) (v s : Expr) (es : List Expr) (n : Nat) (el : Expr)
    (hv : simp fuel st c v = .ok (.list es, c1)) (hs : simp fuel st c1 s = .ok (.const (.int n), c2))
    (hel : es[n]? = some el) :
    simp (fuel + 1) st c (.sub v s) = .ok (el, c2) := by
  have : (n : Int) ≥ 0 := by omega
  simp [simp, hv, hs, bind, Except.bind, this, hel, pure, Except.pure]

/-- a constant key of a (simplified) dictionary literal is replaced by that value, with subscript syntax … -/
theorem proj_of_dict_key (fuel : Nat) (st : SStack) (c c1 c2 : Nat) (v s : Expr) (ks vs : List Expr) (k : String) (el : Expr)
    (hv : simp fuel st c v = .ok (.dict ks vs, c1)) (hs : simp fuel st c1 s = .ok (.const (.str k), c2))
    (hel : dictLookup ks vs (.str k) = some el) :
    simp (fuel + 1) st c (.sub v s) = .ok (el, c2) := by
  simp [simp, hv, hs, bind, Except.bind, hel, pure, Except.pure]

/-- … and with attribute syntax -/
theorem proj_of_dict_attr (fuel : Nat) (st : SStack) (c c1 : Nat) (v : Expr) (ks vs : List Expr) (a : String) (el : Expr)
    (hnf : notFirstCall v = true)
    (hv : simp fuel st c v = .ok (.dict ks vs, c1)) (hel : dictLookup ks vs (.str a) = some el) :
    simp (fuel + 1) st c (.attr v a) = .ok (el, c1) := by
  simp [simp, firstArg?_none_of_notFirstCall hnf, hv, bind, Except.bind, hel, pure, Except.pure]

/-- a stacked name (the parameter of an inlined lambda) is replaced by the argument bound to it: this
    is how a later stage's `t[0]` meets the literal an earlier stage built -/
theorem name_substituted (fuel : Nat) (st : SStack) (c : Nat) (x : String) (e : Expr) (h : stackLookup x st = some e) :
    simp (fuel + 1) st c (.name x) = .ok (e, c) := by
  simp [simp, h]

end Fadl
