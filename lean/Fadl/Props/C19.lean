/-
  C19 — aggregate shortcuts lower to equivalent folds.
  Theorems about `aggT` (model of aggregate_node_transformer).
-/
import Fadl.Lemmas.Mono
import Fadl.Model.Aggregate
namespace Fadl

/-! ### shape: no shortcut call left, frame -/

def isShortcutName (n : String) : Bool := (shortcutLam n).isSome

mutual
/-- No call `n(x)` with `n ∈ {len, Count, Sum, Max, Min}` and exactly one argument: one positional argument that is not
    starred, no keyword. -/
def noShortcut : Expr → Bool
  | .name _ => true
  | .const _ => true
  | .attr v _ => noShortcut v
  | .call f args kwn kwv =>
    (match f, args with
     | .name n, [a] => !(kwn.isEmpty && !isStarredArg a && isShortcutName n)
     | _, _ => true) && noShortcut f && noShortcutL args && noShortcutL kwv
  | .lam _ b => noShortcut b
  | .sub v s => noShortcut v && noShortcut s
  | .tuple es => noShortcutL es
  | .list es => noShortcutL es
  | .dict ks vs => noShortcutL ks && noShortcutL vs
  | .op _ args => noShortcutL args
  | .comp _ e t i ifs _ => noShortcut e && noShortcut t && noShortcut i && noShortcutL ifs
def noShortcutL : List Expr → Bool
  | [] => true
  | e :: es => noShortcut e && noShortcutL es
end

theorem aggTL_length (es : List Expr) : (aggTL es).length = es.length := by
  induction es with
  | nil => rfl
  | cons e es ih => simp [aggTL, ih]

theorem noShortcut_lams : noShortcut lamCount = true ∧ noShortcut lamSum = true ∧
    noShortcut lamMax = true ∧ noShortcut lamMin = true := by
  simp [lamCount, lamSum, lamMax, lamMin, noShortcut, noShortcutL]

theorem shortcutLam_noShortcut {n : String} {l : Expr} (h : shortcutLam n = some l) : noShortcut l = true := by
  unfold shortcutLam at h
  obtain ⟨h1, h2, h3, h4⟩ := noShortcut_lams
  split at h
  · cases h; exact h1
  split at h
  · cases h; exact h2
  split at h
  · cases h; exact h3
  split at h
  · cases h; exact h4
  · cases h

theorem aggT_eq_name {f : Expr} {n : String} (h : aggT f = .name n) : f = .name n := by
  cases f with
  | name m => simpa [aggT] using h
  | call f' a' k' v' =>
    exfalso
    simp only [aggT] at h
    revert h
    split
    · split <;> simp [aggCall, fcall]
    · simp
  | _ => simp [aggT] at h

theorem aggT_no_shortcuts_both :
    (∀ e : Expr, noShortcut (aggT e) = true) ∧ (∀ es : List Expr, noShortcutL (aggTL es) = true) := by
  apply Expr.size.mutual_induct
    (motive_1 := fun e => noShortcut (aggT e) = true)
    (motive_2 := fun es => noShortcutL (aggTL es) = true)
  case case4 =>
    intro f args kwn kwv ihf iha ihk
    simp only [aggT]
    split
    · rename_i n a' heq
      split
      · rename_i l hl
        have : noShortcut a' = true := by
          have := iha; rw [heq] at this; simpa [noShortcutL] using this
        have hl' : shortcutLam n = some l := by
          split at hl
          · exact hl
          · cases hl
        simp [aggCall, fcall, noShortcut, noShortcutL, this, shortcutLam_noShortcut hl', isShortcutName, isStarredArg]
      · rename_i hl
        have : noShortcut a' = true := by
          have := iha; rw [heq] at this; simpa [noShortcutL] using this
        by_cases hg : (kwn.isEmpty && !isStarredArg a') = true
        · simp only [hg, if_true] at hl
          simp [noShortcut, noShortcutL, this, ihk, isShortcutName, hl]
        · simp only [Bool.and_eq_true, Bool.not_eq_true', not_and, Bool.not_eq_false] at hg
          simp only [noShortcut, noShortcutL, this, ihk, Bool.and_true]
          by_cases hk : kwn.isEmpty = true
          · simp [hk, hg hk]
          · simp [hk]
    · rename_i hne
      simp only [noShortcut, ihf, iha, ihk, Bool.and_true]
      split
      · rename_i n x hf ha
        exact absurd ha (hne n x (aggT_eq_name hf))
      · rfl
  all_goals intros
  all_goals simp_all [noShortcut, noShortcutL, aggT, aggTL]

/-- **C19**: every `len(seq)`, `Count(seq)`, `Sum(seq)`, `Max(seq)`, `Min(seq)` call is replaced, at
    any depth (inside the sequence argument, inside lambdas, …). -/
theorem aggT_no_shortcuts_left (e : Expr) : noShortcut (aggT e) = true := aggT_no_shortcuts_both.1 e

theorem aggT_frame_both :
    (∀ e : Expr, noShortcut e = true → aggT e = e) ∧
    (∀ es : List Expr, noShortcutL es = true → aggTL es = es) := by
  apply Expr.size.mutual_induct
    (motive_1 := fun e => noShortcut e = true → aggT e = e)
    (motive_2 := fun es => noShortcutL es = true → aggTL es = es)
  case case4 =>
    intro f args kwn kwv ihf iha ihk h
    simp only [noShortcut, Bool.and_eq_true] at h
    obtain ⟨⟨⟨h0, h1⟩, h2⟩, h3⟩ := h
    simp only [aggT, iha h2, ihk h3, ihf h1]
    split
    · rename_i _ _ n x
      split
      · rename_i l hl
        exfalso
        split at hl
        · rename_i hg
          simp only [Bool.and_eq_true, Bool.not_eq_true'] at hg
          simp [isShortcutName, hl, hg.1, hg.2] at h0
        · cases hl
      · rfl
    · rfl
  all_goals intros
  all_goals simp_all [noShortcut, noShortcutL, aggT, aggTL]

/-- **C19 frame**: methods of the same name, calls with another argument count, bare references to
    the names — any tree without a one-argument shortcut call — are returned unchanged. -/
theorem aggT_frame (e : Expr) (h : noShortcut e = true) : aggT e = e := aggT_frame_both.1 e h

/-- Instances of the frame: same-named method, other arities, bare names. -/
example (x : Expr) (hx : noShortcut x = true) : aggT (mcall x "Sum" []) = mcall x "Sum" [] :=
  aggT_frame _ (by simp [mcall, noShortcut, noShortcutL, hx])
example : aggT (fcall "Sum" [.name "a", .name "b"]) = fcall "Sum" [.name "a", .name "b"] := by rfl
example : aggT (fcall "Count" []) = fcall "Count" [] := by rfl
example : aggT (.tuple [.name "len", .name "Max"]) = .tuple [.name "len", .name "Max"] := by rfl

/-! ### the folds compute len / sum / max-with-0 / min-with-0 -/

section folds
variable (w : World) (env : Env)

theorem count_step (k : Int) (v : Val) :
    applyLam2 (denLam w lamCount) env (.int k) v = .ok (.int (k + 1)) := by
  simp [lamCount, accV, denLam, applyLam2, den, denL, evOp, Env.upd, binOp, asInt, intBin, bind, Except.bind, constVal]

theorem count_fold (vs : List Val) (k : Int) :
    foldM' (applyLam2 (denLam w lamCount) env) (.int k) vs = .ok (.int (k + vs.length)) := by
  induction vs generalizing k with
  | nil => simp [foldM']
  | cons v vs ih =>
    simp only [foldM', count_step, bind, Except.bind, ih]
    simp; omega

theorem sum_step (k i : Int) :
    applyLam2 (denLam w lamSum) env (.int k) (.int i) = .ok (.int (k + i)) := by
  simp [lamSum, accV, denLam, applyLam2, den, denL, evOp, Env.upd, binOp, asInt, intBin, bind, Except.bind]

theorem sum_fold (vs : List Val) (k s : Int) (h : sumInts vs = .ok s) :
    foldM' (applyLam2 (denLam w lamSum) env) (.int k) vs = .ok (.int (k + s)) := by
  induction vs generalizing k s with
  | nil => simp [sumInts] at h; subst h; simp [foldM']
  | cons v vs ih =>
    cases v <;> simp [sumInts] at h
    case int i =>
      cases hs : sumInts vs with
      | error e => simp [hs, Functor.map, Except.map] at h
      | ok r =>
        simp [hs, Functor.map, Except.map] at h
        subst h
        simp only [foldM', sum_step, bind, Except.bind, ih (k + i) r hs]
        simp; omega

theorem max_step (k i : Int) :
    applyLam2 (denLam w lamMax) env (.int k) (.int i) = .ok (.int (if k > i then k else i)) := by
  by_cases h : k > i <;>
  simp [lamMax, accV, denLam, applyLam2, den, denL, evOp, Env.upd, asInt, bind, Except.bind,
    cmpChain, cmpOne, truthy, h]

theorem max_fold (vs : List Val) (k m : Int) (h : maxInts k vs = .ok m) :
    foldM' (applyLam2 (denLam w lamMax) env) (.int k) vs = .ok (.int m) := by
  induction vs generalizing k with
  | nil => simp [maxInts] at h; subst h; simp [foldM']
  | cons v vs ih =>
    cases v <;> simp [maxInts] at h
    case int i =>
      simp only [foldM', max_step, bind, Except.bind]
      exact ih _ h

theorem min_step (k i : Int) :
    applyLam2 (denLam w lamMin) env (.int k) (.int i) = .ok (.int (if k < i then k else i)) := by
  by_cases h : k < i <;>
  simp [lamMin, accV, denLam, applyLam2, den, denL, evOp, Env.upd, asInt, bind, Except.bind,
    cmpChain, cmpOne, truthy, h]

theorem min_fold (vs : List Val) (k m : Int) (h : minInts k vs = .ok m) :
    foldM' (applyLam2 (denLam w lamMin) env) (.int k) vs = .ok (.int m) := by
  induction vs generalizing k with
  | nil => simp [minInts] at h; subst h; simp [foldM']
  | cons v vs ih =>
    cases v <;> simp [minInts] at h
    case int i =>
      simp only [foldM', min_step, bind, Except.bind]
      exact ih _ h

/-- The fold a shortcut is lowered to computes what the shortcut computes. -/
theorem shortcut_fold {n : String} {l : Expr} (hl : shortcutLam n = some l) (vs : List Val) (v : Val)
    (h : seqOp1 n vs = .ok v) :
    foldM' (applyLam2 (denLam w l) env) (.int 0) vs = .ok v := by
  unfold shortcutLam at hl
  unfold seqOp1 at h
  split at hl
  · rename_i hn
    cases hl
    have hf : ¬ n = "First" := by rcases hn with rfl | rfl <;> decide
    have hc : n = "Count" ∨ n = "len" := hn.symm
    simp only [hf, if_false, hc, if_true] at h
    cases h
    simpa using count_fold w env vs 0
  split at hl
  · rename_i hn1 hn
    cases hl; subst hn
    simp at h
    cases hs : sumInts vs with
    | error e => simp [hs, Except.map] at h
    | ok s =>
      simp [hs, Except.map] at h; subst h
      simpa using sum_fold w env vs 0 s hs
  split at hl
  · rename_i hn1 hn2 hn
    cases hl; subst hn
    simp at h
    cases hs : maxInts 0 vs with
    | error e => simp [hs, Except.map] at h
    | ok s =>
      simp [hs, Except.map] at h; subst h
      exact max_fold w env vs 0 s hs
  split at hl
  · rename_i hn1 hn2 hn3 hn
    cases hl; subst hn
    simp at h
    cases hs : minInts 0 vs with
    | error e => simp [hs, Except.map] at h
    | ok s =>
      simp [hs, Except.map] at h; subst h
      exact min_fold w env vs 0 s hs
  · cases hl

end folds

/-! Python-level meaning of the built-ins, as stated in the property. -/

theorem seqOp1_len (vs : List Val) : seqOp1 "len" vs = .ok (.int vs.length) := by simp [seqOp1]
theorem seqOp1_count (vs : List Val) : seqOp1 "Count" vs = .ok (.int vs.length) := by simp [seqOp1]
theorem sumInts_eq (is : List Int) : sumInts (is.map .int) = .ok is.sum := by
  induction is with
  | nil => rfl
  | cons i is ih => simp [sumInts, ih, bind, Except.bind, pure, Except.pure]
theorem maxInts_eq (is : List Int) (k : Int) : maxInts k (is.map .int) = .ok (is.foldl max k) := by
  induction is generalizing k with
  | nil => rfl
  | cons i is ih =>
    simp only [List.map, maxInts, ih, List.foldl]
    congr 2
    simp only [max, Int.instMax, maxOfLe]; split <;> split <;> omega
theorem minInts_eq (is : List Int) (k : Int) : minInts k (is.map .int) = .ok (is.foldl min k) := by
  induction is generalizing k with
  | nil => rfl
  | cons i is ih =>
    simp only [List.map, minInts, ih, List.foldl]
    congr 2
    simp only [min, Int.instMin, minOfLe]; split <;> split <;> omega

/-! ### semantics preserved -/

theorem shortcut_builtin {n : String} {l : Expr} (h : shortcutLam n = some l) : n ∈ builtinOps := by
  unfold shortcutLam at h
  split at h
  · rename_i hn; rcases hn with rfl | rfl <;> decide
  split at h
  · rename_i hn; subst hn; decide
  split at h
  · rename_i hn; subst hn; decide
  split at h
  · rename_i hn; subst hn; decide
  · cases h

theorem aggT_le_both (w : World) :
    (∀ e : Expr, Den.le (den w e) (den w (aggT e)) ∧ Head.le (denHead w e) (denHead w (aggT e)) ∧
        LamD.le (denLam w e) (denLam w (aggT e))) ∧
    (∀ es : List Expr, All2 Den.le (denL w es) (denL w (aggTL es)) ∧
        All2 LamD.le (denLamL w es) (denLamL w (aggTL es))) := by
  apply Expr.size.mutual_induct
    (motive_1 := fun e => Den.le (den w e) (den w (aggT e)) ∧ Head.le (denHead w e) (denHead w (aggT e)) ∧
        LamD.le (denLam w e) (denLam w (aggT e)))
    (motive_2 := fun es => All2 Den.le (denL w es) (denL w (aggTL es)) ∧
        All2 LamD.le (denLamL w es) (denLamL w (aggTL es)))
  case case4 =>
    intro f args kwn kwv ihf iha ihk
    obtain ⟨ihf1, ihf2, ihf3⟩ := ihf
    obtain ⟨iha1, iha2⟩ := iha
    obtain ⟨ihk1, ihk2⟩ := ihk
    have hd : Den.le (den w (.call f args kwn kwv)) (den w (aggT (.call f args kwn kwv))) := by
      simp only [aggT]
      split
      · rename_i n a' heq
        -- args = [a] with a' = aggT a
        cases args with
        | nil => simp [aggTL] at heq
        | cons a rest =>
          cases rest with
          | cons _ _ => simp [aggTL] at heq
          | nil =>
            simp only [aggTL, List.cons.injEq, and_true] at heq
            subst heq
            have ha : Den.le (den w a) (den w (aggT a)) := by
              cases iha1 with | cons h _ => exact h
            split
            · rename_i l hl0
              have hl : shortcutLam n = some l := by
                split at hl0
                · exact hl0
                · cases hl0
              intro env v hv
              have hb := shortcut_builtin hl
              simp only [den, denHead, denL, denLamL, callSem, List.tail_cons, fnCall, hb, if_true] at hv
              rw [bind_ok_iff] at hv
              obtain ⟨x, hx, hv⟩ := hv
              rw [bind_ok_iff] at hv
              obtain ⟨vs, hvs, hv⟩ := hv
              have hfold := shortcut_fold w env hl vs v hv
              have hx' := ha env x hx
              have hagg : "Aggregate" ∈ builtinOps := by decide
              simp only [aggCall, fcall, den, denHead, denL, denLamL, callSem, List.tail_cons, fnCall,
                hagg, if_true, hx', bind, Except.bind, hvs, constVal]
              exact hfold
            · exact callSem_le w kwn (Head.le_refl _) (.cons ha .nil) (by simpa [aggTL] using iha2) ihk1
      · simp only [den]
        exact callSem_le w kwn ihf2 iha1 iha2 ihk1
    refine ⟨hd, ?_, ?_⟩
    · simp only [aggT]
      split
      · split <;> simp [aggCall, fcall, denHead, Head.le]
      · simp [denHead, Head.le]
    · simp only [aggT]
      split
      · split <;> simp [aggCall, fcall, denLam, LamD.le]
      · simp [denLam, LamD.le]
  case case1 => intro x; simp [aggT, denHead, denLam, Head.le, LamD.le, Den.le_refl]
  case case2 => intro c; simp [aggT, denHead, denLam, Head.le, LamD.le, Den.le_refl]
  case case3 =>
    intro v a ih
    refine ⟨?_, ?_, ?_⟩
    · intro env; simp only [aggT, den]; exact ELe.bind (ih.1 env) (fun _ => ELe.refl _)
    · simp only [aggT, denHead, Head.le]; exact ⟨ih.1, trivial⟩
    · simp [aggT, denLam, LamD.le]
  case case5 =>
    intro ps b ih
    refine ⟨?_, ?_, ?_⟩
    · simp [aggT, den, Den.le_refl]
    · simp only [aggT, denHead, Head.le]; exact ⟨trivial, ih.1⟩
    · simp only [aggT, denLam, LamD.le]; exact ⟨trivial, ih.1⟩
  case case6 =>
    intro v s ihv ihs
    refine ⟨?_, by simp [aggT, denHead, Head.le], by simp [aggT, denLam, LamD.le]⟩
    intro env; simp only [aggT, den]
    exact ELe.bind (ihv.1 env) (fun _ => ELe.bind (ihs.1 env) (fun _ => ELe.refl _))
  case case7 =>
    intro es ih
    refine ⟨?_, by simp [aggT, denHead, Head.le], by simp [aggT, denLam, LamD.le]⟩
    intro env; simp only [aggT, den]
    exact ELe.bind (evalAll_le ih.1 env) (fun _ => ELe.refl _)
  case case8 =>
    intro es ih
    refine ⟨?_, by simp [aggT, denHead, Head.le], by simp [aggT, denLam, LamD.le]⟩
    intro env; simp only [aggT, den]
    exact ELe.bind (evalAll_le ih.1 env) (fun _ => ELe.refl _)
  case case9 =>
    intro ks vs ihk ihv
    refine ⟨?_, by simp [aggT, denHead, Head.le], by simp [aggT, denLam, LamD.le]⟩
    intro env; simp only [aggT, den]
    exact ELe.bind (evalAll_le ihk.1 env) (fun _ => ELe.bind (evalAll_le ihv.1 env) (fun _ => ELe.refl _))
  case case10 =>
    intro k args ih
    refine ⟨?_, by simp [aggT, denHead, Head.le], by simp [aggT, denLam, LamD.le]⟩
    intro env; simp only [aggT, den]
    exact evOp_le _ (ih.1.apply_env env)
  case case11 =>
    intro kind e t i ifs a ihe _ iht ihifs
    refine ⟨?_, by simp [aggT, denHead, Head.le], by simp [aggT, denLam, LamD.le]⟩
    simp only [aggT, den]
    have ht : targetName (aggT t) = targetName t := by
      cases t <;> try rfl
      case call f args kwn kwv =>
        simp only [aggT]
        split
        · split <;> rfl
        · rfl
    rw [ht]
    exact compSem_le _ a ihe.1 iht.1 ihifs.1
  case case12 => exact ⟨.nil, .nil⟩
  case case13 =>
    intro e es ihe ihes
    exact ⟨.cons ihe.1 ihes.1, .cons ihe.2.2 ihes.2⟩

/-- **C19**: whenever the original expression evaluates without error, the lowered expression
    evaluates to the same value (every world, every environment, hence every sequence including the
    empty one). -/
theorem aggT_sem (w : World) (env : Env) (e : Expr) (v : Val) (h : ev w env e = .ok v) :
    ev w env (aggT e) = .ok v :=
  (aggT_le_both w).1 e |>.1 env v h

/-- Non-vacuity: `Sum` over a concrete sequence evaluates, and so does the fold, to Python's sum. -/
example (w : World) :
    ev w (Env.empty.upd "s" (.list [.int 3, .int 4])) (fcall "Sum" [.name "s"]) = .ok (.int 7) := by
  simp [ev, fcall, den, denHead, denL, denLamL, callSem, fnCall, builtinOps, Env.upd, asSeq, seqOp1, sumInts,
    bind, Except.bind, Except.map, pure, Except.pure]
example (w : World) :
    ev w (Env.empty.upd "s" (.list [])) (aggT (fcall "Max" [.name "s"])) = .ok (.int 0) :=
  aggT_sem w _ _ _ (by
    simp [ev, fcall, den, denHead, denL, denLamL, callSem, fnCall, builtinOps, Env.upd, asSeq, seqOp1, maxInts,
      bind, Except.bind, Except.map])

end Fadl
