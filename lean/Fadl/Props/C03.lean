/-
  C03 — source recovery returns the lambda that was actually passed.
  Theorems about the selection logic (the tokenizer and the parser are CPython: partial by nature).
-/
import Fadl.Model.Recover
import Fadl.Lemmas.Basic
namespace Fadl

theorem mem_zipIdx_get {α : Type} (l : List α) (a : α) (i : Nat) (h : (a, i) ∈ l.zipIdx) : l[i]? = some a := by
  have := List.mem_zipIdx h
  simp at this
  obtain ⟨h1, h2⟩ := this
  rw [List.getElem?_eq_getElem h1, h2]

/-- **the recorded lambda is one of the candidates, was found under the caller's name, and has the
    callable's parameter names** -/
theorem pick_is_candidate (caller : Option String) (argNames : List String) (cands : List Cand) (i : Nat)
    (h : pickLambda caller argNames cands = .ok i) :
    ∃ c, cands[i]? = some c ∧ c.params = argNames ∧ (∀ n, caller = some n → c.key = some n) := by
  unfold pickLambda at h
  simp only [] at h
  split at h
  · cases h
  · split at h
    · cases h
    · rename_i p hgood
      simp only [Except.ok.injEq] at h
      have hmem : p ∈ List.filter (fun p => p.2.params == argNames)
          (toSearch caller (cands.zipIdx.map (fun p => (p.2, p.1)))) := by rw [hgood]; exact List.mem_singleton.mpr rfl
      rw [List.mem_filter] at hmem
      obtain ⟨hs, hp⟩ := hmem
      have hp' : p.2.params = argNames := by simpa using hp
      have hidx : p ∈ cands.zipIdx.map (fun p => (p.2, p.1)) := by
        unfold toSearch at hs
        cases caller with
        | none => exact hs
        | some n => exact (List.mem_filter.mp hs).1
      rw [List.mem_map] at hidx
      obtain ⟨q, hq, hqp⟩ := hidx
      have hget := mem_zipIdx_get cands q.1 q.2 (by simpa using hq)
      refine ⟨p.2, ?_, hp', ?_⟩
      · rw [← h, ← hqp]; simpa using hget
      · intro n hn
        subst hn
        unfold toSearch at hs
        have := (List.mem_filter.mp hs).2
        simpa using this
    · cases h

/-- **ambiguity is refused, never resolved silently**: two different candidates under the caller's
    name with the callable's parameter names ⇒ ValueError -/
theorem pick_ambiguous_raises (caller : String) (argNames : List String) (cands : List Cand) (i j : Nat) (ci cj : Cand)
    (hij : i ≠ j) (hi : cands[i]? = some ci) (hj : cands[j]? = some cj)
    (hki : ci.key = some caller) (hkj : cj.key = some caller) (hpi : ci.params = argNames) (hpj : cj.params = argNames) :
    ∃ t, pickLambda (some caller) argNames cands = .error (.valueError t) := by
  unfold pickLambda
  simp only []
  -- both (i, ci) and (j, cj) survive both filters
  have mem : ∀ (k : Nat) (ck : Cand), cands[k]? = some ck → ck.key = some caller → ck.params = argNames →
      (k, ck) ∈ List.filter (fun p => p.2.params == argNames)
        (toSearch (some caller) (cands.zipIdx.map (fun p => (p.2, p.1)))) := by
    intro k ck hk hkey hpar
    rw [List.mem_filter]
    refine ⟨?_, by simpa using hpar⟩
    unfold toSearch
    rw [List.mem_filter]
    refine ⟨?_, by simp [hkey]⟩
    rw [List.mem_map]
    refine ⟨(ck, k), ?_, rfl⟩
    rw [List.mem_zipIdx_iff_getElem?]
    simpa using hk
  have m1 := mem i ci hi hki hpi
  have m2 := mem j cj hj hkj hpj
  split
  · rename_i hempty
    have : (i, ci) ∈ toSearch (some caller) (cands.zipIdx.map (fun p => (p.2, p.1))) := (List.mem_filter.mp m1).1
    rw [List.isEmpty_iff.mp hempty] at this
    cases this
  · split
    · rename_i hg; rw [hg] at m1; cases m1
    · rename_i p hg
      rw [hg] at m1 m2
      simp only [List.mem_singleton] at m1 m2
      have : i = j := by
        have := m1.trans m2.symm
        exact (Prod.mk.injEq _ _ _ _ ▸ this).1
      exact absurd this hij
    · exact ⟨_, rfl⟩

/-- no candidate with the callable's parameter names ⇒ ValueError (never "the closest one") -/
theorem pick_none_raises (caller : Option String) (argNames : List String) (cands : List Cand)
    (h : ∀ c ∈ cands, c.params ≠ argNames) : ∃ t, pickLambda caller argNames cands = .error (.valueError t) := by
  unfold pickLambda
  simp only []
  split
  · exact ⟨_, rfl⟩
  · have hgood : List.filter (fun p => p.2.params == argNames)
        (toSearch caller (cands.zipIdx.map (fun p => (p.2, p.1)))) = [] := by
      rw [List.filter_eq_nil_iff]
      intro p hp
      have hidx : p ∈ cands.zipIdx.map (fun p => (p.2, p.1)) := by
        unfold toSearch at hp
        cases caller with
        | none => exact hp
        | some n => exact (List.mem_filter.mp hp).1
      rw [List.mem_map] at hidx
      obtain ⟨q, hq, hqp⟩ := hidx
      have hc : q.1 ∈ cands := by
        have := List.mem_zipIdx hq
        simp at this
        obtain ⟨h1, h2⟩ := this
        rw [h2]; exact List.getElem_mem _
      have := h q.1 hc
      rw [← hqp]; simpa using this
    rw [hgood]
    exact ⟨_, rfl⟩

/-- the documented way of telling several calls on one line apart: by method name … -/
example : pickLambda (some "Where") ["e"] [⟨some "Select", ["e"]⟩, ⟨some "Where", ["e"]⟩] = .ok 1 := by rfl
/-- … or by argument names -/
example : pickLambda (some "Select") ["j"] [⟨some "Select", ["e"]⟩, ⟨some "Select", ["j"]⟩] = .ok 1 := by rfl
/-- same method and same argument names: refused -/
example : ∃ t, pickLambda (some "Select") ["e"] [⟨some "Select", ["e"]⟩, ⟨some "Select", ["e"]⟩] = .error (.valueError t) :=
  ⟨_, rfl⟩

/-- brackets inside the lambda's extent are skipped; comments are dropped -/
example : tokensTill [⟨.name, "lambda"⟩, ⟨.name, "e"⟩, ⟨.op, ":"⟩, ⟨.name, "f"⟩, ⟨.op, "("⟩, ⟨.name, "e"⟩, ⟨.op, ","⟩,
    ⟨.name, "g"⟩, ⟨.op, ")"⟩, ⟨.comment, "# )"⟩, ⟨.op, ")"⟩, ⟨.name, "x"⟩] 0 0 0 =
    [⟨.name, "lambda"⟩, ⟨.name, "e"⟩, ⟨.op, ":"⟩, ⟨.name, "f"⟩, ⟨.op, "("⟩, ⟨.name, "e"⟩, ⟨.op, ","⟩, ⟨.name, "g"⟩, ⟨.op, ")"⟩] := by
  decide

end Fadl
