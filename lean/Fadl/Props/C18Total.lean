/-
  C18 — the simplifier is total on well-formed queries: the only failures of the visitor model are the dedicated index
  error (a constant index past the end of a literal) and the model's own fuel; no internal error (IndexError /
  AssertionError / Exception of the Python) is possible, and the output is again a well-formed query.
-/
import Fadl.Model.WfQuery
import Fadl.Lemmas.DictLookup
import Fadl.Props.C18
import Fadl.Lemmas.SimpSem
import Fadl.Props.C02
import Fadl.Props.C02Main
namespace Fadl
set_option linter.unusedSimpArgs false
set_option linter.unusedVariables false

def wfStack (st : SStack) : Prop := ∀ x v, stackLookup x st = some v → wfq v = true

/-- a result of the visitor that is acceptable: a well-formed query, or one of the two permitted failures -/
def Good (r : Except Err (Expr × Nat)) : Prop :=
  match r with
  | .ok (e', _) => wfq e' = true
  | .error err => err = .fuel ∨ err = .indexError

def GoodL (r : Except Err (List Expr × Nat)) : Prop :=
  match r with
  | .ok (es', _) => wfqL es' = true
  | .error err => err = .fuel ∨ err = .indexError

theorem Good.bind {a : Except Err (Expr × Nat)} {f : Expr × Nat → Except Err (Expr × Nat)}
    (ha : Good a) (hf : ∀ x c, wfq x = true → Good (f (x, c))) : Good (a >>= f) := by
  cases a with
  | error e => exact ha
  | ok r => obtain ⟨x, c⟩ := r; exact hf x c ha

theorem Good.bindL {a : Except Err (List Expr × Nat)} {f : List Expr × Nat → Except Err (Expr × Nat)}
    (ha : GoodL a) (hf : ∀ x c, wfqL x = true → Good (f (x, c))) : Good (a >>= f) := by
  cases a with
  | error e => exact ha
  | ok r => obtain ⟨x, c⟩ := r; exact hf x c ha

theorem GoodL.bind {a : Except Err (Expr × Nat)} {f : Expr × Nat → Except Err (List Expr × Nat)}
    (ha : Good a) (hf : ∀ x c, wfq x = true → GoodL (f (x, c))) : GoodL (a >>= f) := by
  cases a with
  | error e => exact ha
  | ok r => obtain ⟨x, c⟩ := r; exact hf x c ha

theorem GoodL.bindL {a : Except Err (List Expr × Nat)} {f : List Expr × Nat → Except Err (List Expr × Nat)}
    (ha : GoodL a) (hf : ∀ x c, wfqL x = true → GoodL (f (x, c))) : GoodL (a >>= f) := by
  cases a with
  | error e => exact ha
  | ok r => obtain ⟨x, c⟩ := r; exact hf x c ha

/-! ### generated names are not operator names -/

theorem argName_not_op (k : Nat) : isSimpOp (argName k) = false := by
  have h : ∀ s : String, (argName k = s) → s.toList.head? = some 'a' := by
    intro s hs
    subst hs
    simp [argName, String.toList_append]
  unfold isSimpOp
  simp only [Bool.or_eq_false_iff, decide_eq_false_iff_not]
  refine ⟨⟨⟨?_, ?_⟩, ?_⟩, ?_⟩ <;> intro hc <;> have := h _ hc <;> simp at this

theorem opShape_of_not_op {n : String} (h : isSimpOp n = false) (args : List Expr) : opShape n args = true := by
  unfold isSimpOp at h
  simp only [Bool.or_eq_false_iff, decide_eq_false_iff_not] at h
  obtain ⟨⟨⟨h1, h2⟩, h3⟩, h4⟩ := h
  simp [opShape, h1, h2, h3, h4]

/-! ### renaming keeps queries well formed -/

def RenOK (m : List (String × String)) : Prop := ∀ x y, renGet x m = some y → isSimpOp y = false ∨ y = x

theorem renOK_lam {m : List (String × String)} (h : RenOK m) (ps : List String) :
    RenOK (ps.reverse.map (fun p => (p, p)) ++ m) := by
  intro x y hxy
  generalize ps.reverse = l at hxy
  induction l with
  | nil => exact h x y hxy
  | cons p rest ih =>
    simp only [List.map_cons, List.cons_append, renGet] at hxy
    split at hxy
    · rename_i hp; right; cases hxy; exact hp
    · exact ih hxy

theorem opShape_rename (n : String) (m : List (String × String)) (args : List Expr) :
    opShape n (renameNamesL m args) = opShape n args := by
  unfold opShape
  rcases args with _ | ⟨a, _ | ⟨b, _ | ⟨c, rest⟩⟩⟩
  · simp [renameNamesL]
  · simp [renameNamesL]
  · cases b with
    | lam ps body =>
      rcases ps with _ | ⟨p, _ | ⟨q, r⟩⟩ <;> simp [renameNamesL, renameNames]
    | name x =>
      simp only [renameNamesL, renameNames]
      cases renGet x m <;> simp
    | _ => simp [renameNamesL, renameNames]
  · simp [renameNamesL]

theorem wfq_call_nonname {f : Expr} (hne : ∀ x, f ≠ .name x) (args : List Expr) (kwn : List String) (kwv : List Expr) :
    wfq (.call f args kwn kwv) = (wfqL args && wfqL kwv && wfq f) := by
  cases f <;> first | exact absurd rfl (hne _) | simp only [wfq]

theorem wfq_call_name (x : String) (args : List Expr) (kwn : List String) (kwv : List Expr) :
    wfq (.call (.name x) args kwn kwv) = (wfqL args && wfqL kwv && opShape x args) := by
  simp only [wfq]

theorem renameNames_nonname {f : Expr} (hne : ∀ x, f ≠ .name x) (m : List (String × String)) :
    ∀ x, renameNames m f ≠ .name x := by
  cases f <;> first | exact absurd rfl (hne _) | (intro x h; simp [renameNames] at h)

theorem wfq_rename : ∀ (n : Nat),
    (∀ e : Expr, sizeOf e ≤ n → ∀ m, RenOK m → wfq e = true → wfq (renameNames m e) = true) ∧
    (∀ es : List Expr, sizeOf es ≤ n → ∀ m, RenOK m → wfqL es = true → wfqL (renameNamesL m es) = true) := by
  intro n
  induction n with
  | zero =>
    constructor
    · intro e he; cases e <;> simp at he <;> omega
    · intro es he; cases es <;> simp at he <;> omega
  | succ n ih =>
    obtain ⟨ihE, ihL⟩ := ih
    constructor
    · intro e he m hm hw
      cases e with
      | name x =>
        simp only [renameNames]
        cases hx : renGet x m with
        | none => exact hw
        | some y =>
          simp only [wfq]
          rcases hm x y hx with h | h
          · simp [h]
          · subst h; exact hw
      | const k => simp [renameNames, wfq]
      | attr v a => simp only [renameNames, wfq] at hw ⊢; exact ihE v (by simp at he; omega) m hm hw
      | lam ps b => simp only [renameNames, wfq] at hw ⊢; exact ihE b (by simp at he; omega) _ (renOK_lam hm ps) hw
      | sub v s =>
        simp only [renameNames, wfq, Bool.and_eq_true] at hw ⊢
        exact ⟨ihE v (by simp at he; omega) m hm hw.1, ihE s (by simp at he; omega) m hm hw.2⟩
      | tuple es => simp only [renameNames, wfq] at hw ⊢; exact ihL es (by simp at he; omega) m hm hw
      | list es => simp only [renameNames, wfq] at hw ⊢; exact ihL es (by simp at he; omega) m hm hw
      | dict ks vs =>
        simp only [renameNames, wfq, Bool.and_eq_true] at hw ⊢
        exact ⟨ihL ks (by simp at he; omega) m hm hw.1, ihL vs (by simp at he; omega) m hm hw.2⟩
      | op k es => simp only [renameNames, wfq] at hw ⊢; exact ihL es (by simp at he; omega) m hm hw
      | comp kind el t i ifs a =>
        simp only [renameNames, wfq, Bool.and_eq_true] at hw ⊢
        exact ⟨⟨⟨ihE el (by simp at he; omega) m hm hw.1.1.1, ihE t (by simp at he; omega) m hm hw.1.1.2⟩,
          ihE i (by simp at he; omega) m hm hw.1.2⟩, ihL ifs (by simp at he; omega) m hm hw.2⟩
      | call f args kwn kwv =>
        have hsz : sizeOf f ≤ n ∧ sizeOf args ≤ n ∧ sizeOf kwv ≤ n := by simp at he; omega
        have hnn : (∀ x, f ≠ .name x) → wfq (.call f args kwn kwv) = true →
            wfq (renameNames m (.call f args kwn kwv)) = true := by
          intro hne hw
          have e1 : renameNames m (.call f args kwn kwv) = .call (renameNames m f) (renameNamesL m args) kwn (renameNamesL m kwv) := by
            simp only [renameNames]
          rw [e1, wfq_call_nonname (renameNames_nonname hne m)]
          rw [wfq_call_nonname hne] at hw
          simp only [Bool.and_eq_true] at hw ⊢
          exact ⟨⟨ihL args hsz.2.1 m hm hw.1.1, ihL kwv hsz.2.2 m hm hw.1.2⟩, ihE _ hsz.1 m hm hw.2⟩
        cases f with
        | name x =>
          rw [wfq_call_name] at hw
          simp only [Bool.and_eq_true] at hw
          obtain ⟨⟨ha, hk⟩, hf⟩ := hw
          simp only [renameNames]
          cases hx : renGet x m with
          | none =>
            simp only [wfq_call_name, Bool.and_eq_true]
            refine ⟨⟨ihL args hsz.2.1 m hm ha, ihL kwv hsz.2.2 m hm hk⟩, ?_⟩
            rw [opShape_rename]; exact hf
          | some y =>
            simp only [wfq_call_name, Bool.and_eq_true]
            refine ⟨⟨ihL args hsz.2.1 m hm ha, ihL kwv hsz.2.2 m hm hk⟩, ?_⟩
            rcases hm x y hx with h | h
            · exact opShape_of_not_op h _
            · subst h; rw [opShape_rename]; exact hf
        | const k => exact hnn (by intro x h; cases h) hw
        | attr v a => exact hnn (by intro x h; cases h) hw
        | lam ps b => exact hnn (by intro x h; cases h) hw
        | sub v s => exact hnn (by intro x h; cases h) hw
        | tuple es => exact hnn (by intro x h; cases h) hw
        | list es => exact hnn (by intro x h; cases h) hw
        | dict ks vs => exact hnn (by intro x h; cases h) hw
        | op k es => exact hnn (by intro x h; cases h) hw
        | comp kind el t i ifs a => exact hnn (by intro x h; cases h) hw
        | call f2 a2 k2 v2 => exact hnn (by intro x h; cases h) hw
    · intro es he m hm hw
      cases es with
      | nil => simp [renameNamesL, wfqL]
      | cons e rest =>
        simp only [renameNamesL, wfqL, Bool.and_eq_true] at hw ⊢
        exact ⟨ihE e (by simp at he; omega) m hm hw.1, ihL rest (by simp at he; omega) m hm hw.2⟩

theorem wfq_rename' {e : Expr} {m : List (String × String)} (hm : RenOK m) (h : wfq e = true) :
    wfq (renameNames m e) = true := (wfq_rename (sizeOf e)).1 e (Nat.le_refl _) m hm h

theorem renGet_some_mem (x y : String) : ∀ (l : List (String × String)), renGet x l = some y → (x, y) ∈ l
  | [], h => by simp [renGet] at h
  | (k, v) :: rest, h => by
    simp only [renGet] at h
    split at h
    · rename_i hk; cases h; subst hk; exact List.mem_cons_self
    · exact List.mem_cons_of_mem _ (renGet_some_mem x y rest h)

theorem renOK_fresh (ps : List String) (c : Nat) : RenOK ((ps.zip (freshNames c ps.length)).reverse) := by
  intro x y h
  left
  have hm := renGet_some_mem x y _ h
  rw [List.mem_reverse] at hm
  have hy : y ∈ freshNames c ps.length := (List.of_mem_zip hm).2
  obtain ⟨k, _, _, rfl⟩ := freshNames_mem c ps.length y hy
  exact argName_not_op k

theorem wfq_makeArgsUnique (ps : List String) (b : Expr) (c : Nat) (h : wfq b = true) :
    wfq (makeArgsUnique ps b c).2.1 = true := by
  simp only [makeArgsUnique]
  exact wfq_rename' (renOK_fresh ps c) h

theorem makeArgsUnique_length (ps : List String) (b : Expr) (c : Nat) :
    (makeArgsUnique ps b c).1.length = ps.length := by
  simp [makeArgsUnique, freshNames_length]

theorem wfq_fcall (n : String) (args : List Expr) : wfq (fcall n args) = (wfqL args && opShape n args) := by
  simp [fcall, wfq_call_name, wfqL]

theorem wfq_makeSelect {src sel : Expr} (hs : wfq src = true) (p : String) (b : Expr) (hsel : sel = .lam [p] b)
    (hb : wfq b = true) : wfq (makeSelect src sel) = true := by
  subst hsel
  unfold makeSelect
  split
  · exact hs
  · simp [wfq_fcall, wfqL, wfq, hs, hb, opShape]

theorem wfqL_mem {es : List Expr} (h : wfqL es = true) {e : Expr} (he : e ∈ es) : wfq e = true := by
  induction es with
  | nil => cases he
  | cons a rest ih =>
    simp only [wfqL, Bool.and_eq_true] at h
    rcases List.mem_cons.mp he with rfl | h'
    · exact h.1
    · exact ih h.2 h'

theorem wfq_getElem {es : List Expr} (h : wfqL es = true) {n : Nat} {el : Expr} (he : es[n]? = some el) : wfq el = true :=
  wfqL_mem h (List.mem_of_getElem? he)

theorem wfq_dictLookup {ks vs : List Expr} {k : Const} {r : Expr} (hv : wfqL vs = true)
    (h : dictLookup ks vs k = some r) : wfq r = true := wfqL_mem hv (dictLookup_mem h)

theorem wfStack_nil : wfStack [[]] := by
  intro x v h
  simp [stackLookup, frameLookup] at h

theorem wfStack_cons {st : SStack} (h : wfStack st) (f : SFrame) (hf : ∀ p ∈ f, wfq p.2 = true) : wfStack (f :: st) := by
  intro x v hl
  simp only [stackLookup] at hl
  split at hl
  · rename_i r hr
    cases hl
    exact hf _ (frameLookup_some_mem x _ f hr)
  · exact h x v hl

/-! ### shapes -/

theorem opShape_first {args : List Expr} (h : opShape "First" args = true) : ∃ a, args = [a] := by
  unfold opShape at h
  simp only [if_true] at h
  rcases args with _ | ⟨a, _ | ⟨b, r⟩⟩ <;> simp at h
  exact ⟨a, rfl⟩

theorem opShape_op3 {n : String} (hn : n = "Select" ∨ n = "SelectMany" ∨ n = "Where") {args : List Expr}
    (h : opShape n args = true) : ∃ a p b, args = [a, .lam [p] b] := by
  unfold opShape at h
  have h1 : n ≠ "First" := by rcases hn with rfl | rfl | rfl <;> decide
  have h2 : (n = "Select" || n = "SelectMany" || n = "Where") = true := by rcases hn with rfl | rfl | rfl <;> decide
  simp only [h1, if_false, h2, if_true] at h
  rcases args with _ | ⟨a, _ | ⟨b, _ | ⟨c, r⟩⟩⟩
  · simp at h
  · simp at h
  · cases b <;> try (simp at h)
    rename_i ps body
    rcases ps with _ | ⟨p, _ | ⟨q, r⟩⟩ <;> try (simp at h)
    exact ⟨a, p, body, rfl⟩
  · simp at h

theorem wfq_firstArg {v first : Expr} (h : firstArg? v = some (some first)) (hw : wfq v = true) : wfq first = true := by
  obtain ⟨rest, k1, k2, rfl⟩ := firstArg?_some h
  rw [wfq_call_name] at hw
  simp only [Bool.and_eq_true] at hw
  obtain ⟨a, ha⟩ := opShape_first hw.2
  cases ha
  have := hw.1.1
  simp only [wfqL, Bool.and_eq_true] at this
  exact this.1

theorem firstArg_none_not_wfq {v : Expr} (h : firstArg? v = some Option.none) : wfq v = false := by
  cases v with
  | call f args k1 k2 =>
    cases f with
    | name n =>
      simp only [firstArg?] at h
      split at h
      · rename_i hn; subst hn
        cases args with
        | nil => simp [wfq_call_name, opShape]
        | cons a r => simp at h
      · cases h
    | _ => simp [firstArg?] at h
  | _ => simp [firstArg?] at h

theorem wfq_call_of_value {f' : Expr} (hf : wfq f' = true) {as' ks' : List Expr} (kwn : List String)
    (ha : wfqL as' = true) (hk : wfqL ks' = true) : wfq (.call f' as' kwn ks') = true := by
  by_cases hn : ∃ y, f' = .name y
  · obtain ⟨y, rfl⟩ := hn
    rw [wfq_call_name]
    simp only [wfq, Bool.not_eq_true'] at hf
    simp [ha, hk, opShape_of_not_op hf]
  · rw [wfq_call_nonname (fun x h => hn ⟨x, h⟩)]
    simp [ha, hk, hf]

theorem simp_lam_shape (fuel : Nat) (st : SStack) (c : Nat) (ps : List String) (b e' : Expr) (c' : Nat)
    (h : simp fuel st c (.lam ps b) = .ok (e', c')) : ∃ b'', e' = .lam (makeArgsUnique ps b c).1 b'' := by
  cases fuel with
  | zero => simp [simp] at h
  | succ fuel =>
    simp only [simp] at h
    cases hb : simp fuel st (makeArgsUnique ps b c).2.2 (makeArgsUnique ps b c).2.1 with
    | error e => simp [hb, bind, Except.bind] at h
    | ok r =>
      simp only [hb, bind, Except.bind, pure, Except.pure, Except.ok.injEq, Prod.mk.injEq] at h
      exact ⟨_, h.1.symm⟩

theorem good_lam_bind {fuel : Nat} {st : SStack} {c : Nat} {p : String} {b : Expr}
    (hg : Good (simp fuel st c (.lam [p] b))) (k : Expr × Nat → Except Err (Expr × Nat))
    (hk : ∀ p' b' c', wfq b' = true → Good (k (.lam [p'] b', c'))) : Good (simp fuel st c (.lam [p] b) >>= k) := by
  cases hr : simp fuel st c (.lam [p] b) with
  | error e => rw [hr] at hg; exact hg
  | ok r =>
    obtain ⟨e', c'⟩ := r
    obtain ⟨b'', rfl⟩ := simp_lam_shape fuel st c [p] b e' c' hr
    rw [hr] at hg
    have hw : wfq b'' = true := by simpa [Good, wfq] using hg
    have hl : (makeArgsUnique [p] b c).1.length = 1 := makeArgsUnique_length [p] b c
    obtain ⟨p', hp'⟩ : ∃ p', (makeArgsUnique [p] b c).1 = [p'] := by
      rcases h : (makeArgsUnique [p] b c).1 with _ | ⟨a, _ | ⟨b, r⟩⟩
      · rw [h] at hl; simp at hl
      · exact ⟨a, rfl⟩
      · rw [h] at hl; simp at hl
    rw [hp']
    exact hk p' b'' c' hw

theorem simpL_length : ∀ (fuel : Nat) (st : SStack) (c : Nat) (es es' : List Expr) (c' : Nat),
    simpL fuel st c es = .ok (es', c') → es'.length = es.length := by
  intro fuel
  induction fuel with
  | zero => intro st c es es' c' h; simp [simpL] at h
  | succ fuel ih =>
    intro st c es es' c' h
    cases es with
    | nil => simp only [simpL, Except.ok.injEq, Prod.mk.injEq] at h; rw [← h.1]
    | cons e rest =>
      simp only [simpL] at h
      cases he : simp fuel st c e with
      | error x => simp [he, bind, Except.bind] at h
      | ok r =>
        simp only [he, bind, Except.bind] at h
        cases hr : simpL fuel st r.2 rest with
        | error x => simp [hr] at h
        | ok r2 =>
          simp only [hr, pure, Except.pure, Except.ok.injEq, Prod.mk.injEq] at h
          rw [← h.1]
          simp [ih _ _ _ _ _ (show simpL fuel st r.2 rest = .ok (r2.1, r2.2) from hr)]

theorem wfq_convolute {p q : String} {b fb : Expr} (hb : wfq b = true) (hfb : wfq fb = true) (c : Nat) :
    ∃ x body c', convolute (.lam [p] b) (.lam [q] fb) c = .ok (.lam [x] body, c') ∧ wfq body = true := by
  refine ⟨_, _, _, rfl, ?_⟩
  have h1 := wfq_makeArgsUnique [p] b c hb
  have h2 := wfq_makeArgsUnique [q] fb (makeArgsUnique [p] b c).2.2 hfb
  have hx := argName_not_op (makeArgsUnique [q] fb (makeArgsUnique [p] b c).2.2).2.2
  simp [makeArgsUnique] at h1 h2 hx
  simp [wfq_call_nonname, wfqL, wfq, h1, h2, hx]

theorem good_ok {e : Expr} {c : Nat} (h : wfq e = true) : Good (.ok (e, c)) := h
theorem good_pure {e : Expr} {c : Nat} (h : wfq e = true) : Good (pure (e, c)) := h
theorem good_fuel : Good (.error .fuel) := Or.inl rfl
theorem good_index : Good (.error .indexError) := Or.inr rfl

theorem wfq_first_push {first body : Expr} (x : String) (hf : wfq first = true) (hb : wfq body = true) :
    wfq (fcall "First" [makeSelect first (.lam [x] body)]) = true := by
  rw [wfq_fcall]
  simp [wfqL, opShape, wfq_makeSelect hf x body rfl hb]

theorem simp_total : ∀ fuel : Nat,
    (∀ st c e, wfStack st → wfq e = true → Good (simp fuel st c e)) ∧
    (∀ st c es, wfStack st → wfqL es = true → GoodL (simpL fuel st c es)) ∧
    (∀ st c args kwn kwv, wfStack st → wfqL args = true → opShape "Select" args = true →
      Good (callSelect fuel st c args kwn kwv)) ∧
    (∀ st c args kwn kwv, wfStack st → wfqL args = true → opShape "SelectMany" args = true →
      Good (callSelectMany fuel st c args kwn kwv)) ∧
    (∀ st c args kwn kwv, wfStack st → wfqL args = true → opShape "Where" args = true →
      Good (callWhere fuel st c args kwn kwv)) := by
  intro fuel
  induction fuel with
  | zero =>
    refine ⟨?_, ?_, ?_, ?_, ?_⟩ <;> intros <;> simp only [simp, simpL, callSelect, callSelectMany, callWhere] <;> exact Or.inl rfl
  | succ fuel ih =>
    obtain ⟨ihS, ihL, ihSel, ihMany, ihWhere⟩ := ih
    refine ⟨?_, ?_, ?_, ?_, ?_⟩
    · intro st c e hst hw
      -- pushing an attribute / subscript / method call under a First
      have hpush : ∀ (v' : Expr) (c1 : Nat) (body : String → Expr) (dflt : Except Err (Expr × Nat)),
          wfq v' = true → (∀ x, isSimpOp x = false → wfq (body x) = true) → Good dflt →
          Good (match firstArg? v' with
            | some (some first) => simp fuel st (c1 + 1) (fcall "First" [makeSelect first (.lam [argName c1] (body (argName c1)))])
            | some Option.none => .error (.internal "IndexError")
            | Option.none => dflt) := by
        intro v' c1 body dflt hv hb hd
        cases hfa : firstArg? v' with
        | some o =>
          cases o with
          | some first =>
            exact ihS _ _ _ hst (wfq_first_push _ (wfq_firstArg hfa hv) (hb _ (argName_not_op c1)))
          | none => rw [firstArg_none_not_wfq hfa] at hv; cases hv
        | none => exact hd
      cases e with
      | name x =>
        simp only [simp]
        cases hl : stackLookup x st with
        | some v => exact hst x v hl
        | none => exact hw
      | const k => simp only [simp]; exact hw
      | lam ps b =>
        simp only [simp]
        simp only [wfq] at hw
        exact Good.bind (ihS _ _ _ hst (wfq_makeArgsUnique ps b c hw)) (fun x c2 hx => by
          show wfq (.lam _ x) = true
          simpa [wfq] using hx)
      | attr v a =>
        simp only [wfq] at hw
        simp only [simp]
        cases hfa : firstArg? v with
        | some o =>
          cases o with
          | some first =>
            exact ihS _ _ _ hst (wfq_first_push _ (wfq_firstArg hfa hw) (by simp [wfq, argName_not_op]))
          | none => rw [firstArg_none_not_wfq hfa] at hw; cases hw
        | none =>
          refine Good.bind (ihS _ _ _ hst hw) (fun v' c1 hv' => ?_)
          simp only []
          have hrest := hpush v' c1 (fun x => .attr (.name x) a) (pure (.attr v' a, c1)) hv'
            (fun x hx => by simp [wfq, hx]) (by show wfq (.attr v' a) = true; simpa [wfq] using hv')
          cases v' with
          | dict ks vs =>
            simp only []
            cases hd : dictLookup ks vs (.str a) with
            | some r =>
              simp only [wfq, Bool.and_eq_true] at hv'
              exact wfq_dictLookup hv'.2 hd
            | none => show wfq (.attr (.dict ks vs) a) = true; simpa [wfq] using hv'
          | _ => exact hrest
      | sub v s =>
        simp only [wfq, Bool.and_eq_true] at hw
        simp only [simp]
        refine Good.bind (ihS _ _ _ hst hw.1) (fun v' c1 hv' => ?_)
        simp only []
        refine Good.bind (ihS _ _ _ hst hw.2) (fun s' c2 hs' => ?_)
        simp only []
        have hsub : wfq (.sub v' s') = true := by simp [wfq, hv', hs']
        have hgen := hpush v' c2 (fun x => .sub (.name x) s') (.ok (.sub v' s', c2)) hv'
          (fun x hx => by simp [wfq, hx, hs']) hsub
        split
        · split
          · rename_i n es
            simp only [wfq] at hv'
            split
            · split
              · rename_i el hel; exact wfq_getElem hv' hel
              · exact good_index
            · exact hgen
          · rename_i n es
            simp only [wfq] at hv'
            split
            · split
              · rename_i el hel; exact wfq_getElem hv' hel
              · exact good_index
            · exact hgen
          · rename_i n ks vs
            simp only [wfq, Bool.and_eq_true] at hv'
            split
            · rename_i r hr; exact wfq_dictLookup hv'.2 hr
            · exact hsub
          · exact hgen
        · split
          · rename_i k ks vs
            simp only [wfq, Bool.and_eq_true] at hv'
            split
            · rename_i r hr; exact wfq_dictLookup hv'.2 hr
            · exact hsub
          · exact hgen
        · exact hgen
      | tuple es =>
        simp only [wfq] at hw
        simp only [simp]
        exact Good.bindL (ihL _ _ _ hst hw) (fun x c1 hx => by show wfq (.tuple x) = true; simpa [wfq] using hx)
      | list es =>
        simp only [wfq] at hw
        simp only [simp]
        exact Good.bindL (ihL _ _ _ hst hw) (fun x c1 hx => by show wfq (.list x) = true; simpa [wfq] using hx)
      | dict ks vs =>
        simp only [wfq, Bool.and_eq_true] at hw
        simp only [simp]
        refine Good.bindL (ihL _ _ _ hst hw.1) (fun x c1 hx => ?_)
        simp only []
        exact Good.bindL (ihL _ _ _ hst hw.2) (fun y c2 hy => by show wfq (.dict x y) = true; simp [wfq, hx, hy])
      | op k es =>
        simp only [wfq] at hw
        simp only [simp]
        exact Good.bindL (ihL _ _ _ hst hw) (fun x c1 hx => by show wfq (.op k x) = true; simpa [wfq] using hx)
      | comp kind el t i ifs a =>
        simp only [wfq, Bool.and_eq_true] at hw
        simp only [simp]
        refine Good.bind (ihS _ _ _ hst hw.1.1.1) (fun x1 c1 h1 => ?_)
        simp only []
        refine Good.bind (ihS _ _ _ hst hw.1.1.2) (fun x2 c2 h2 => ?_)
        simp only []
        refine Good.bind (ihS _ _ _ hst hw.1.2) (fun x3 c3 h3 => ?_)
        simp only []
        exact Good.bindL (ihL _ _ _ hst hw.2) (fun x4 c4 h4 => by
          show wfq (.comp kind x1 x2 x3 x4 a) = true; simp [wfq, h1, h2, h3, h4])
      | call f args kwn kwv =>
        have hw' : wfqL args = true ∧ wfqL kwv = true := by
          by_cases hn : ∃ y, f = .name y
          · obtain ⟨y, rfl⟩ := hn
            rw [wfq_call_name] at hw; simp only [Bool.and_eq_true] at hw; exact hw.1
          · rw [wfq_call_nonname (fun x h => hn ⟨x, h⟩)] at hw; simp only [Bool.and_eq_true] at hw; exact hw.1
        -- the generic continuation
        have hgen : ∀ (head : Except Err (Expr × Nat)),
            (∀ err, head = .error err → err = .fuel ∨ err = .indexError) →
            (∀ f' c1, head = .ok (f', c1) → ∀ as' ks', wfqL as' = true → wfqL ks' = true → as'.length = args.length →
              wfq (.call f' as' kwn ks') = true) →
            Good (do
              let __x ← head
              let __x_1 ← simpL fuel st __x.snd args
              let __x_2 ← simpL fuel st __x_1.snd kwv
              pure (Expr.call __x.fst __x_1.fst kwn __x_2.fst, __x_2.snd)) := by
          intro head herr hok
          cases hh : head with
          | error e => exact herr e hh
          | ok r =>
            obtain ⟨f', c1⟩ := r
            show Good (simpL fuel st c1 args >>= _)
            cases ha : simpL fuel st c1 args with
            | error e => have := ihL st c1 args hst hw'.1; rw [ha] at this; exact this
            | ok r1 =>
              obtain ⟨as', c2⟩ := r1
              show Good (simpL fuel st c2 kwv >>= _)
              cases hk : simpL fuel st c2 kwv with
              | error e => have := ihL st c2 kwv hst hw'.2; rw [hk] at this; exact this
              | ok r2 =>
                obtain ⟨ks', c3⟩ := r2
                show wfq (.call f' as' kwn ks') = true
                have h1 := ihL st c1 args hst hw'.1; rw [ha] at h1
                have h2 := ihL st c2 kwv hst hw'.2; rw [hk] at h2
                exact hok f' c1 hh as' ks' h1 h2 (simpL_length _ _ _ _ _ _ ha)
        -- a callee that is a value
        have hval : wfq f = true → Good (do
              let __x ← simp fuel st c f
              let __x_1 ← simpL fuel st __x.snd args
              let __x_2 ← simpL fuel st __x_1.snd kwv
              pure (Expr.call __x.fst __x_1.fst kwn __x_2.fst, __x_2.snd)) := by
          intro hf
          have hg := ihS st c f hst hf
          refine hgen _ (fun err he => by rw [he] at hg; exact hg) (fun f' c1 he as' ks' ha hk _ => ?_)
          rw [he] at hg
          exact wfq_call_of_value hg kwn ha hk
        have hnn : (∀ x, f ≠ .name x) → wfq f = true := by
          intro hne
          rw [wfq_call_nonname hne] at hw; simp only [Bool.and_eq_true] at hw; exact hw.2
        cases f with
        | lam ps body =>
          have hf := hnn (by intro x h; cases h)
          simp only [simp]
          split
          · exact hval hf
          · simp only [wfq] at hf
            refine Good.bindL (ihL _ _ _ hst hw'.1) (fun as' c2 ha => ?_)
            simp only []
            refine Good.bindL (ihL _ _ _ hst hw'.2) (fun ks' c3 hk => ?_)
            simp only []
            refine ihS _ _ _ (wfStack_cons hst _ ?_) (wfq_makeArgsUnique ps body c hf)
            intro p hp
            rcases List.mem_append.mp hp with h | h
            · exact wfqL_mem ha (List.of_mem_zip (show (p.1, p.2) ∈ _ from h)).2
            · obtain ⟨q, hq, rfl⟩ := List.mem_map.mp h
              exact wfqL_mem hk (List.of_mem_zip (show (q.1, q.2) ∈ _ from hq)).2
        | attr v m =>
          have hf := hnn (by intro x h; cases h)
          simp only [wfq] at hf
          simp only [simp]
          cases hfa : firstArg? v with
          | some o =>
            cases o with
            | some seq =>
              refine ihS _ _ _ hst (wfq_first_push _ (wfq_firstArg hfa hf) ?_)
              rw [wfq_call_nonname (by intro x h; cases h)]
              simp [hw'.1, hw'.2, wfq, argName_not_op]
            | none => rw [firstArg_none_not_wfq hfa] at hf; cases hf
          | none =>
            simp only []
            have hg := ihS st c v hst hf
            refine hgen _ ?_ ?_
            · intro err he
              cases hv : simp fuel st c v with
              | error e2 => rw [hv] at hg he; simp only [bind, Except.bind] at he; cases he; exact hg
              | ok r => rw [hv] at he; obtain ⟨v', c1⟩ := r; simp only [bind, Except.bind] at he; split at he <;> (try split at he) <;> cases he
            · intro f' c1 he as' ks' ha hk _
              cases hv : simp fuel st c v with
              | error e2 => rw [hv] at he; simp [bind, Except.bind] at he
              | ok r =>
                rw [hv] at he hg
                obtain ⟨v', c0⟩ := r
                have hv' : wfq v' = true := hg
                simp only [bind, Except.bind] at he
                apply wfq_call_of_value _ kwn ha hk
                split at he
                · rename_i ks vs
                  simp only [wfq, Bool.and_eq_true] at hv'
                  split at he
                  · rename_i r hr
                    simp only [pure, Except.pure, Except.ok.injEq, Prod.mk.injEq] at he
                    rw [← he.1]; exact wfq_dictLookup hv'.2 hr
                  · simp only [pure, Except.pure, Except.ok.injEq, Prod.mk.injEq] at he
                    rw [← he.1]; simp [wfq, hv'.1, hv'.2]
                · simp only [pure, Except.pure, Except.ok.injEq, Prod.mk.injEq] at he
                  rw [← he.1]; simpa [wfq] using hv'
        | name n =>
          rw [wfq_call_name] at hw
          simp only [Bool.and_eq_true] at hw
          simp only [simp]
          split
          · rename_i hn; subst hn; exact ihSel _ _ _ _ _ hst hw'.1 hw.2
          · split
            · rename_i hn; subst hn; exact ihMany _ _ _ _ _ hst hw'.1 hw.2
            · split
              · rename_i hn; subst hn; exact ihWhere _ _ _ _ _ hst hw'.1 hw.2
              · rename_i h1 h2 h3
                refine hgen _ ?_ ?_
                · intro err he
                  cases fuel with
                  | zero => simp [simp] at he; exact Or.inl he.symm
                  | succ k => simp [simp] at he
                · intro f' c1 he as' ks' ha hk hlen
                  cases fuel with
                  | zero => simp [simp] at he
                  | succ k =>
                    simp only [simp, Except.ok.injEq, Prod.mk.injEq] at he
                    cases hl : stackLookup n st with
                    | some v =>
                      rw [hl] at he
                      simp only [Option.getD_some] at he
                      rw [← he.1]
                      exact wfq_call_of_value (hst n v hl) kwn ha hk
                    | none =>
                      rw [hl] at he
                      simp only [Option.getD_none] at he
                      rw [← he.1, wfq_call_name]
                      simp only [ha, hk, Bool.true_and]
                      -- the shape of a First call depends only on the number of arguments
                      unfold opShape
                      simp only [h1, h2, h3, Bool.or_self, if_false, Bool.false_eq_true]
                      split
                      · rename_i hn; subst hn
                        obtain ⟨a, rfl⟩ := opShape_first hw.2
                        rcases as' with _ | ⟨x, _ | ⟨y, r⟩⟩ <;> simp at hlen
                        rfl
                      · rfl
        | const k => simp only [simp]; exact hval (hnn (by intro x h; cases h))
        | sub v s => simp only [simp]; exact hval (hnn (by intro x h; cases h))
        | tuple es => simp only [simp]; exact hval (hnn (by intro x h; cases h))
        | list es => simp only [simp]; exact hval (hnn (by intro x h; cases h))
        | dict ks vs => simp only [simp]; exact hval (hnn (by intro x h; cases h))
        | op k es => simp only [simp]; exact hval (hnn (by intro x h; cases h))
        | comp kind el t i ifs a => simp only [simp]; exact hval (hnn (by intro x h; cases h))
        | call f2 a2 k2 v2 => simp only [simp]; exact hval (hnn (by intro x h; cases h))
    · intro st c es hst hw
      cases es with
      | nil => simp only [simpL]; exact hw
      | cons e rest =>
        simp only [wfqL, Bool.and_eq_true] at hw
        simp only [simpL]
        refine GoodL.bind (ihS _ _ _ hst hw.1) (fun x c1 hx => ?_)
        simp only []
        exact GoodL.bindL (ihL _ _ _ hst hw.2) (fun y c2 hy => by show wfqL (x :: y) = true; simp [wfqL, hx, hy])
    · -- callSelect
      intro st c args kwn kwv hst hw hsh
      obtain ⟨source, p, b, rfl⟩ := opShape_op3 (Or.inl rfl) hsh
      simp only [wfqL, wfq, Bool.and_eq_true, and_true] at hw
      simp only [callSelect, isLam, Bool.not_true, Bool.false_eq_true, if_false]
      refine Good.bind (ihS _ _ _ hst hw.1) (fun parent c1 hp => ?_)
      simp only []
      have hd : Good (do let (sel, c2) ← simp fuel st c1 (.lam [p] b); pure (makeSelect parent sel, c2)) :=
        good_lam_bind (ihS _ _ _ hst (by simpa [wfq] using hw.2)) _ (fun p' b' c' hb' => wfq_makeSelect hp p' b' rfl hb')
      cases hoc : opCall? parent with
      | none => exact hd
      | some o =>
        obtain ⟨n, pargs⟩ := o
        obtain ⟨k1, k2, rfl⟩ := opCall?_some hoc
        rw [wfq_call_name] at hp
        simp only [Bool.and_eq_true] at hp
        simp only []
        split
        · rename_i hn; subst hn
          obtain ⟨src, q, fb, rfl⟩ := opShape_op3 (Or.inl rfl) hp.2
          have hp1 := hp.1.1
          simp only [wfqL, wfq, Bool.and_eq_true, and_true] at hp1
          simp only [isLam, Bool.not_true, Bool.false_eq_true, if_false]
          obtain ⟨x, body, c', hconv, hbody⟩ := wfq_convolute hw.2 hp1.2 c1
          rw [hconv]
          exact good_lam_bind (ihS _ _ _ hst (by simpa [wfq] using hbody)) _
            (fun p' b' c'' hb' => wfq_makeSelect hp1.1 p' b' rfl hb')
        · split
          · rename_i hn; subst hn
            obtain ⟨src, q, fb, rfl⟩ := opShape_op3 (Or.inr (Or.inl rfl)) hp.2
            have hp1 := hp.1.1
            simp only [wfqL, wfq, Bool.and_eq_true, and_true] at hp1
            simp only []
            refine ihS _ _ _ hst ?_
            rw [wfq_fcall]
            simp [wfqL, wfq, opShape, hp1.1, wfq_makeSelect hp1.2 p b rfl hw.2]
          · exact hd
    · -- callSelectMany
      intro st c args kwn kwv hst hw hsh
      obtain ⟨source, p, b, rfl⟩ := opShape_op3 (Or.inr (Or.inl rfl)) hsh
      simp only [wfqL, wfq, Bool.and_eq_true, and_true] at hw
      simp only [callSelectMany, isLam, Bool.not_true, Bool.false_eq_true, if_false]
      refine Good.bind (ihS _ _ _ hst hw.1) (fun parent c1 hp => ?_)
      simp only []
      have hd : Good (do let (sel, c2) ← simp fuel st c1 (.lam [p] b); pure (fcall "SelectMany" [parent, sel], c2)) :=
        good_lam_bind (ihS _ _ _ hst (by simpa [wfq] using hw.2)) _ (fun p' b' c' hb' => by
          show wfq (fcall "SelectMany" [parent, .lam [p'] b']) = true
          rw [wfq_fcall]; simp [wfqL, wfq, opShape, hp, hb'])
      cases hoc : opCall? parent with
      | none => exact hd
      | some o =>
        obtain ⟨n, pargs⟩ := o
        obtain ⟨k1, k2, rfl⟩ := opCall?_some hoc
        rw [wfq_call_name] at hp
        simp only [Bool.and_eq_true] at hp
        simp only []
        split
        · rename_i hn; subst hn
          obtain ⟨seq, q, fb, rfl⟩ := opShape_op3 (Or.inr (Or.inl rfl)) hp.2
          have hp1 := hp.1.1
          simp only [wfqL, wfq, Bool.and_eq_true, and_true] at hp1
          simp only []
          refine ihS _ _ _ hst ?_
          rw [wfq_fcall]
          simp [wfqL, wfq, opShape, hp1.1, wfq_fcall, hp1.2, hw.2]
        · split
          · rename_i hn; subst hn
            obtain ⟨seq, q, fb, rfl⟩ := opShape_op3 (Or.inl rfl) hp.2
            have hp1 := hp.1.1
            simp only [wfqL, wfq, Bool.and_eq_true, and_true] at hp1
            simp only [isLam, Bool.not_true, Bool.false_eq_true, if_false]
            obtain ⟨x, body, c', hconv, hbody⟩ := wfq_convolute hw.2 hp1.2 c1
            rw [hconv]
            exact good_lam_bind (ihS _ _ _ hst (by simpa [wfq] using hbody)) _ (fun p' b' c'' hb' => by
              show wfq (fcall "SelectMany" [seq, .lam [p'] b']) = true
              rw [wfq_fcall]; simp [wfqL, wfq, opShape, hp1.1, hb'])
          · exact hd
    · -- callWhere
      intro st c args kwn kwv hst hw hsh
      obtain ⟨source, p, b, rfl⟩ := opShape_op3 (Or.inr (Or.inr rfl)) hsh
      simp only [wfqL, wfq, Bool.and_eq_true, and_true] at hw
      simp only [callWhere, isLam, Bool.not_true, Bool.false_eq_true, if_false]
      refine Good.bind (ihS _ _ _ hst hw.1) (fun parent c1 hp => ?_)
      simp only []
      have hwhere : ∀ (src w : Expr), wfq src = true → ∀ p' b', w = .lam [p'] b' → wfq b' = true →
          wfq (fcall "Where" [src, w]) = true := by
        intro src w hs p' b' hw' hb'
        subst hw'
        rw [wfq_fcall]; simp [wfqL, wfq, opShape, hs, hb']
      have hd : Good (do
            let (f', c2) ← simp fuel st c1 (.lam [p] b)
            if lambdaIsTrue f' then pure (parent, c2) else pure (fcall "Where" [parent, f'], c2)) :=
        good_lam_bind (ihS _ _ _ hst (by simpa [wfq] using hw.2)) _ (fun p' b' c' hb' => by
          simp only []
          split
          · exact hp
          · exact hwhere parent _ hp p' b' rfl hb')
      cases hoc : opCall? parent with
      | none => exact hd
      | some o =>
        obtain ⟨n, pargs⟩ := o
        obtain ⟨k1, k2, rfl⟩ := opCall?_some hoc
        rw [wfq_call_name] at hp
        simp only [Bool.and_eq_true] at hp
        simp only []
        split
        · rename_i hn; subst hn
          obtain ⟨src, q, fb, rfl⟩ := opShape_op3 (Or.inr (Or.inr rfl)) hp.2
          have hp1 := hp.1.1
          simp only [wfqL, wfq, Bool.and_eq_true, and_true] at hp1
          simp only [isLam, Bool.not_true, Bool.false_eq_true, if_false]
          refine ihS _ _ _ hst (hwhere src _ hp1.1 _ _ rfl ?_)
          simp [wfq, wfqL, wfq_call_nonname, hp1.2, hw.2, argName_not_op]
        · split
          · rename_i hn; subst hn
            obtain ⟨src, q, fb, rfl⟩ := opShape_op3 (Or.inl rfl) hp.2
            have hp1 := hp.1.1
            simp only [wfqL, wfq, Bool.and_eq_true, and_true] at hp1
            simp only [isLam, Bool.not_true, Bool.false_eq_true, if_false]
            obtain ⟨x, body, c', hconv, hbody⟩ := wfq_convolute hw.2 hp1.2 c1
            rw [hconv]
            refine good_lam_bind (ihS _ _ _ hst (by simpa [wfq] using hbody)) _ (fun p' b' c'' hb' => ?_)
            simp only []
            exact ihS _ _ _ hst (wfq_makeSelect (hwhere src _ hp1.1 p' b' rfl hb') q fb rfl hp1.2)
          · split
            · rename_i hn; subst hn
              obtain ⟨seq, q, fb, rfl⟩ := opShape_op3 (Or.inr (Or.inl rfl)) hp.2
              have hp1 := hp.1.1
              simp only [wfqL, wfq, Bool.and_eq_true, and_true] at hp1
              simp only []
              refine ihS _ _ _ hst ?_
              rw [wfq_fcall]
              simp [wfqL, wfq, opShape, hp1.1, hwhere fb _ hp1.2 p b rfl hw.2]
            · exact hd

/-- **C18 (totality)**: on a well-formed query the visitor model either returns a well-formed query or fails with the
    dedicated index error (a constant index past the end of a literal) — or runs out of the model's own fuel.  No
    internal error (the Python's IndexError / AssertionError / Exception) is possible, whatever the query, the counter
    and the fuel. -/
theorem simplify_total (fuel c : Nat) (e : Expr) (hw : wfq e = true) : Good (simplify fuel c e) :=
  (simp_total fuel).1 [[]] _ e wfStack_nil hw

theorem simplify_no_internal_error (fuel c : Nat) (e : Expr) (hw : wfq e = true) (what : String) :
    simplify fuel c e ≠ .error (.internal what) := by
  intro h
  have := simplify_total fuel c e hw
  rw [h] at this
  rcases this with h | h <;> cases h

/-- the output of the simplifier is well formed again (so the pass can be applied to its own output) -/
theorem simplify_output_wf (fuel c : Nat) (e e' : Expr) (c' : Nat) (hw : wfq e = true)
    (h : simplify fuel c e = .ok (e', c')) : wfq e' = true := by
  have := simplify_total fuel c e hw
  rw [h] at this
  exact this

/-- Non-vacuity: a two-stage query with packaging, projection and a First is well formed. -/
example : wfq (fcall "Select" [fcall "Select" [.name "ds", .lam ["e"] (.tuple [.attr (.name "e") "met",
    fcall "First" [.attr (.name "e") "jets"]])], .lam ["t"] (.sub (.name "t") (.const (.int 0)))]) = true := by
  simp [fcall, wfq, wfqL, opShape, isSimpOp]

end Fadl
