/-
  C02 — every fusion rule the chained-call simplifier applies is value preserving under deferred execution:
  for every source expression, every pair of lambdas, every world and every environment, the two sides of
  the rule evaluate to the same result (same elements, same deferred failures in the same positions).

  Freshness hypotheses (`z ∉ fv …`) are what `arg_name()` provides in the implementation; the
  `NoPoison` hypothesis says that the inner function never returns a deferred failure as a value, which holds
  of every denotation in a well-formed world and environment.
-/
import Fadl.Model.Simplify
import Fadl.Lemmas.LazyRules
import Fadl.Lemmas.Coincide
import Fadl.Lemmas.MonoLz
import Fadl.Lemmas.DictSem
namespace Fadl
set_option linter.unusedSimpArgs false

/-! ### evaluation of the shapes involved -/

theorem denLz_op2 (w : World) (env : Env) (op : String) (hop : op = "Select" ∨ op = "Where" ∨ op = "SelectMany")
    (src lam : Expr) :
    denLz w (fcall op [src, lam]) env =
      (do let s ← denLz w src env
          let vs ← asSeq s
          seqOp2Lz op (applyLam1 (denLamLz w lam) env) vs) := by
  have hb : op ∈ builtinOps := by rcases hop with rfl | rfl | rfl <;> decide
  simp only [fcall, denLz, denHeadLz, denLLz, denLamLLz, callSemLz, List.tail_cons, fnCallLz, hb, if_true]

theorem denLz_first (w : World) (env : Env) (s : Expr) :
    denLz w (fcall "First" [s]) env =
      (do let v ← denLz w s env
          let vs ← asSeq v
          seqOp1Lz "First" vs) := by
  have hb : "First" ∈ builtinOps := by decide
  simp only [fcall, denLz, denHeadLz, denLLz, denLamLLz, callSemLz, List.tail_cons, fnCallLz, hb, if_true]

theorem bindParams_single (ps : List String) (u : Val) (env : Env) (b : Den) :
    (bindParams ps [u] [] [] env >>= b) = applyLam1 (some (ps, b)) env u := by
  match ps with
  | [] => simp [bindParams, bindPos, applyLam1, bind, Except.bind]
  | [y] =>
    have : distinctS ([y] : List String) = true := by simp [distinctS]
    simp [bindParams, this, bindPos, bindKw, applyLam1, bind, Except.bind, pure, Except.pure]
  | y :: y' :: rest =>
    simp only [applyLam1]
    unfold bindParams
    split
    · rfl
    · simp [bindPos, bindKw, bind, Except.bind, pure, Except.pure]

theorem applyLam1_single (z : String) (b : Den) (env : Env) (u : Val) : applyLam1 (some ([z], b)) env u = b (env.upd z u) := rfl
theorem asSeq_list (vs : List Val) : asSeq (.list vs) = .ok vs := rfl

/-- a lambda literal called with one positional argument -/
theorem denLz_called1 (w : World) (env : Env) (ps : List String) (b a : Expr) :
    denLz w (.call (.lam ps b) [a] [] []) env =
      (do let u ← denLz w a env
          applyLam1 (some (ps, denLz w b)) env u) := by
  simp only [denLz, denHeadLz, denLLz, denLamLLz, callSemLz, callSem, evalAll, List.map, seqRes]
  cases denLz w a env with
  | error e => simp [bind, Except.bind]
  | ok u =>
    simp only [bind, Except.bind, pure, Except.pure]
    exact bindParams_single ps u env (denLz w b)

/-- rebinding a name that is not free in a lambda does not change what the lambda computes -/
theorem applyLam1_upd_fresh (w : World) (env : Env) (l : Expr) (z : String) (u r : Val) (hz : z ∉ fv l) :
    applyLam1 (denLamLz w l) (env.upd z u) r = applyLam1 (denLamLz w l) env r := by
  have := ((denLz_coincide_both w).1 l [] (env.upd z u) env (by
    intro x hx
    simp only [Env.upd]
    split
    · rename_i h; subst h; exact absurd hx hz
    · rfl) (by simp)).2.2
  exact this.1 r

theorem denLz_upd_fresh' (w : World) (env : Env) (e : Expr) (z : String) (u : Val) (hz : z ∉ fv e) :
    denLz w e (env.upd z u) = denLz w e env := denLz_upd_fresh w e env z u hz

/-- the function computed by `lambda z: g(f(z))` for fresh `z` is the composition -/
def convLam (z : String) (g f : Expr) : Expr := .lam [z] (.call g [.call f [.name z] [] []] [] [])

theorem convLam_sem (w : World) (env : Env) (z : String) (gps fps : List String) (gb fb : Expr)
    (hzf : z ∉ fv (.lam fps fb)) (hzg : z ∉ fv (.lam gps gb)) (u : Val) :
    applyLam1 (denLamLz w (convLam z (.lam gps gb) (.lam fps fb))) env u =
      (applyLam1 (denLamLz w (.lam fps fb)) env u >>= applyLam1 (denLamLz w (.lam gps gb)) env) := by
  simp only [convLam, denLamLz]
  rw [applyLam1_single, denLz_called1, denLz_called1]
  have h0 : denLz w (.name z) (env.upd z u) = .ok u := by simp [denLz, Env.upd]
  rw [h0]
  have hf := applyLam1_upd_fresh w env (.lam fps fb) z u u hzf
  simp only [denLamLz] at hf
  show (applyLam1 (some (fps, denLz w fb)) (env.upd z u) u >>= fun r => applyLam1 (some (gps, denLz w gb)) (env.upd z u) r) = _
  rw [hf]
  cases applyLam1 (some (fps, denLz w fb)) env u with
  | error e => rfl
  | ok r =>
    have hg := applyLam1_upd_fresh w env (.lam gps gb) z u r hzg
    simp only [denLamLz] at hg
    exact hg

/-- two stacked operators: the source is evaluated once, then both operators run on values -/
theorem denLz_op2_op2 (w : World) (env : Env) (op1 op2 : String)
    (h1 : op1 = "Select" ∨ op1 = "Where" ∨ op1 = "SelectMany") (h2 : op2 = "Select" ∨ op2 = "Where" ∨ op2 = "SelectMany")
    (src f g : Expr) :
    denLz w (fcall op2 [fcall op1 [src, f], g]) env =
      (do let s ← denLz w src env
          let vs ← asSeq s
          let r ← seqOp2Lz op1 (applyLam1 (denLamLz w f) env) vs
          let vs' ← asSeq r
          seqOp2Lz op2 (applyLam1 (denLamLz w g) env) vs') := by
  rw [denLz_op2 w env op2 h2, denLz_op2 w env op1 h1]
  cases denLz w src env with
  | error e => rfl
  | ok s =>
    cases hs : asSeq s with
    | error e => simp [hs, bind, Except.bind]
    | ok vs =>
      simp only [hs, bind, Except.bind]

theorem src_congr (w : World) (env : Env) (src : Expr) {A B : List Val → Res}
    (h : ∀ s vs, denLz w src env = .ok s → asSeq s = .ok vs → A vs = B vs) :
    (do let s ← denLz w src env; let vs ← asSeq s; A vs) = (do let s ← denLz w src env; let vs ← asSeq s; B vs) := by
  cases hs : denLz w src env with
  | error e => rfl
  | ok s =>
    cases hv : asSeq s with
    | error e => simp [hv, bind, Except.bind]
    | ok vs => simp only [hv, bind, Except.bind]; exact h s vs hs hv

theorem VLeL.mem_wf : ∀ {vs : List Val}, VLeL vs vs → ∀ v ∈ vs, ∀ x, force v = .ok x → VLe x x
  | [], _, v, hv, _, _ => by simp at hv
  | a :: as, h, v, hv, x, hx => by
    rw [VLeL_cons] at h
    rcases List.mem_cons.mp hv with rfl | hv
    · have hnp : ∀ e, v ≠ .poison e := by intro e he; subst he; simp [force] at hx
      have := VLeE.of_ne_poison h.1 hnp
      rw [this.force.1] at hx; cases hx; exact this
    · exact VLeL.mem_wf h.2 v hv x hx

/-- a lambda applied to the elements of a sequence an expression evaluated to never returns a deferred failure
    as its value -/
theorem noPoisonOn_lam (w : World) (hw : WorldOK w) (env : Env) (henv : EnvLe env env) (src l : Expr) (s : Val) (vs : List Val)
    (hs : denLz w src env = .ok s) (hv : asSeq s = .ok vs) : NoPoisonOn (applyLam1 (denLamLz w l) env) vs := by
  have hwf := denLz_wf w hw src env henv s hs
  cases s <;> simp [asSeq] at hv
  subst hv
  simp only [VLe] at hwf
  intro v hvm x hx e
  have hxx := VLeL.mem_wf hwf v hvm x hx
  cases l with
  | lam ps b =>
    simp only [denLamLz]
    match ps with
    | [y] => simp only [applyLam1]; exact denLz_noPoison w hw b _ (henv.upd y hxx) e
    | [] => simp [applyLam1]
    | _ :: _ :: _ => simp [applyLam1]
  | _ => simp [denLamLz, applyLam1]

theorem src_le (w : World) (env : Env) (src : Expr) {A B : List Val → Res} (h : ∀ vs, ELe (A vs) (B vs)) :
    ELe (do let s ← denLz w src env; let vs ← asSeq s; A vs) (do let s ← denLz w src env; let vs ← asSeq s; B vs) := by
  cases denLz w src env with
  | error e => exact ELe.refl _
  | ok s =>
    cases hs : asSeq s with
    | error e => simp only [hs, bind, Except.bind]; exact ELe.refl _
    | ok vs => simp only [hs, bind, Except.bind]; exact h vs

theorem selL_congr {f g : Val → Res} (h : ∀ u, f u = g u) (vs : List Val) : selL f vs = selL g vs := by
  have : f = g := funext h
  rw [this]

/-! ### the rules -/

/-- **Select ∘ Select** -/
theorem rule_select_select (w : World) (env : Env) (src : Expr) (z : String) (gps fps : List String) (gb fb : Expr)
    (hzf : z ∉ fv (.lam fps fb)) (hzg : z ∉ fv (.lam gps gb))
    (hw : WorldOK w) (henv : EnvLe env env) :
    denLz w (fcall "Select" [fcall "Select" [src, .lam fps fb], .lam gps gb]) env =
    denLz w (fcall "Select" [src, convLam z (.lam gps gb) (.lam fps fb)]) env := by
  rw [denLz_op2_op2 w env "Select" "Select" (Or.inl rfl) (Or.inl rfl), denLz_op2 w env "Select" (Or.inl rfl)]
  apply src_congr
  intro s vs hs hv
  have hnp := noPoisonOn_lam w hw env henv src (.lam fps fb) s vs hs hv
  simp only [seqOp2Lz_select, asSeq_list, bind, Except.bind]
  rw [sel_sel _ _ vs hnp]
  congr 2
  exact selL_congr (fun u => (convLam_sem w env z gps fps gb fb hzf hzg u).symm) vs

/-- **SelectMany ∘ Select** -/
theorem rule_selectMany_select (w : World) (env : Env) (src : Expr) (z : String) (gps fps : List String) (gb fb : Expr)
    (hzf : z ∉ fv (.lam fps fb)) (hzg : z ∉ fv (.lam gps gb))
    (hw : WorldOK w) (henv : EnvLe env env) :
    denLz w (fcall "SelectMany" [fcall "Select" [src, .lam fps fb], .lam gps gb]) env =
    denLz w (fcall "SelectMany" [src, convLam z (.lam gps gb) (.lam fps fb)]) env := by
  rw [denLz_op2_op2 w env "Select" "SelectMany" (Or.inl rfl) (Or.inr (Or.inr rfl)),
    denLz_op2 w env "SelectMany" (Or.inr (Or.inr rfl))]
  apply src_congr
  intro s vs hs hv
  have hnp := noPoisonOn_lam w hw env henv src (.lam fps fb) s vs hs hv
  simp only [seqOp2Lz_select, seqOp2Lz_many, asSeq_list, bind, Except.bind]
  rw [many_sel _ _ vs hnp]
  have : (fun x => applyLam1 (denLamLz w (.lam fps fb)) env x >>= applyLam1 (denLamLz w (.lam gps gb)) env) =
      applyLam1 (denLamLz w (convLam z (.lam gps gb) (.lam fps fb))) env :=
    funext (fun u => (convLam_sem w env z gps fps gb fb hzf hzg u).symm)
  rw [this]

/-- **Where ∘ Select**: filter first (on the composition), then map -/
theorem rule_where_select (w : World) (env : Env) (src : Expr) (z : String) (gps fps : List String) (gb fb : Expr)
    (hzf : z ∉ fv (.lam fps fb)) (hzg : z ∉ fv (.lam gps gb))
    (hw : WorldOK w) (henv : EnvLe env env) :
    denLz w (fcall "Where" [fcall "Select" [src, .lam fps fb], .lam gps gb]) env =
    denLz w (fcall "Select" [fcall "Where" [src, convLam z (.lam gps gb) (.lam fps fb)], .lam fps fb]) env := by
  rw [denLz_op2_op2 w env "Select" "Where" (Or.inl rfl) (Or.inr (Or.inl rfl)),
    denLz_op2_op2 w env "Where" "Select" (Or.inr (Or.inl rfl)) (Or.inl rfl)]
  apply src_congr
  intro s vs hs hv
  have hnp := noPoisonOn_lam w hw env henv src (.lam fps fb) s vs hs hv
  simp only [seqOp2Lz_select, seqOp2Lz_where, asSeq_list, bind, Except.bind]
  rw [whr_sel _ _ vs hnp]
  have : (fun x => applyLam1 (denLamLz w (.lam fps fb)) env x >>= applyLam1 (denLamLz w (.lam gps gb)) env) =
      applyLam1 (denLamLz w (convLam z (.lam gps gb) (.lam fps fb))) env :=
    funext (fun u => (convLam_sem w env z gps fps gb fb hzf hzg u).symm)
  rw [this]
  cases whereLz (applyLam1 (denLamLz w (convLam z (.lam gps gb) (.lam fps fb))) env) vs <;> rfl

/-- the conjunction built by Where ∘ Where -/
def andLam (z : String) (f g : Expr) : Expr :=
  .lam [z] (.op .boolAnd [.call f [.name z] [] [], .call g [.name z] [] []])

theorem andLam_sem (w : World) (env : Env) (z : String) (gps fps : List String) (gb fb : Expr)
    (hzf : z ∉ fv (.lam fps fb)) (hzg : z ∉ fv (.lam gps gb)) (u : Val) :
    applyLam1 (denLamLz w (andLam z (.lam fps fb) (.lam gps gb))) env u =
      andF (applyLam1 (denLamLz w (.lam fps fb)) env) (applyLam1 (denLamLz w (.lam gps gb)) env) u := by
  simp only [andLam, denLamLz, andF]
  rw [applyLam1_single]
  have h0 : denLz w (.name z) (env.upd z u) = .ok u := by simp [denLz, Env.upd]
  have hf := applyLam1_upd_fresh w env (.lam fps fb) z u u hzf
  have hg := applyLam1_upd_fresh w env (.lam gps gb) z u u hzg
  simp only [denLamLz] at hf hg
  have e1 : denLz w (.call (.lam fps fb) [.name z] [] []) (env.upd z u) = applyLam1 (some (fps, denLz w fb)) env u := by
    rw [denLz_called1, h0]; exact hf
  have e2 : denLz w (.call (.lam gps gb) [.name z] [] []) (env.upd z u) = applyLam1 (some (gps, denLz w gb)) env u := by
    rw [denLz_called1, h0]; exact hg
  show evOpLz .boolAnd ((denLLz w [.call (.lam fps fb) [.name z] [] [], .call (.lam gps gb) [.name z] [] []]).map (· (env.upd z u))) = _
  simp only [denLLz, List.map, evOpLz, evOp, andChain, e1, e2]

/-- **Where ∘ Where** (whenever the original evaluates, the fused one evaluates to the same value) -/
theorem rule_where_where (w : World) (env : Env) (src : Expr) (z : String) (gps fps : List String) (gb fb : Expr)
    (hzf : z ∉ fv (.lam fps fb)) (hzg : z ∉ fv (.lam gps gb)) :
    ELe (denLz w (fcall "Where" [fcall "Where" [src, .lam fps fb], .lam gps gb]) env)
        (denLz w (fcall "Where" [src, andLam z (.lam fps fb) (.lam gps gb)]) env) := by
  rw [denLz_op2_op2 w env "Where" "Where" (Or.inr (Or.inl rfl)) (Or.inr (Or.inl rfl)),
    denLz_op2 w env "Where" (Or.inr (Or.inl rfl))]
  apply src_le
  intro vs
  simp only [seqOp2Lz_where]
  have : applyLam1 (denLamLz w (andLam z (.lam fps fb) (.lam gps gb))) env =
      andF (applyLam1 (denLamLz w (.lam fps fb)) env) (applyLam1 (denLamLz w (.lam gps gb)) env) :=
    funext (andLam_sem w env z gps fps gb fb hzf hzg)
  rw [this]
  intro v h
  have key := whr_whr (applyLam1 (denLamLz w (.lam fps fb)) env) (applyLam1 (denLamLz w (.lam gps gb)) env) vs
  cases hw : whereLz (applyLam1 (denLamLz w (.lam fps fb)) env) vs with
  | error e => simp [hw, Except.map, bind, Except.bind] at h
  | ok r1 =>
    simp only [hw, Except.map, bind, Except.bind, asSeq_list] at h
    cases hw2 : whereLz (applyLam1 (denLamLz w (.lam gps gb)) env) r1 with
    | error e => simp [hw2] at h
    | ok r2 =>
      simp only [hw2, Except.ok.injEq] at h
      have := key r2 (by simp [hw, hw2, bind, Except.bind])
      simp [this, Except.map, h]

/-- the function computed by `lambda p: Op(fb, g)` when `p` is not free in `g` -/
theorem innerLam_sem (w : World) (env : Env) (op : String) (hop : op = "Select" ∨ op = "Where" ∨ op = "SelectMany")
    (fps : List String) (fb g : Expr) (hp : ∀ p ∈ fps, p ∉ fv g) (u : Val) :
    applyLam1 (denLamLz w (.lam fps (fcall op [fb, g]))) env u =
      innerOp op (applyLam1 (denLamLz w (.lam fps fb)) env) (applyLam1 (denLamLz w g) env) u := by
  simp only [denLamLz, innerOp]
  match fps with
  | [y] =>
    simp only [applyLam1]
    rw [denLz_op2 w _ op hop]
    have : applyLam1 (denLamLz w g) (env.upd y u) = applyLam1 (denLamLz w g) env := by
      funext r; exact applyLam1_upd_fresh w env g y u r (hp y (by simp))
    rw [this]
  | [] => simp [applyLam1, bind, Except.bind]
  | _ :: _ :: _ => simp [applyLam1, bind, Except.bind]

/-- **Select ∘ SelectMany**: the Select moves under the SelectMany's lambda -/
theorem rule_select_selectMany (w : World) (env : Env) (src : Expr) (fps : List String) (fb g : Expr)
    (hp : ∀ p ∈ fps, p ∉ fv g) :
    denLz w (fcall "Select" [fcall "SelectMany" [src, .lam fps fb], g]) env =
    denLz w (fcall "SelectMany" [src, .lam fps (fcall "Select" [fb, g])]) env := by
  rw [denLz_op2_op2 w env "SelectMany" "Select" (Or.inr (Or.inr rfl)) (Or.inl rfl),
    denLz_op2 w env "SelectMany" (Or.inr (Or.inr rfl))]
  apply src_congr
  intro s vs _ _
  simp only [seqOp2Lz_select, seqOp2Lz_many]
  have : applyLam1 (denLamLz w (.lam fps (fcall "Select" [fb, g]))) env =
      innerOp "Select" (applyLam1 (denLamLz w (.lam fps fb)) env) (applyLam1 (denLamLz w g) env) :=
    funext (innerLam_sem w env "Select" (Or.inl rfl) fps fb g hp)
  rw [this, ← sel_many]
  cases manyLz (applyLam1 (denLamLz w (.lam fps fb)) env) vs <;> rfl

/-- **Where ∘ SelectMany** -/
theorem rule_where_selectMany (w : World) (env : Env) (src : Expr) (fps : List String) (fb g : Expr)
    (hp : ∀ p ∈ fps, p ∉ fv g) :
    ELe (denLz w (fcall "Where" [fcall "SelectMany" [src, .lam fps fb], g]) env)
        (denLz w (fcall "SelectMany" [src, .lam fps (fcall "Where" [fb, g])]) env) := by
  rw [denLz_op2_op2 w env "SelectMany" "Where" (Or.inr (Or.inr rfl)) (Or.inr (Or.inl rfl)),
    denLz_op2 w env "SelectMany" (Or.inr (Or.inr rfl))]
  apply src_le
  intro vs
  simp only [seqOp2Lz_where, seqOp2Lz_many]
  have : applyLam1 (denLamLz w (.lam fps (fcall "Where" [fb, g]))) env =
      innerOp "Where" (applyLam1 (denLamLz w (.lam fps fb)) env) (applyLam1 (denLamLz w g) env) :=
    funext (innerLam_sem w env "Where" (Or.inr (Or.inl rfl)) fps fb g hp)
  rw [this]
  intro v h
  have key := whr_many (applyLam1 (denLamLz w (.lam fps fb)) env) (applyLam1 (denLamLz w g) env) vs
  cases hm : manyLz (applyLam1 (denLamLz w (.lam fps fb)) env) vs with
  | error e => simp [hm, Except.map, bind, Except.bind] at h
  | ok r1 =>
    simp only [hm, Except.map, bind, Except.bind, asSeq_list] at h
    cases hw2 : whereLz (applyLam1 (denLamLz w g) env) r1 with
    | error e => simp [hw2] at h
    | ok r2 =>
      simp only [hw2, Except.ok.injEq] at h
      have := key r2 (by simp [hm, hw2, bind, Except.bind])
      simp [this, Except.map, h]

/-- **SelectMany ∘ SelectMany** -/
theorem rule_selectMany_selectMany (w : World) (env : Env) (src : Expr) (fps : List String) (fb g : Expr)
    (hp : ∀ p ∈ fps, p ∉ fv g) :
    ELe (denLz w (fcall "SelectMany" [fcall "SelectMany" [src, .lam fps fb], g]) env)
        (denLz w (fcall "SelectMany" [src, .lam fps (fcall "SelectMany" [fb, g])]) env) := by
  rw [denLz_op2_op2 w env "SelectMany" "SelectMany" (Or.inr (Or.inr rfl)) (Or.inr (Or.inr rfl)),
    denLz_op2 w env "SelectMany" (Or.inr (Or.inr rfl))]
  apply src_le
  intro vs
  simp only [seqOp2Lz_many]
  have : applyLam1 (denLamLz w (.lam fps (fcall "SelectMany" [fb, g]))) env =
      innerOp "SelectMany" (applyLam1 (denLamLz w (.lam fps fb)) env) (applyLam1 (denLamLz w g) env) :=
    funext (innerLam_sem w env "SelectMany" (Or.inr (Or.inr rfl)) fps fb g hp)
  rw [this]
  intro v h
  have key := many_many (applyLam1 (denLamLz w (.lam fps fb)) env) (applyLam1 (denLamLz w g) env) vs
  cases hm : manyLz (applyLam1 (denLamLz w (.lam fps fb)) env) vs with
  | error e => simp [hm, Except.map, bind, Except.bind] at h
  | ok r1 =>
    simp only [hm, Except.map, bind, Except.bind, asSeq_list] at h
    cases hw2 : manyLz (applyLam1 (denLamLz w g) env) r1 with
    | error e => simp [hw2] at h
    | ok r2 =>
      simp only [hw2, Except.ok.injEq] at h
      have := key r2 (by simp [hm, hw2, bind, Except.bind])
      simp [this, Except.map, h]

/-! ### pushing an access on `First(seq)` into the sequence -/

/-- **First(seq).a  =  First(Select(seq, lambda z: z.a))** -/
theorem rule_first_attr (w : World) (hw : WorldOK w) (env : Env) (henv : EnvLe env env) (s : Expr) (a z : String) :
    denLz w (.attr (fcall "First" [s]) a) env =
    denLz w (fcall "First" [fcall "Select" [s, .lam [z] (.attr (.name z) a)]]) env := by
  rw [denLz_first, denLz_op2 w env "Select" (Or.inl rfl)]
  simp only [denLz]
  rw [denLz_first]
  have hF : applyLam1 (denLamLz w (.lam [z] (.attr (.name z) a))) env = fun u => getAttrLz u a := by
    funext u
    simp [denLamLz, applyLam1, denLz, Env.upd, bind, Except.bind]
  rw [hF]
  cases hsv : denLz w s env with
  | error e => rfl
  | ok v =>
    cases hs : asSeq v with
    | error e => simp [bind, Except.bind, hs]
    | ok vs =>
      simp only [bind, Except.bind, hs, seqOp2Lz_select, asSeq_list]
      have hnp : NoPoisonOn (fun u => getAttrLz u a) vs := by
        have hwf := denLz_wf w hw s env henv v hsv
        cases v <;> simp [asSeq] at hs
        subst hs
        simp only [VLe] at hwf
        intro u hu x hx e he
        obtain ⟨y, hy, hyy⟩ := getAttrLz_mono a (VLeL.mem_wf hwf u hu x hx) _ he
        exact VLe_poison_left hyy
      have := first_sel (fun u => getAttrLz u a) vs hnp
      simp only [bind, Except.bind] at this
      rw [this]

/-- **First(seq)[i]  =  First(Select(seq, lambda z: z[i]))** for `z` not free in `i` -/
theorem rule_first_sub (w : World) (hw : WorldOK w) (env : Env) (henv : EnvLe env env) (s i : Expr) (z : String) (hz : z ∉ fv i) :
    denLz w (.sub (fcall "First" [s]) i) env =
    denLz w (fcall "First" [fcall "Select" [s, .lam [z] (.sub (.name z) i)]]) env := by
  rw [denLz_first, denLz_op2 w env "Select" (Or.inl rfl)]
  simp only [denLz]
  rw [denLz_first]
  have hF : applyLam1 (denLamLz w (.lam [z] (.sub (.name z) i))) env = fun u => denLz w i env >>= subscriptLz u := by
    funext u
    have hi := denLz_upd_fresh w i env z u hz
    simp only [denLamLz, applyLam1, denLz]
    rw [hi]
    simp [Env.upd, bind, Except.bind]
  rw [hF]
  cases hsv : denLz w s env with
  | error e => rfl
  | ok v =>
    cases hs : asSeq v with
    | error e => simp [bind, Except.bind, hs]
    | ok vs =>
      simp only [bind, Except.bind, hs, seqOp2Lz_select, asSeq_list]
      have hnp : NoPoisonOn (fun u => denLz w i env >>= subscriptLz u) vs := by
        have hwf := denLz_wf w hw s env henv v hsv
        cases v <;> simp [asSeq] at hs
        subst hs
        simp only [VLe] at hwf
        intro u hu x hx e he
        have hxx := VLeL.mem_wf hwf u hu x hx
        cases hi : denLz w i env with
        | error e' => simp [hi, bind, Except.bind] at he
        | ok iv =>
          simp only [hi, bind, Except.bind] at he
          obtain ⟨y, hy, hyy⟩ := subscriptLz_mono hxx (denLz_wf w hw i env henv iv hi) _ he
          exact VLe_poison_left hyy
      have := first_sel (fun u => denLz w i env >>= subscriptLz u) vs hnp
      simp only [bind, Except.bind] at this
      rw [this]

/-! ### constant projection out of a literal -/

theorem seqRes_get : ∀ (rs : List Res) (vs : List Val), seqRes rs = .ok vs → ∀ (k : Nat) (r : Res), rs[k]? = some r → ∃ v, vs[k]? = some v ∧ r = Except.ok v
  | [], vs, h, k, r, hk => by simp at hk
  | r0 :: rs, vs, h, k, r, hk => by
    simp only [seqRes] at h
    cases h0 : r0 with
    | error e => simp [h0, bind, Except.bind] at h
    | ok v0 =>
      cases h1 : seqRes rs with
      | error e => simp [h0, h1, bind, Except.bind] at h
      | ok vs' =>
        simp only [h0, h1, bind, Except.bind, pure, Except.pure, Except.ok.injEq] at h
        subst h
        cases k with
        | zero => simp at hk; subst hk; exact ⟨v0, by simp, h0⟩
        | succ k =>
          simp only [List.getElem?_cons_succ] at hk ⊢
          exact seqRes_get rs vs' h1 k r hk

theorem denLLz_get (w : World) : ∀ (es : List Expr) (k : Nat) (el : Expr), es[k]? = some el →
    (denLLz w es)[k]? = some (denLz w el)
  | [], k, el, h => by simp at h
  | e :: es, 0, el, h => by simp at h; subst h; simp [denLLz]
  | e :: es, k + 1, el, h => by
    simp only [List.getElem?_cons_succ] at h
    simp only [denLLz, List.getElem?_cons_succ]
    exact denLLz_get w es k el h

theorem evalAll_get (w : World) (env : Env) (es : List Expr) (vs : List Val) (h : evalAll (denLLz w es) env = .ok vs)
    (k : Nat) (el : Expr) (hk : es[k]? = some el) : ∃ v, vs[k]? = some v ∧ denLz w el env = .ok v := by
  have h1 := denLLz_get w es k el hk
  have h2 : ((denLLz w es).map (· env))[k]? = some (denLz w el env) := by simp [h1]
  exact seqRes_get _ vs h k _ h2

theorem evalAll_length (w : World) (env : Env) : ∀ (es : List Expr) (vs : List Val), evalAll (denLLz w es) env = .ok vs → vs.length = es.length
  | [], vs, h => by simp [evalAll, denLLz, seqRes] at h; subst h; rfl
  | e :: es, vs, h => by
    simp only [evalAll, denLLz, List.map, seqRes] at h
    cases h0 : denLz w e env with
    | error e => simp [h0, bind, Except.bind] at h
    | ok v0 =>
      cases h1 : seqRes ((denLLz w es).map (· env)) with
      | error e => simp [h0, h1, bind, Except.bind] at h
      | ok vs' =>
        simp only [h0, h1, bind, Except.bind, pure, Except.pure, Except.ok.injEq] at h
        subst h
        simp [evalAll_length w env es vs' h1]

/-- **(e0, …, en)[k]  ⇒  ek**: whenever the projection evaluates, the selected component evaluates to the same value -/
theorem rule_tuple_index (w : World) (env : Env) (es : List Expr) (k : Nat) (el : Expr) (hk : es[k]? = some el) (v : Val)
    (h : denLz w (.sub (.tuple es) (.const (.int k))) env = .ok v) : denLz w el env = .ok v := by
  simp only [denLz, constVal] at h
  cases hv : evalAll (denLLz w es) env with
  | error e => simp [hv, bind, Except.bind] at h
  | ok vs =>
    obtain ⟨x, hx, hel⟩ := evalAll_get w env es vs hv k el hk
    have hlen := evalAll_length w env es vs hv
    have hklt : k < es.length := by
      rcases List.getElem?_eq_some_iff.mp hk with ⟨hlt, _⟩; exact hlt
    simp only [hv, bind, Except.bind, pure, Except.pure, subscriptLz, subscript, asInt, getIndex] at h
    have h1 : ¬ ((k : Int) < 0) := by omega
    have h2 : ¬ ((k : Int) < 0 ∨ (k : Int) ≥ (vs.length : Int)) := by omega
    have h3 : ¬ ((k : Int) ≥ (vs.length : Int)) := by omega
    simp only [h1, if_false, h3, false_or, Int.toNat_natCast, hx] at h
    rw [hel, h]

/-- **[e0, …, en][k]  ⇒  ek** -/
theorem rule_list_index (w : World) (env : Env) (es : List Expr) (k : Nat) (el : Expr) (hk : es[k]? = some el) (v : Val)
    (h : denLz w (.sub (.list es) (.const (.int k))) env = .ok v) : denLz w el env = .ok v := by
  simp only [denLz, constVal] at h
  cases hv : evalAll (denLLz w es) env with
  | error e => simp [hv, bind, Except.bind] at h
  | ok vs =>
    obtain ⟨x, hx, hel⟩ := evalAll_get w env es vs hv k el hk
    have hlen := evalAll_length w env es vs hv
    have hklt : k < es.length := by
      rcases List.getElem?_eq_some_iff.mp hk with ⟨hlt, _⟩; exact hlt
    simp only [hv, bind, Except.bind, pure, Except.pure, subscriptLz, asInt, getIndexLz] at h
    have h1 : ¬ ((k : Int) < 0) := by omega
    have h2 : ¬ ((k : Int) < 0 ∨ (k : Int) ≥ (vs.length : Int)) := by omega
    have h3 : ¬ ((k : Int) ≥ (vs.length : Int)) := by omega
    simp only [h1, if_false, h3, false_or, Int.toNat_natCast, hx] at h
    have hxv : x = v := by
      cases x <;> simp [force] at h <;> exact h
    rw [hel, hxv]

/-! ### constant key out of a dictionary literal -/

theorem evalAll_cons_inv (d : Den) (ds : List Den) (env : Env) (out : List Val) (h : evalAll (d :: ds) env = .ok out) :
    ∃ x xs, d env = .ok x ∧ evalAll ds env = .ok xs ∧ out = x :: xs := by
  simp only [evalAll, List.map, seqRes] at h
  cases hd : d env with
  | error e => simp [hd, bind, Except.bind] at h
  | ok x =>
    cases hs : seqRes (ds.map (· env)) with
    | error e => simp [hd, hs, bind, Except.bind] at h
    | ok xs =>
      simp only [hd, hs, bind, Except.bind, pure, Except.pure, Except.ok.injEq] at h
      exact ⟨x, xs, rfl, hs, h.symm⟩

theorem pyEq_const (k c : Const) (kv cv : Val) (hk : constVal k = .ok kv) (hc : constVal c = .ok cv)
    (hkind : (∃ s, k = .str s) ∨ (∃ n, k = .int n)) : pyEq kv cv = constKeyEq c k := by
  rcases hkind with ⟨s, rfl⟩ | ⟨n, rfl⟩
  · simp only [constVal, Except.ok.injEq] at hk; subst hk
    cases c <;> simp [constVal] at hc <;> subst hc <;> simp [pyEq, asInt, Val.beq, constKeyEq]
    all_goals (rw [Bool.eq_iff_iff]; simp only [beq_iff_eq, Const.str.injEq, Const.int.injEq]; exact eq_comm)
  · simp only [constVal, Except.ok.injEq] at hk; subst hk
    cases c <;> simp [constVal] at hc <;> subst hc <;> simp [pyEq, asInt, Val.beq, constKeyEq]
    all_goals (rw [Bool.eq_iff_iff]; simp only [beq_iff_eq, Const.str.injEq, Const.int.injEq]; exact eq_comm)

/-- the values of constant keys are scalars -/
theorem constVal_scalar {c : Const} {v : Val} (h : constVal c = .ok v) : scalarV v = true := by
  cases c <;> simp [constVal] at h <;> subst h <;> rfl

theorem constKeys_scalar (w : World) (env : Env) : ∀ (ks : List Expr) (kv : List Val), allConstKeys ks = true →
    evalAll (denLLz w ks) env = .ok kv → ∀ x ∈ kv, scalarV x = true
  | [], kv, _, h => by simp [evalAll, denLLz, seqRes] at h; subst h; simp
  | c0 :: ks, kv, hc, h => by
    cases c0 with
    | const c =>
      simp only [allConstKeys] at hc
      simp only [denLLz] at h
      obtain ⟨k0, kv', hk0, hkv', rfl⟩ := evalAll_cons_inv _ _ env kv h
      simp only [denLz] at hk0
      intro x hx
      simp only [List.mem_cons] at hx
      rcases hx with rfl | hx
      · exact constVal_scalar hk0
      · exact constKeys_scalar w env ks kv' hc hkv' x hx
    | _ => simp [allConstKeys] at hc

/-- the model's lookup (on the key expressions) and the value-level lookup (on their values) find an entry together -/
theorem lastMatch_isSome (w : World) (env : Env) (k : Const) (kvl : Val) (hk : constVal k = .ok kvl)
    (hkind : (∃ s, k = .str s) ∨ (∃ n, k = .int n)) :
    ∀ (ks vs : List Expr) (kv vv : List Val), allConstKeys ks = true →
      evalAll (denLLz w ks) env = .ok kv → evalAll (denLLz w vs) env = .ok vv →
      (dictLookupLast k ks vs).isSome = (lastMatchV kvl kv vv).isSome
  | [], vs, kv, vv, _, hkv, _ => by
    simp [evalAll, denLLz, seqRes] at hkv; subst hkv; simp [dictLookupLast, lastMatchV]
  | c0 :: ks, [], kv, vv, _, _, hvv => by
    simp [evalAll, denLLz, seqRes] at hvv; subst hvv
    cases c0 <;> cases kv <;> simp [dictLookupLast, lastMatchV]
  | c0 :: ks, v0 :: vs, kv, vv, hc, hkv, hvv => by
    cases c0 with
    | const c =>
      simp only [allConstKeys] at hc
      simp only [denLLz] at hkv hvv
      obtain ⟨k0, kv', hk0, hkv', rfl⟩ := evalAll_cons_inv _ _ env kv hkv
      obtain ⟨x0, vv', hx0, hvv', rfl⟩ := evalAll_cons_inv _ _ env vv hvv
      simp only [denLz] at hk0
      have hpe := pyEq_const k c kvl k0 hk hk0 hkind
      have ih := lastMatch_isSome w env k kvl hk hkind ks vs kv' vv' hc hkv' hvv'
      simp only [dictLookupLast, lastMatchV]
      cases hr : dictLookupLast k ks vs with
      | some r' =>
        rw [hr] at ih
        cases hm : lastMatchV kvl kv' vv' with
        | some x => rfl
        | none => rw [hm] at ih; cases ih
      | none =>
        rw [hr] at ih
        cases hm : lastMatchV kvl kv' vv' with
        | some x => rw [hm] at ih; cases ih
        | none => simp only [hpe]; split <;> rfl
    | _ => simp [allConstKeys] at hc

theorem dictLookup_sem (w : World) (env : Env) (k : Const) (kvl : Val) (hk : constVal k = .ok kvl)
    (hkind : (∃ s, k = .str s) ∨ (∃ n, k = .int n)) :
    ∀ (ks vs : List Expr) (kv vv : List Val) (r : Expr) (v : Val), allConstKeys ks = true →
      evalAll (denLLz w ks) env = .ok kv → evalAll (denLLz w vs) env = .ok vv →
      dictLookupLast k ks vs = some r →
      lastMatchV kvl kv vv = some v → denLz w r env = .ok v
  | [], vs, kv, vv, r, v, _, _, _, hf, _ => by simp [dictLookupLast] at hf
  | c0 :: ks, [], kv, vv, r, v, _, _, _, hf, _ => by cases c0 <;> simp [dictLookupLast] at hf
  | c0 :: ks, v0 :: vs, kv, vv, r, v, hc, hkv, hvv, hf, hl => by
    cases c0 with
    | const c =>
      simp only [allConstKeys] at hc
      simp only [denLLz] at hkv hvv
      obtain ⟨k0, kv', hk0, hkv', rfl⟩ := evalAll_cons_inv _ _ env kv hkv
      obtain ⟨x0, vv', hx0, hvv', rfl⟩ := evalAll_cons_inv _ _ env vv hvv
      simp only [denLz] at hk0
      have hpe := pyEq_const k c kvl k0 hk hk0 hkind
      simp only [dictLookupLast] at hf
      simp only [lastMatchV] at hl
      cases hr : dictLookupLast k ks vs with
      | some r' =>
        simp only [hr, Option.some.injEq] at hf; subst hf
        -- the model found a later entry: so does the value-level lookup (same keys, same test)
        cases hm : lastMatchV kvl kv' vv' with
        | some x =>
          simp only [hm, Option.some.injEq] at hl; subst hl
          exact dictLookup_sem w env k kvl hk hkind ks vs kv' vv' r' x hc hkv' hvv' hr hm
        | none =>
          have := lastMatch_isSome w env k kvl hk hkind ks vs kv' vv' hc hkv' hvv'
          rw [hr, hm] at this; cases this
      | none =>
        simp only [hr] at hf
        cases hm : lastMatchV kvl kv' vv' with
        | some x =>
          have := lastMatch_isSome w env k kvl hk hkind ks vs kv' vv' hc hkv' hvv'
          rw [hr, hm] at this; cases this
        | none =>
          simp only [hm] at hl
          rw [hpe] at hl
          by_cases hmk : constKeyEq c k = true
          · simp only [hmk, if_true, Option.some.injEq] at hf hl
            subst hf hl
            exact hx0
          · simp [hmk] at hf
    | _ => simp [allConstKeys] at hc

/-- **{k0: v0, …}[k]  ⇒  vi** and **{…}.a ⇒ vi**: whenever the lookup on the literal evaluates, the selected value
    expression - the one of the LAST entry with that key, which is the one Python keeps - evaluates to the same value -/
theorem rule_dict_key (w : World) (env : Env) (ks vs : List Expr) (k : Const) (r : Expr) (v : Val)
    (hkind : (∃ s, k = .str s) ∨ (∃ n, k = .int n)) (hd : dictLookup ks vs k = some r)
    (h : denLz w (.sub (.dict ks vs) (.const k)) env = .ok v) : denLz w r env = .ok v := by
  unfold dictLookup at hd
  by_cases hc : allConstKeys ks = true
  · simp only [hc, if_true] at hd
    simp only [denLz] at h
    cases hkv : evalAll (denLLz w ks) env with
    | error e => simp [hkv, bind, Except.bind] at h
    | ok kv =>
      cases hvv : evalAll (denLLz w vs) env with
      | error e => simp [hkv, hvv, bind, Except.bind] at h
      | ok vv =>
        simp only [hkv, hvv, bind, Except.bind] at h
        by_cases hlen : kv.length = vv.length
        · simp only [hlen, if_true, mkDictLz, mkDict] at h
          by_cases hcl : Val.cleanL kv = true
          · simp only [hcl, if_true] at h
            cases hkc : constVal k with
            | error e => simp [hkc] at h
            | ok kvl =>
              simp only [hkc] at h
              have hsub : subscriptLz (.dict (dictBuild kv vv [] []).1 (dictBuild kv vv [] []).2) kvl = .ok v := h
              have hunf : ∀ a b, subscriptLz (.dict a b) kvl =
                  if kvl.clean && Val.cleanL a then subscript (.dict a b) kvl else .error uncleanErr := by
                intro a b; cases kvl <;> rfl
              rw [hunf] at hsub
              by_cases hcc : (kvl.clean && Val.cleanL (dictBuild kv vv [] []).1) = true
              · simp only [hcc, if_true, subscript] at hsub
                have hsc := constKeys_scalar w env ks kv hc hkv
                rw [lookupKey_mkDict kvl (constVal_scalar hkc) kv vv hsc] at hsub
                cases hl : lastMatchV kvl kv vv with
                | none => simp [hl] at hsub
                | some x =>
                  simp only [hl, Except.ok.injEq] at hsub; subst hsub
                  exact dictLookup_sem w env k kvl hkc hkind ks vs kv vv r x hc hkv hvv hd hl
              · simp [hcc] at hsub
          · simp [hcl] at h
        · simp [hlen] at h
  · simp [hc] at hd

theorem rule_dict_attr (w : World) (env : Env) (ks vs : List Expr) (a : String) (r : Expr) (v : Val)
    (hd : dictLookup ks vs (.str a) = some r)
    (h : denLz w (.attr (.dict ks vs) a) env = .ok v) : denLz w r env = .ok v := by
  apply rule_dict_key w env ks vs (.str a) r v (Or.inl ⟨a, rfl⟩) hd
  simp only [denLz] at h ⊢
  cases hdv : (do
      let kv ← evalAll (denLLz w ks) env
      let vv ← evalAll (denLLz w vs) env
      if kv.length = vv.length then mkDictLz kv vv else Except.error EErr.arity) with
  | error e => rw [hdv] at h; simp [bind, Except.bind] at h
  | ok d =>
    rw [hdv] at h
    simp only [bind, Except.bind, constVal] at h ⊢
    -- the dictionary value: attribute access on it is the lookup of the string key
    have hdict : ∃ kv vv, d = .dict kv vv ∧ Val.cleanL kv = true := by
      cases hkv : evalAll (denLLz w ks) env with
      | error e => simp [hkv, bind, Except.bind] at hdv
      | ok kv =>
        cases hvv : evalAll (denLLz w vs) env with
        | error e => simp [hkv, hvv, bind, Except.bind] at hdv
        | ok vv =>
          simp only [hkv, hvv, bind, Except.bind] at hdv
          by_cases hlen : kv.length = vv.length
          · simp only [hlen, if_true, mkDictLz, mkDict] at hdv
            by_cases hcl : Val.cleanL kv = true
            · simp only [hcl, if_true, Except.ok.injEq] at hdv
              exact ⟨_, _, hdv.symm, dictBuild_clean_keys kv vv [] [] hcl (by simp [Val.cleanL])⟩
            · simp [hcl] at hdv
          · simp [hlen] at hdv
    obtain ⟨kv, vv, rfl, hcl⟩ := hdict
    simp only [getAttrLz, hcl, if_true, getAttr] at h
    have hunf : subscriptLz (.dict kv vv) (.str a) =
        if (Val.str a).clean && Val.cleanL kv then subscript (.dict kv vv) (.str a) else .error uncleanErr := rfl
    rw [hunf]
    simp only [Val.clean, hcl, Bool.and_self, if_true, subscript]
    exact h

end Fadl
