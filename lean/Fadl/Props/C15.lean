/-
  C15 — MetaData extraction and empty-metadata removal are exact.
-/
import Fadl.Model.MetaData
import Fadl.Lemmas.Basic
namespace Fadl

/-! ### declarative specification of extraction -/

mutual
/-- Every `MetaData(src, d, …)` wrapper replaced by (the stripped) `src`; nothing else changes. -/
def stripMD : Expr → Expr
  | .name i => .name i
  | .const c => .const c
  | .attr v a => .attr (stripMD v) a
  | .call f args kwn kwv =>
    if isNameOf "MetaData" f then
      match args with
      | src :: _ :: _ => stripMD src
      | _ => .call f args kwn kwv
    else .call (stripMD f) (stripMDL args) kwn (stripMDL kwv)
  | .lam ps b => .lam ps (stripMD b)
  | .sub v s => .sub (stripMD v) (stripMD s)
  | .tuple es => .tuple (stripMDL es)
  | .list es => .list (stripMDL es)
  | .dict ks vs => .dict (stripMDL ks) (stripMDL vs)
  | .op k args => .op k (stripMDL args)
  | .comp kind e t i ifs a => .comp kind (stripMD e) (stripMD t) (stripMD i) (stripMDL ifs) a
def stripMDL : List Expr → List Expr
  | [] => []
  | e :: es => stripMD e :: stripMDL es
end

mutual
/-- The dictionary arguments of all wrappers, an outer wrapper before the wrappers in its source,
    otherwise in traversal (field) order. -/
def collectMD : Expr → List Expr
  | .name _ => []
  | .const _ => []
  | .attr v _ => collectMD v
  | .call f args _ kwv =>
    if isNameOf "MetaData" f then
      match args with
      | src :: d :: _ => d :: collectMD src
      | _ => []
    else collectMD f ++ collectMDL args ++ collectMDL kwv
  | .lam _ b => collectMD b
  | .sub v s => collectMD v ++ collectMD s
  | .tuple es => collectMDL es
  | .list es => collectMDL es
  | .dict ks vs => collectMDL ks ++ collectMDL vs
  | .op _ args => collectMDL args
  | .comp _ e t i ifs _ => collectMD e ++ collectMD t ++ collectMD i ++ collectMDL ifs
def collectMDL : List Expr → List Expr
  | [] => []
  | e :: es => collectMD e ++ collectMDL es
end

theorem stripMD_call_other {f : Expr} {args : List Expr} {kwn : List String} {kwv : List Expr}
    (h : ¬ isNameOf "MetaData" f = true) :
    stripMD (.call f args kwn kwv) = .call (stripMD f) (stripMDL args) kwn (stripMDL kwv) := by
  rcases args with _ | ⟨a, _ | ⟨b, rest⟩⟩ <;> simp [stripMD, stripMDL, h]

theorem collectMD_call_other {f : Expr} {args : List Expr} {kwn : List String} {kwv : List Expr}
    (h : ¬ isNameOf "MetaData" f = true) :
    collectMD (.call f args kwn kwv) = collectMD f ++ collectMDL args ++ collectMDL kwv := by
  rcases args with _ | ⟨a, _ | ⟨b, rest⟩⟩ <;> simp [collectMD, collectMDL, h]

/-- **C15 (order)**: the dictionary of an outer wrapper precedes those of the wrappers inside its
    source. -/
theorem collectMD_outer_first (src d : Expr) (rest : List Expr) (kwn : List String) (kwv : List Expr) :
    collectMD (.call (.name "MetaData") (src :: d :: rest) kwn kwv) = d :: collectMD src := by
  simp [collectMD, isNameOf]

theorem literalEvalL_append (a b : List Expr) (va vb : List PyVal)
    (ha : literalEvalL a = .ok va) (hb : literalEvalL b = .ok vb) :
    literalEvalL (a ++ b) = .ok (va ++ vb) := by
  induction a generalizing va with
  | nil => simp [literalEvalL] at ha; subst ha; simpa using hb
  | cons e es ih =>
    simp only [literalEvalL, List.cons_append] at ha ⊢
    rw [bind_ok_iff'] at ha
    obtain ⟨v, hv, ha⟩ := ha
    rw [bind_ok_iff'] at ha
    obtain ⟨vs, hvs, ha⟩ := ha
    cases ha
    simp [hv, ih vs hvs, bind, Except.bind, pure, Except.pure]

/-- What `extract_metadata` is specified to return for `e` when started with `acc`. -/
def ExtractSpec (e : Expr) : Prop :=
  ∀ (acc : List PyVal) (e' : Expr) (acc' : List PyVal), extractMD acc e = .ok (e', acc') →
    e' = stripMD e ∧ ∃ vals, literalEvalL (collectMD e) = .ok vals ∧ acc' = acc ++ vals

theorem extractL_spec (es : List Expr) (h : ∀ e ∈ es, ExtractSpec e) :
    ∀ (acc : List PyVal) (es' : List Expr) (acc' : List PyVal), extractMDL acc es = .ok (es', acc') →
      es' = stripMDL es ∧ ∃ vals, literalEvalL (collectMDL es) = .ok vals ∧ acc' = acc ++ vals := by
  induction es with
  | nil =>
    intro acc es' acc' hx
    simp [extractMDL] at hx
    obtain ⟨rfl, rfl⟩ := hx
    exact ⟨rfl, [], rfl, by simp⟩
  | cons e es ih =>
    intro acc es' acc' hx
    simp only [extractMDL] at hx
    rw [bind_ok_iff'] at hx
    obtain ⟨⟨e1, acc1⟩, h1, hx⟩ := hx
    rw [bind_ok_iff'] at hx
    obtain ⟨⟨es1, acc2⟩, h2, hx⟩ := hx
    cases hx
    obtain ⟨rfl, v1, hv1, rfl⟩ := h e (List.mem_cons_self) acc e1 acc1 h1
    obtain ⟨rfl, v2, hv2, rfl⟩ := ih (fun x hx => h x (List.mem_cons_of_mem _ hx)) _ es1 acc2 h2
    exact ⟨rfl, v1 ++ v2, literalEvalL_append _ _ _ _ hv1 hv2, by simp⟩

theorem extract_spec_all : ∀ e, ExtractSpec e := by
  apply Expr.induct_mem
  case name => intro i acc e' acc' h; simp [extractMD] at h; obtain ⟨rfl, rfl⟩ := h; exact ⟨rfl, [], rfl, by simp⟩
  case const => intro c acc e' acc' h; simp [extractMD] at h; obtain ⟨rfl, rfl⟩ := h; exact ⟨rfl, [], rfl, by simp⟩
  case attr =>
    intro v a ih acc e' acc' h
    simp only [extractMD] at h
    rw [bind_ok_iff'] at h
    obtain ⟨⟨v', acc1⟩, hv, h⟩ := h
    cases h
    obtain ⟨rfl, vals, hvals, rfl⟩ := ih acc v' acc1 hv
    exact ⟨rfl, vals, hvals, rfl⟩
  case call =>
    intro f args kwn kwv ihf iha ihk acc e' acc' h
    unfold extractMD at h
    by_cases hmd : isNameOf "MetaData" f = true
    · simp only [hmd, if_true] at h
      cases args with
      | nil => simp at h
      | cons src rest =>
        cases rest with
        | nil => simp at h
        | cons d rest2 =>
          simp only [] at h
          rw [bind_ok_iff'] at h
          obtain ⟨dv, hdv, h⟩ := h
          obtain ⟨rfl, vals, hvals, rfl⟩ := iha src (List.mem_cons_self) _ _ _ h
          refine ⟨by simp [stripMD, hmd], dv :: vals, ?_, by simp⟩
          simp [collectMD, hmd, literalEvalL, hdv, hvals, bind, Except.bind, pure, Except.pure]
    · simp only [hmd, Bool.false_eq_true, if_false] at h
      rw [bind_ok_iff'] at h
      obtain ⟨⟨f1, acc1⟩, h1, h⟩ := h
      rw [bind_ok_iff'] at h
      obtain ⟨⟨a1, acc2⟩, h2, h⟩ := h
      rw [bind_ok_iff'] at h
      obtain ⟨⟨k1, acc3⟩, h3, h⟩ := h
      cases h
      obtain ⟨rfl, v1, hv1, rfl⟩ := ihf _ _ _ h1
      obtain ⟨rfl, v2, hv2, rfl⟩ := extractL_spec args iha _ _ _ h2
      obtain ⟨rfl, v3, hv3, rfl⟩ := extractL_spec kwv ihk _ _ _ h3
      refine ⟨(stripMD_call_other hmd).symm, v1 ++ v2 ++ v3, ?_, by simp⟩
      rw [collectMD_call_other hmd]
      exact literalEvalL_append _ _ _ _ (literalEvalL_append _ _ _ _ hv1 hv2) hv3
  case lam =>
    intro ps b ih acc e' acc' h
    simp only [extractMD] at h
    rw [bind_ok_iff'] at h
    obtain ⟨⟨b', acc1⟩, hb, h⟩ := h
    cases h
    obtain ⟨rfl, vals, hvals, rfl⟩ := ih acc b' acc1 hb
    exact ⟨rfl, vals, hvals, rfl⟩
  case sub =>
    intro v s ihv ihs acc e' acc' h
    simp only [extractMD] at h
    rw [bind_ok_iff'] at h
    obtain ⟨⟨v', acc1⟩, h1, h⟩ := h
    rw [bind_ok_iff'] at h
    obtain ⟨⟨s', acc2⟩, h2, h⟩ := h
    cases h
    obtain ⟨rfl, v1, hv1, rfl⟩ := ihv _ _ _ h1
    obtain ⟨rfl, v2, hv2, rfl⟩ := ihs _ _ _ h2
    exact ⟨rfl, v1 ++ v2, literalEvalL_append _ _ _ _ hv1 hv2, by simp⟩
  case tuple =>
    intro es ih acc e' acc' h
    simp only [extractMD] at h
    rw [bind_ok_iff'] at h
    obtain ⟨⟨es', acc1⟩, h1, h⟩ := h
    cases h
    obtain ⟨rfl, v1, hv1, rfl⟩ := extractL_spec es ih _ _ _ h1
    exact ⟨rfl, v1, hv1, rfl⟩
  case list =>
    intro es ih acc e' acc' h
    simp only [extractMD] at h
    rw [bind_ok_iff'] at h
    obtain ⟨⟨es', acc1⟩, h1, h⟩ := h
    cases h
    obtain ⟨rfl, v1, hv1, rfl⟩ := extractL_spec es ih _ _ _ h1
    exact ⟨rfl, v1, hv1, rfl⟩
  case dict =>
    intro ks vs ihk ihv acc e' acc' h
    simp only [extractMD] at h
    rw [bind_ok_iff'] at h
    obtain ⟨⟨ks', acc1⟩, h1, h⟩ := h
    rw [bind_ok_iff'] at h
    obtain ⟨⟨vs', acc2⟩, h2, h⟩ := h
    cases h
    obtain ⟨rfl, v1, hv1, rfl⟩ := extractL_spec ks ihk _ _ _ h1
    obtain ⟨rfl, v2, hv2, rfl⟩ := extractL_spec vs ihv _ _ _ h2
    exact ⟨rfl, v1 ++ v2, literalEvalL_append _ _ _ _ hv1 hv2, by simp⟩
  case op =>
    intro k args ih acc e' acc' h
    simp only [extractMD] at h
    rw [bind_ok_iff'] at h
    obtain ⟨⟨es', acc1⟩, h1, h⟩ := h
    cases h
    obtain ⟨rfl, v1, hv1, rfl⟩ := extractL_spec args ih _ _ _ h1
    exact ⟨rfl, v1, hv1, rfl⟩
  case comp =>
    intro kind e t i ifs a ihe iht ihi ihifs acc e' acc' h
    simp only [extractMD] at h
    rw [bind_ok_iff'] at h
    obtain ⟨⟨e1, acc1⟩, h1, h⟩ := h
    rw [bind_ok_iff'] at h
    obtain ⟨⟨t1, acc2⟩, h2, h⟩ := h
    rw [bind_ok_iff'] at h
    obtain ⟨⟨i1, acc3⟩, h3, h⟩ := h
    rw [bind_ok_iff'] at h
    obtain ⟨⟨f1, acc4⟩, h4, h⟩ := h
    cases h
    obtain ⟨rfl, v1, hv1, rfl⟩ := ihe _ _ _ h1
    obtain ⟨rfl, v2, hv2, rfl⟩ := iht _ _ _ h2
    obtain ⟨rfl, v3, hv3, rfl⟩ := ihi _ _ _ h3
    obtain ⟨rfl, v4, hv4, rfl⟩ := extractL_spec ifs ihifs _ _ _ h4
    refine ⟨rfl, v1 ++ v2 ++ v3 ++ v4, ?_, by simp⟩
    simp only [collectMD]
    exact literalEvalL_append _ _ _ _ (literalEvalL_append _ _ _ _ (literalEvalL_append _ _ _ _ hv1 hv2) hv3) hv4

/-- **C15 (exactness of extract_metadata)**: whenever `extract_metadata` returns, the tree it
    returns is exactly the input with every wrapper replaced by its source (`stripMD`, nothing else
    changes), and the list is the literal values of all the wrappers' dictionaries, an outer wrapper
    before the wrappers inside its source (`collectMD`). -/
theorem extract_exact (e e' : Expr) (mds : List PyVal) (h : extractMetadata e = .ok (e', mds)) :
    e' = stripMD e ∧ literalEvalL (collectMD e) = .ok mds := by
  obtain ⟨h1, vals, hv, h2⟩ := extract_spec_all e [] e' mds h
  simp at h2
  subst h2
  exact ⟨h1, hv⟩

/-! ### frame and shape of the stripped tree -/

mutual
/-- No call whose callee is the name `MetaData`. -/
def noMDCall : Expr → Bool
  | .name _ => true
  | .const _ => true
  | .attr v _ => noMDCall v
  | .call f args _ kwv => !isNameOf "MetaData" f && noMDCall f && noMDCallL args && noMDCallL kwv
  | .lam _ b => noMDCall b
  | .sub v s => noMDCall v && noMDCall s
  | .tuple es => noMDCallL es
  | .list es => noMDCallL es
  | .dict ks vs => noMDCallL ks && noMDCallL vs
  | .op _ args => noMDCallL args
  | .comp _ e t i ifs _ => noMDCall e && noMDCall t && noMDCall i && noMDCallL ifs
def noMDCallL : List Expr → Bool
  | [] => true
  | e :: es => noMDCall e && noMDCallL es
end

mutual
/-- The name `MetaData` is used only as the callee of a wrapper with at least two arguments. -/
def mdOnlyAsWrapper : Expr → Bool
  | .name i => i != "MetaData"
  | .const _ => true
  | .attr v _ => mdOnlyAsWrapper v
  | .call f args _ kwv =>
    if isNameOf "MetaData" f then decide (2 ≤ args.length) && mdOnlyAsWrapperL args
    else mdOnlyAsWrapper f && mdOnlyAsWrapperL args && mdOnlyAsWrapperL kwv
  | .lam _ b => mdOnlyAsWrapper b
  | .sub v s => mdOnlyAsWrapper v && mdOnlyAsWrapper s
  | .tuple es => mdOnlyAsWrapperL es
  | .list es => mdOnlyAsWrapperL es
  | .dict ks vs => mdOnlyAsWrapperL ks && mdOnlyAsWrapperL vs
  | .op _ args => mdOnlyAsWrapperL args
  | .comp _ e t i ifs _ => mdOnlyAsWrapper e && mdOnlyAsWrapper t && mdOnlyAsWrapper i && mdOnlyAsWrapperL ifs
def mdOnlyAsWrapperL : List Expr → Bool
  | [] => true
  | e :: es => mdOnlyAsWrapper e && mdOnlyAsWrapperL es
end

theorem stripMD_frame_both :
    (∀ e, noMDCall e = true → stripMD e = e) ∧ (∀ es, noMDCallL es = true → stripMDL es = es) := by
  apply Expr.size.mutual_induct
    (motive_1 := fun e => noMDCall e = true → stripMD e = e)
    (motive_2 := fun es => noMDCallL es = true → stripMDL es = es)
  case case4 =>
    intro f args kwn kwv ihf iha ihk h
    simp only [noMDCall, Bool.and_eq_true, Bool.not_eq_true'] at h
    obtain ⟨⟨⟨h0, h1⟩, h2⟩, h3⟩ := h
    rw [stripMD_call_other (by simp [h0]), ihf h1, iha h2, ihk h3]
  all_goals intros
  all_goals simp_all [noMDCall, noMDCallL, stripMD, stripMDL]

/-- **C15 (nothing else changes)**: a query without wrappers is returned unchanged. -/
theorem stripMD_frame (e : Expr) (h : noMDCall e = true) : stripMD e = e := stripMD_frame_both.1 e h

theorem stripMD_isNameOf {e : Expr} (h : mdOnlyAsWrapper e = true) : isNameOf "MetaData" (stripMD e) = false := by
  induction e using Expr.induct_mem with
  | name i => simpa [stripMD, isNameOf, mdOnlyAsWrapper] using h
  | call f args kwn kwv ihf iha ihk =>
    by_cases hmd : isNameOf "MetaData" f = true
    · rcases args with _ | ⟨a, _ | ⟨b, rest⟩⟩
      · simp [mdOnlyAsWrapper, hmd] at h
      · simp [mdOnlyAsWrapper, hmd] at h
      · simp only [stripMD, hmd, if_true]
        apply iha a (List.mem_cons_self)
        simp [mdOnlyAsWrapper, hmd, mdOnlyAsWrapperL] at h
        exact h.1
    · rw [stripMD_call_other hmd]; rfl
  | _ => simp [stripMD, isNameOf]

theorem stripMD_noMD_both :
    (∀ e, mdOnlyAsWrapper e = true → noMDCall (stripMD e) = true) ∧
    (∀ es, mdOnlyAsWrapperL es = true → noMDCallL (stripMDL es) = true) := by
  apply Expr.size.mutual_induct
    (motive_1 := fun e => mdOnlyAsWrapper e = true → noMDCall (stripMD e) = true)
    (motive_2 := fun es => mdOnlyAsWrapperL es = true → noMDCallL (stripMDL es) = true)
  case case4 =>
    intro f args kwn kwv ihf iha ihk h
    by_cases hmd : isNameOf "MetaData" f = true
    · rcases args with _ | ⟨a, _ | ⟨b, rest⟩⟩
      · simp [mdOnlyAsWrapper, hmd] at h
      · simp [mdOnlyAsWrapper, hmd] at h
      · simp only [stripMD, hmd, if_true]
        simp [mdOnlyAsWrapper, hmd, mdOnlyAsWrapperL] at h
        have := iha (by simp [mdOnlyAsWrapperL, h])
        simp [stripMDL, noMDCallL] at this
        exact this.1
    · rw [stripMD_call_other hmd]
      have hmd' : isNameOf "MetaData" f = false := by simpa using hmd
      simp only [mdOnlyAsWrapper, hmd', Bool.false_eq_true, if_false, Bool.and_eq_true] at h
      obtain ⟨⟨h1, h2⟩, h3⟩ := h
      simp [noMDCall, ihf h1, iha h2, ihk h3, stripMD_isNameOf h1]
  all_goals intros
  all_goals simp_all [noMDCall, noMDCallL, stripMD, stripMDL, mdOnlyAsWrapper, mdOnlyAsWrapperL]

/-- **C15 (every wrapper removed)**: if `MetaData` is used only as a wrapper (with its two
    arguments), the extracted query contains no `MetaData` call at any depth. -/
theorem extract_strips_all (e e' : Expr) (mds : List PyVal) (hw : mdOnlyAsWrapper e = true)
    (h : extractMetadata e = .ok (e', mds)) : noMDCall e' = true := by
  rw [(extract_exact e e' mds h).1]
  exact stripMD_noMD_both.1 e hw

/-- Non-vacuity: two nested wrappers (one inside a lambda body) are both extracted, outer first. -/
example :
    extractMetadata (fcall "Select" [fcall "MetaData" [fcall "MetaData" [.name "ds", .dict [.const (.str "a")] [.const (.int 1)]],
        .dict [.const (.str "b")] [.const (.int 2)]],
      .lam ["e"] (fcall "MetaData" [.attr (.name "e") "x", .dict [] []])])
    = .ok (fcall "Select" [.name "ds", .lam ["e"] (.attr (.name "e") "x")],
        [.dict [.str "b"] [.int 2], .dict [.str "a"] [.int 1], .dict [] []]) := by
  rfl

/-! ### remove_empty_metadata -/

/-- `MetaData(src, d)` (exactly two positional arguments) whose dictionary evaluates to `{}`. -/
def isEmptyWrapper (f : Expr) (args : List Expr) : Bool :=
  isNameOf "MetaData" f &&
  match args with
  | [_, d] => (match literalEval d with
    | .ok dv => isEmptyDict dv
    | .error _ => false)
  | _ => false

mutual
def noEmptyWrapper : Expr → Bool
  | .name _ => true
  | .const _ => true
  | .attr v _ => noEmptyWrapper v
  | .call f args _ kwv => !isEmptyWrapper f args && noEmptyWrapper f && noEmptyWrapperL args && noEmptyWrapperL kwv
  | .lam _ b => noEmptyWrapper b
  | .sub v s => noEmptyWrapper v && noEmptyWrapper s
  | .tuple es => noEmptyWrapperL es
  | .list es => noEmptyWrapperL es
  | .dict ks vs => noEmptyWrapperL ks && noEmptyWrapperL vs
  | .op _ args => noEmptyWrapperL args
  | .comp _ e t i ifs _ => noEmptyWrapper e && noEmptyWrapper t && noEmptyWrapper i && noEmptyWrapperL ifs
def noEmptyWrapperL : List Expr → Bool
  | [] => true
  | e :: es => noEmptyWrapper e && noEmptyWrapperL es
end

def RemoveSpec (e : Expr) : Prop :=
  ∀ e', removeEmptyMD e = .ok e' → noEmptyWrapper e' = true ∧ (noEmptyWrapper e = true → e' = e)

theorem removeL_spec (es : List Expr) (h : ∀ e ∈ es, RemoveSpec e) :
    ∀ es', removeEmptyMDL es = .ok es' →
      noEmptyWrapperL es' = true ∧ (noEmptyWrapperL es = true → es' = es) := by
  induction es with
  | nil => intro es' hx; simp [removeEmptyMDL] at hx; subst hx; simp [noEmptyWrapperL]
  | cons e es ih =>
    intro es' hx
    simp only [removeEmptyMDL] at hx
    rw [bind_ok_iff'] at hx
    obtain ⟨e1, h1, hx⟩ := hx
    rw [bind_ok_iff'] at hx
    obtain ⟨es1, h2, hx⟩ := hx
    cases hx
    obtain ⟨a1, a2⟩ := h e (List.mem_cons_self) e1 h1
    obtain ⟨b1, b2⟩ := ih (fun x hx => h x (List.mem_cons_of_mem _ hx)) es1 h2
    refine ⟨by simp [noEmptyWrapperL, a1, b1], ?_⟩
    intro hn
    simp only [noEmptyWrapperL, Bool.and_eq_true] at hn
    rw [a2 hn.1, b2 hn.2]

theorem remove_spec_all : ∀ e, RemoveSpec e := by
  apply Expr.induct_mem
  case name => intro i e' h; simp [removeEmptyMD] at h; subst h; simp [noEmptyWrapper]
  case const => intro c e' h; simp [removeEmptyMD] at h; subst h; simp [noEmptyWrapper]
  case attr =>
    intro v a ih e' h
    simp only [removeEmptyMD] at h
    rw [bind_ok_iff'] at h
    obtain ⟨v', hv, h⟩ := h
    cases h
    obtain ⟨a1, a2⟩ := ih v' hv
    exact ⟨by simpa [noEmptyWrapper] using a1, fun hn => by rw [a2 (by simpa [noEmptyWrapper] using hn)]⟩
  case lam =>
    intro ps b ih e' h
    simp only [removeEmptyMD] at h
    rw [bind_ok_iff'] at h
    obtain ⟨v', hv, h⟩ := h
    cases h
    obtain ⟨a1, a2⟩ := ih v' hv
    exact ⟨by simpa [noEmptyWrapper] using a1, fun hn => by rw [a2 (by simpa [noEmptyWrapper] using hn)]⟩
  case sub =>
    intro v s ihv ihs e' h
    simp only [removeEmptyMD] at h
    rw [bind_ok_iff'] at h
    obtain ⟨v', hv, h⟩ := h
    rw [bind_ok_iff'] at h
    obtain ⟨s', hs, h⟩ := h
    cases h
    obtain ⟨a1, a2⟩ := ihv v' hv
    obtain ⟨b1, b2⟩ := ihs s' hs
    refine ⟨by simp [noEmptyWrapper, a1, b1], fun hn => ?_⟩
    simp only [noEmptyWrapper, Bool.and_eq_true] at hn
    rw [a2 hn.1, b2 hn.2]
  case tuple =>
    intro es ih e' h
    simp only [removeEmptyMD] at h
    rw [bind_ok_iff'] at h
    obtain ⟨es', hes, h⟩ := h
    cases h
    obtain ⟨a1, a2⟩ := removeL_spec es ih es' hes
    exact ⟨by simpa [noEmptyWrapper] using a1, fun hn => by rw [a2 (by simpa [noEmptyWrapper] using hn)]⟩
  case list =>
    intro es ih e' h
    simp only [removeEmptyMD] at h
    rw [bind_ok_iff'] at h
    obtain ⟨es', hes, h⟩ := h
    cases h
    obtain ⟨a1, a2⟩ := removeL_spec es ih es' hes
    exact ⟨by simpa [noEmptyWrapper] using a1, fun hn => by rw [a2 (by simpa [noEmptyWrapper] using hn)]⟩
  case op =>
    intro k es ih e' h
    simp only [removeEmptyMD] at h
    rw [bind_ok_iff'] at h
    obtain ⟨es', hes, h⟩ := h
    cases h
    obtain ⟨a1, a2⟩ := removeL_spec es ih es' hes
    exact ⟨by simpa [noEmptyWrapper] using a1, fun hn => by rw [a2 (by simpa [noEmptyWrapper] using hn)]⟩
  case dict =>
    intro ks vs ihk ihv e' h
    simp only [removeEmptyMD] at h
    rw [bind_ok_iff'] at h
    obtain ⟨ks', hk, h⟩ := h
    rw [bind_ok_iff'] at h
    obtain ⟨vs', hv, h⟩ := h
    cases h
    obtain ⟨a1, a2⟩ := removeL_spec ks ihk ks' hk
    obtain ⟨b1, b2⟩ := removeL_spec vs ihv vs' hv
    refine ⟨by simp [noEmptyWrapper, a1, b1], fun hn => ?_⟩
    simp only [noEmptyWrapper, Bool.and_eq_true] at hn
    rw [a2 hn.1, b2 hn.2]
  case comp =>
    intro kind e t i ifs a ihe iht ihi ihifs e' h
    simp only [removeEmptyMD] at h
    rw [bind_ok_iff'] at h
    obtain ⟨e1, h1, h⟩ := h
    rw [bind_ok_iff'] at h
    obtain ⟨t1, h2, h⟩ := h
    rw [bind_ok_iff'] at h
    obtain ⟨i1, h3, h⟩ := h
    rw [bind_ok_iff'] at h
    obtain ⟨f1, h4, h⟩ := h
    cases h
    obtain ⟨a1, a2⟩ := ihe e1 h1
    obtain ⟨b1, b2⟩ := iht t1 h2
    obtain ⟨c1, c2⟩ := ihi i1 h3
    obtain ⟨d1, d2⟩ := removeL_spec ifs ihifs f1 h4
    refine ⟨by simp [noEmptyWrapper, a1, b1, c1, d1], fun hn => ?_⟩
    simp only [noEmptyWrapper, Bool.and_eq_true] at hn
    rw [a2 hn.1.1.1, b2 hn.1.1.2, c2 hn.1.2, d2 hn.2]
  case call =>
    intro f args kwn kwv ihf iha ihk e' h
    simp only [removeEmptyMD] at h
    rw [bind_ok_iff'] at h
    obtain ⟨f1, h1, h⟩ := h
    rw [bind_ok_iff'] at h
    obtain ⟨a1, h2, h⟩ := h
    rw [bind_ok_iff'] at h
    obtain ⟨k1, h3, h⟩ := h
    obtain ⟨f_ok, f_id⟩ := ihf f1 h1
    obtain ⟨a_ok, a_id⟩ := removeL_spec args iha a1 h2
    obtain ⟨k_ok, k_id⟩ := removeL_spec kwv ihk k1 h3
    -- the generic outcome: the rebuilt call
    have generic : ∀ (hne : isEmptyWrapper f1 a1 = false),
        noEmptyWrapper (.call f1 a1 kwn k1) = true ∧
        (noEmptyWrapper (.call f args kwn kwv) = true → Expr.call f1 a1 kwn k1 = .call f args kwn kwv) := by
      intro hne
      refine ⟨by simp [noEmptyWrapper, hne, f_ok, a_ok, k_ok], fun hn => ?_⟩
      simp only [noEmptyWrapper, Bool.and_eq_true] at hn
      rw [f_id hn.1.1.2, a_id hn.1.2, k_id hn.2]
    by_cases hmd : isNameOf "MetaData" f1 = true
    · simp only [hmd, if_true] at h
      rcases a1 with _ | ⟨src, _ | ⟨d, _ | ⟨x, rest⟩⟩⟩
      · simp [pure, Except.pure] at h; subst h; exact generic (by simp [isEmptyWrapper])
      · simp [pure, Except.pure] at h; subst h; exact generic (by simp [isEmptyWrapper])
      · simp only [] at h
        rw [bind_ok_iff'] at h
        obtain ⟨dv, hdv, h⟩ := h
        by_cases hempty : isEmptyDict dv = true
        · simp [hempty, pure, Except.pure] at h
          subst h
          simp only [noEmptyWrapperL, Bool.and_eq_true] at a_ok
          refine ⟨a_ok.1, fun hn => ?_⟩
          -- the input had no empty wrapper, but this one is: contradiction
          exfalso
          simp only [noEmptyWrapper, Bool.and_eq_true, Bool.not_eq_true'] at hn
          have hf := f_id hn.1.1.2
          have ha := a_id hn.1.2
          rw [← hf, ← ha] at hn
          simp [isEmptyWrapper, hmd, hdv, hempty] at hn
        · simp [hempty, pure, Except.pure] at h
          subst h
          exact generic (by simp [isEmptyWrapper, hmd, hdv, hempty])
      · simp [pure, Except.pure] at h; subst h; exact generic (by simp [isEmptyWrapper])
    · simp [hmd, pure, Except.pure] at h
      subst h
      exact generic (by simp [isEmptyWrapper, hmd])

/-- **C15 (remove_empty_metadata removes every empty wrapper)**, at any depth. -/
theorem removeEmpty_noEmpty (e e' : Expr) (h : removeEmptyMD e = .ok e') : noEmptyWrapper e' = true :=
  (remove_spec_all e e' h).1

/-- **C15 (keeps all others in place)**: a query without empty wrappers is returned unchanged —
    non-empty wrappers and everything else stay exactly where they are. -/
theorem removeEmpty_frame (e e' : Expr) (hn : noEmptyWrapper e = true) (h : removeEmptyMD e = .ok e') :
    e' = e := (remove_spec_all e e' h).2 hn

/-- Applying it twice changes nothing more. -/
theorem removeEmpty_idempotent (e e' e'' : Expr) (h : removeEmptyMD e = .ok e')
    (h' : removeEmptyMD e' = .ok e'') : e'' = e' :=
  removeEmpty_frame e' e'' (removeEmpty_noEmpty e e' h) h'

/-- Non-vacuity: an empty wrapper is removed, the non-empty one around it stays. -/
example :
    removeEmptyMD (fcall "MetaData" [fcall "Select" [fcall "MetaData" [.name "ds", .dict [] []], .lam ["e"] (.name "e")],
        .dict [.const (.str "k")] [.const (.int 1)]])
    = .ok (fcall "MetaData" [fcall "Select" [.name "ds", .lam ["e"] (.name "e")],
        .dict [.const (.str "k")] [.const (.int 1)]]) := by rfl

end Fadl
