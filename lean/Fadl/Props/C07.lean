/-
  C07 — typed call sites are normalised to full positional form.
  Theorems about `fillLoop` / `fillDefaults` (model of _fill_in_default_arguments + _find_keyword).
-/
import Fadl.Model.Follow
import Fadl.Lemmas.Basic
namespace Fadl

/-- the keyword value given for parameter `n`, if any (first occurrence) -/
def kwFirst (n : String) : List String → List Expr → Option Expr
  | k :: ks, v :: vs => if k = n then some v else kwFirst n ks vs
  | _, _ => Option.none

/-- keywords whose name is not `n` (first occurrence of `n` removed) -/
def kwRemove (n : String) : List String → List Expr → List String × List Expr
  | k :: ks, v :: vs => if k = n then (ks, vs) else let (a, b) := kwRemove n ks vs; (k :: a, v :: b)
  | ks, vs => (ks, vs)

theorem findKeyword_eq (n : String) (kwn : List String) (kwv : List Expr) :
    findKeyword n kwn kwv = (kwFirst n kwn kwv).map (fun e => (e, (kwRemove n kwn kwv).1, (kwRemove n kwn kwv).2)) := by
  induction kwn generalizing kwv with
  | nil => cases kwv <;> rfl
  | cons k ks ih =>
    cases kwv with
    | nil => rfl
    | cons v vs =>
      simp only [findKeyword, kwFirst, kwRemove]
      split
      · rfl
      · rw [ih vs]
        cases kwFirst n ks vs <;> rfl

/-- **Python's binding** of the parameters from position `i` on, for a call whose positional
    arguments are exhausted: the keyword of that name if given, else the declared default (as a
    literal), else the call is rejected. -/
def bindRest : List Param → List String → List Expr → Except Err (List Expr × List String × List Expr)
  | [], kwn, kwv => .ok ([], kwn, kwv)
  | p :: ps, kwn, kwv =>
    match kwFirst p.name kwn kwv with
    | some e => do
      let (rest, kn, kv) ← bindRest ps (kwRemove p.name kwn kwv).1 (kwRemove p.name kwn kwv).2
      pure (e :: rest, kn, kv)
    | Option.none =>
      match p.dflt with
      | some c => do
        let (rest, kn, kv) ← bindRest ps kwn kwv
        pure (.const c :: rest, kn, kv)
      | Option.none => .error (.valueError ("Argument " ++ p.name ++ " is required"))

/-- once the positional arguments are used up (`i = args.length`), every remaining parameter is
    appended positionally -/
theorem fillLoop_tail (ps : List Param) (args : List Expr) (kwn : List String) (kwv : List Expr) :
    fillLoop ps args.length args kwn kwv =
      (bindRest ps kwn kwv).map (fun r => (args ++ r.1, r.2.1, r.2.2)) := by
  induction ps generalizing args kwn kwv with
  | nil => simp [fillLoop, bindRest, Except.map]
  | cons p ps ih =>
    simp only [fillLoop, Nat.le_refl, if_true, findKeyword_eq, bindRest]
    cases hk : kwFirst p.name kwn kwv with
    | some e =>
      simp only [Option.map_some]
      have := ih (args ++ [e]) (kwRemove p.name kwn kwv).1 (kwRemove p.name kwn kwv).2
      simp only [List.length_append, List.length_singleton] at this
      rw [this]
      cases bindRest ps (kwRemove p.name kwn kwv).1 (kwRemove p.name kwn kwv).2 with
      | error e => rfl
      | ok r => simp [Except.map, bind, Except.bind, pure, Except.pure]
    | none =>
      simp only [Option.map_none]
      cases hd : p.dflt with
      | none => rfl
      | some c =>
        simp only []
        have := ih (args ++ [.const c]) kwn kwv
        simp only [List.length_append, List.length_singleton] at this
        rw [this]
        cases bindRest ps kwn kwv with
        | error e => rfl
        | ok r => simp [Except.map, bind, Except.bind, pure, Except.pure]

/-- parameters that already have a positional argument are skipped -/
theorem fillLoop_skip (ps : List Param) (i : Nat) (args : List Expr) (kwn : List String) (kwv : List Expr)
    (h : i + ps.length ≤ args.length) (rest : List Param) :
    fillLoop (ps ++ rest) i args kwn kwv = fillLoop rest (i + ps.length) args kwn kwv := by
  induction ps generalizing i with
  | nil => simp
  | cons p ps ih =>
    simp only [List.length_cons] at h
    simp only [List.cons_append, fillLoop]
    rw [if_neg (by omega), ih (i + 1) (by omega)]
    congr 1
    simp only [List.length_cons]; omega

/-- **C07 (normal form)**: for a call with `args.length ≤ params.length` positional arguments, the
    normalised call has the positional arguments the user wrote followed, in declaration order, by
    what Python's binding gives for every further parameter — the keyword value if given, else the
    declared default — and the keywords that were consumed are gone.  A parameter with neither is a
    ValueError. -/
theorem fill_matches_bind (params : List Param) (args : List Expr) (kwn : List String) (kwv : List Expr)
    (h : args.length ≤ params.length) :
    fillLoop params 0 args kwn kwv =
      (bindRest (params.drop args.length) kwn kwv).map (fun r => (args ++ r.1, r.2.1, r.2.2)) := by
  have hsplit : params = params.take args.length ++ params.drop args.length := (List.take_append_drop _ _).symm
  have hlen : (params.take args.length).length = args.length := by simp; omega
  rw [hsplit, fillLoop_skip (params.take args.length) 0 args kwn kwv (by omega)]
  rw [← hsplit]
  simp only [Nat.zero_add, hlen]
  exact fillLoop_tail _ args kwn kwv

/-- **C07 (missing required parameter)** -/
theorem fill_missing_required (p : Param) (ps : List Param) (kwn : List String) (kwv : List Expr)
    (hk : kwFirst p.name kwn kwv = Option.none) (hd : p.dflt = Option.none) :
    ∃ t, bindRest (p :: ps) kwn kwv = .error (.valueError t) := by
  simp [bindRest, hk, hd]

/-- every keyword given for a further parameter ends up at that parameter's position
    (instance of `fill_matches_bind`, by computation) -/
example :
    fillLoop [⟨"a", Option.none⟩, ⟨"b", some (.int 5)⟩, ⟨"c", some (.str "x")⟩] 0 [.name "u"] ["c"] [.name "w"] =
      .ok ([.name "u", .const (.int 5), .name "w"], [], []) := by rfl
example :
    fillLoop [⟨"a", Option.none⟩, ⟨"b", some (.int 5)⟩] 0 [] ["b", "a"] [.name "v", .name "u"] =
      .ok ([.name "u", .name "v"], [], []) := by rfl

/-- the library's own stream operators inside lambdas keep exactly the arguments the user wrote:
    their only further parameter is the internal `known_types`, which `fillDefaults` skips -/
theorem operators_untouched (f lam : Expr) (pname : String) :
    fillDefaults [⟨pname, Option.none⟩, ⟨"known_types", some (.opaque "dict")⟩] f [lam] [] [] = .ok (.call f [lam] [] []) := by
  by_cases h : pname = "known_types"
  · subst h; simp [fillDefaults, fillLoop, List.filter, pure, Except.pure, bind, Except.bind]
  · have : (pname != "known_types") = true := by simpa using h
    simp [fillDefaults, fillLoop, List.filter, this, pure, Except.pure, bind, Except.bind]

end Fadl
