/-
  C05 — captured one-line helper functions are inlined faithfully.
  (The semantic theorem lives in Fadl/Props/C05Sem.lean.)
-/
import Fadl.Model.Capture
import Fadl.Scope
import Std.Data.String.ToNat
namespace Fadl

mutual
/-- no call whose callee is a lambda literal -/
def noCalledLam : Expr → Bool
  | .name _ => true
  | .const _ => true
  | .attr v _ => noCalledLam v
  | .call f args _ kwv =>
    (match f with
     | .lam _ _ => false
     | _ => true) && noCalledLam f && noCalledLamL args && noCalledLamL kwv
  | .lam _ b => noCalledLam b
  | .sub v s => noCalledLam v && noCalledLam s
  | .tuple es => noCalledLamL es
  | .list es => noCalledLamL es
  | .dict ks vs => noCalledLamL ks && noCalledLamL vs
  | .op _ args => noCalledLamL args
  | .comp _ e t i ifs _ => noCalledLam e && noCalledLam t && noCalledLam i && noCalledLamL ifs
def noCalledLamL : List Expr → Bool
  | [] => true
  | e :: es => noCalledLam e && noCalledLamL es
end

/-- a stack that substitutes nothing (only hiding frames) -/
def inertStack (st : List Frame) : Prop := ∀ f ∈ st, ∀ p ∈ f, p.2 = Option.none

theorem inert_frameGet {f : Frame} (h : ∀ p ∈ f, p.2 = Option.none) (x : String) (e : Expr) :
    frameGet x f ≠ some (some e) := by
  induction f with
  | nil => simp [frameGet]
  | cons p rest ih =>
    obtain ⟨k, v⟩ := p
    simp only [frameGet]
    split
    · have := h (k, v) List.mem_cons_self
      simp only [] at this
      subst this; simp
    · exact ih (fun q hq => h q (List.mem_cons_of_mem _ hq))

theorem inert_stackGet {st : List Frame} (h : inertStack st) (x : String) (e : Expr) : stackGet x st ≠ some (some e) := by
  induction st with
  | nil => simp [stackGet]
  | cons f rest ih =>
    simp only [stackGet]
    cases hf : frameGet x f with
    | none => exact ih (fun g hg => h g (List.mem_cons_of_mem _ hg))
    | some r =>
      simp only []
      intro hc
      cases hc
      exact inert_frameGet (h f List.mem_cons_self) x e hf

theorem inert_activeNames {st : List Frame} (h : inertStack st) : activeNames st = [] := by
  unfold activeNames
  rw [List.flatMap_eq_nil_iff]
  intro f hf
  rw [List.flatMap_eq_nil_iff]
  intro p hp
  rw [h f hf p hp]

theorem hideLoop_nil (names taken : List String) : hideLoop [] names taken = (names, hideFrame names) := by
  induction names generalizing taken with
  | nil => rfl
  | cons n ns ih => simp [hideLoop, ih, hideFrame]

/-- with nothing being substituted, hiding renames nothing -/
theorem hideRename_inert {st : List Frame} (h : inertStack st) (names body : List String) :
    hideRename st names body = (names, hideFrame names) := by
  simp [hideRename, inert_activeNames h, hideLoop_nil]

theorem inert_push_hide (st : List Frame) (names : List String) (h : inertStack st) :
    inertStack (hideFrame names :: st) := by
  intro f hf p hp
  rcases List.mem_cons.mp hf with rfl | hf'
  · simp only [hideFrame, List.mem_map] at hp
    obtain ⟨n, _, rfl⟩ := hp
    rfl
  · exact h f hf' p hp

theorem renameTarget_id_both :
    (∀ (t : Expr) (names : List String), renameTarget (names.zip names) t = t) ∧
    (∀ (ts : List Expr) (names : List String), renameTargetL (names.zip names) ts = ts) := by
  have hl : ∀ (names : List String) (x : String), ((names.zip names).lookup x).getD x = x := by
    intro names x
    induction names with
    | nil => rfl
    | cons n ns ih =>
      simp only [List.zip_cons_cons, List.lookup_cons]
      by_cases hx : x = n
      · subst hx; simp
      · have : (x == n) = false := by simpa using hx
        simp [this, ih]
  apply Expr.size.mutual_induct
    (motive_1 := fun t => ∀ (names : List String), renameTarget (names.zip names) t = t)
    (motive_2 := fun ts => ∀ (names : List String), renameTargetL (names.zip names) ts = ts)
  all_goals intros
  all_goals simp_all [renameTarget, renameTargetL]

/-- **C05 (frame)**: an expression without called lambdas is left exactly as it is (whatever is
    hidden); in particular a helper that cannot be inlined — it stayed a *name* — is left as a call
    by name, arguments untouched. -/
theorem resolveCalled_frame_both :
    (∀ (e : Expr) (st : List Frame), inertStack st → noCalledLam e = true → resolveCalled st e = e) ∧
    (∀ (es : List Expr) (st : List Frame), inertStack st → noCalledLamL es = true → resolveCalledL st es = es) := by
  apply Expr.size.mutual_induct
    (motive_1 := fun e => ∀ (st : List Frame), inertStack st → noCalledLam e = true → resolveCalled st e = e)
    (motive_2 := fun es => ∀ (st : List Frame), inertStack st → noCalledLamL es = true → resolveCalledL st es = es)
  case case1 =>
    intro x st hst _
    simp only [resolveCalled]
    cases h : stackGet x st with
    | none => rfl
    | some r => cases r with
      | none => rfl
      | some e => exact absurd h (inert_stackGet hst x e)
  case case4 =>
    intro f args kwn kwv ihf iha ihk st hst h
    simp only [noCalledLam, Bool.and_eq_true] at h
    obtain ⟨⟨⟨h0, h1⟩, h2⟩, h3⟩ := h
    have hf := ihf st hst h1
    have ha := iha st hst h2
    have hk := ihk st hst h3
    cases f with
    | lam ps b => simp at h0
    | name x => simp only [resolveCalled] at hf ⊢; rw [hf, ha, hk]
    | _ => simp only [resolveCalled] at hf ⊢; simp only [resolveCalled, ha, hk, hf] <;> simp_all [resolveCalled]
  case case5 =>
    intro ps b ih st hst h
    simp only [resolveCalled, hideRename_inert hst]
    rw [ih _ (inert_push_hide st ps hst) (by simpa [noCalledLam] using h)]
  case case11 =>
    intro kind e t i ifs a ihe _ ihi ihifs st hst h
    simp only [noCalledLam, Bool.and_eq_true] at h
    simp only [resolveCalled, hideRename_inert hst]
    rw [ihe _ (inert_push_hide st _ hst) h.1.1.1, ihi st hst h.1.2, ihifs _ (inert_push_hide st _ hst) h.2,
      renameTarget_id_both.1]
  all_goals intros
  all_goals simp_all [resolveCalled, resolveCalledL, noCalledLam, noCalledLamL]

theorem resolveCalled_frame (e : Expr) (h : noCalledLam e = true) : resolveCalled [] e = e :=
  resolveCalled_frame_both.1 e [] (by intro f hf; cases hf) h

/-- **C05 (helpers that cannot be inlined)**: a called lambda whose parameter count differs from the
    number of positional arguments stays a call of that lambda; its body and arguments are still
    resolved (the lambda's own parameters hiding outer arguments). -/
theorem uninlinable_left (st : List Frame) (ps : List String) (b : Expr) (args : List Expr)
    (kwn : List String) (kwv : List Expr) (h : ps.length ≠ args.length) :
    resolveCalled st (.call (.lam ps b) args kwn kwv) =
      .call (.lam (hideRename st ps (allNames b)).1 (resolveCalled ((hideRename st ps (allNames b)).2 :: st) b))
        (resolveCalledL st args) (kwn.map (fun k => ((ps.zip (hideRename st ps (allNames b)).1).lookup k).getD k))
        (resolveCalledL st kwv) := by
  simp [resolveCalled, h]

/-! ### capture avoidance -/

theorem freshCand_injective (x : String) {i j : Nat} (h : x ++ "_" ++ toString (i + 1) = x ++ "_" ++ toString (j + 1)) :
    i = j := by
  have h1 : toString (i + 1) = toString (j + 1) := by
    have := congrArg String.toList h
    simp only [String.toList_append, List.append_cancel_left_eq] at this
    exact String.toList_inj.mp this
  have := Nat.repr_injective h1
  omega

/-- `x_1, x_2, …`: one of the first `n + 1` candidates is not among `n` taken names -/
theorem freshLocal_fresh (x : String) (taken : List String) : freshLocal x taken ∉ taken := by
  unfold freshLocal
  cases h : ((List.range (taken.length + 1)).map (fun i => x ++ "_" ++ toString (i + 1))).find? (fun c => !taken.contains c) with
  | some c =>
    have := List.find?_some h
    simpa using this
  | none =>
    exfalso
    rw [List.find?_eq_none] at h
    have hsub : ((List.range (taken.length + 1)).map (fun i => x ++ "_" ++ toString (i + 1))) ⊆ taken := by
      intro c hc
      have := h c hc
      simpa using this
    have hnd : ((List.range (taken.length + 1)).map (fun i => x ++ "_" ++ toString (i + 1))).Nodup := by
      unfold List.Nodup
      refine List.Pairwise.map _ ?_ (List.nodup_range (n := taken.length + 1))
      intro i j hij hc
      exact hij (freshCand_injective x hc)
    have := hnd.length_le_of_subset hsub
    simp only [List.length_map, List.length_range] at this
    omega

/-- **C05 (no capture of arguments)**: after `_visit_hiding`, no local name is a name that an argument being substituted
    mentions: locals that were are renamed to names that are not (and not to each other, nor to a name the body uses) -/
theorem hideLoop_avoids (used : List String) : ∀ (names taken : List String), (∀ u ∈ used, u ∈ taken) →
    ∀ n' ∈ (hideLoop used names taken).1, n' ∉ used := by
  intro names
  induction names with
  | nil => intro taken _ n' hn'; simp [hideLoop] at hn'
  | cons n ns ih =>
    intro taken hsub n' hn'
    simp only [hideLoop] at hn'
    split at hn'
    · simp only [List.mem_cons] at hn'
      rcases hn' with rfl | hn'
      · intro hu
        exact freshLocal_fresh n taken (hsub _ hu)
      · exact ih (freshLocal n taken :: taken) (fun u hu => List.mem_cons_of_mem _ (hsub u hu)) n' hn'
    · rename_i hnu
      simp only [List.mem_cons] at hn'
      rcases hn' with rfl | hn'
      · simpa using hnu
      · exact ih taken hsub n' hn'

theorem hideRename_avoids (st : List Frame) (names body : List String) :
    ∀ n' ∈ (hideRename st names body).1, n' ∉ activeNames st := by
  intro n' hn'
  exact hideLoop_avoids (activeNames st) names _ (fun u hu => by simp [hu]) n' hn'

/-- a renamed local does not collide with a name the body mentions either (it would capture that one instead) -/
theorem hideLoop_new_not_taken (used : List String) : ∀ (names taken : List String) (n n' : String),
    (n, some (Expr.name n')) ∈ (hideLoop used names taken).2 → n' ∉ taken := by
  intro names
  induction names with
  | nil => intro taken n n' h; simp [hideLoop] at h
  | cons m ms ih =>
    intro taken n n' h
    simp only [hideLoop] at h
    split at h
    · simp only [List.mem_cons, Prod.mk.injEq, Option.some.injEq, Expr.name.injEq] at h
      rcases h with ⟨_, rfl⟩ | h
      · exact freshLocal_fresh m taken
      · intro ht
        exact ih (freshLocal m taken :: taken) n n' h (List.mem_cons_of_mem _ ht)
    · simp only [List.mem_cons, Prod.mk.injEq, reduceCtorEq, and_false, false_or] at h
      exact ih taken n n' h

/-- a body that is just a parameter -/
example : resolveCalled [] (.call (.lam ["x"] (.name "x")) [.attr (.name "e") "met"] [] []) = .attr (.name "e") "met" := by rfl
/-- a nested lambda re-using the parameter name keeps its own variable -/
example : resolveCalled [] (.call (.lam ["x"] (mcall (.name "s") "Select" [.lam ["x"] (.op (.bin "Add") [.name "x", .name "x"])])) [.name "y"] [] [])
    = mcall (.name "s") "Select" [.lam ["x"] (.op (.bin "Add") [.name "x", .name "x"])] := by rfl
/-- helper calling a further (inlinable) helper -/
example : resolveCalled [] (.call (.lam ["a"] (.call (.lam ["b"] (.op (.bin "Mult") [.name "b", .const (.int 2)])) [.op (.bin "Add") [.name "a", .const (.int 1)]] [] [])) [.name "z"] [] [])
    = .op (.bin "Mult") [.op (.bin "Add") [.name "z", .const (.int 1)], .const (.int 2)] := by rfl

end Fadl
