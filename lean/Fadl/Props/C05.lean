/-
  C05 — captured one-line helper functions are inlined faithfully.
  (The semantic theorem lives in Fadl/Props/C05Sem.lean.)
-/
import Fadl.Model.Capture
import Fadl.Scope
namespace Fadl

mutual
/-- no call whose callee is a lambda literal -/
def noCalledLam : Expr → Bool
  | .name _ => true
  | .const _ => true
  | .attr v _ => noCalledLam v
  | .call f args _ kwv =>
    (match f with
     | .lam _ _ => false
     | _ => true) && noCalledLam f && noCalledLamL args && noCalledLamL kwv
  | .lam _ b => noCalledLam b
  | .sub v s => noCalledLam v && noCalledLam s
  | .tuple es => noCalledLamL es
  | .list es => noCalledLamL es
  | .dict ks vs => noCalledLamL ks && noCalledLamL vs
  | .op _ args => noCalledLamL args
  | .comp _ e t i ifs _ => noCalledLam e && noCalledLam t && noCalledLam i && noCalledLamL ifs
def noCalledLamL : List Expr → Bool
  | [] => true
  | e :: es => noCalledLam e && noCalledLamL es
end

/-- a stack that substitutes nothing (only hiding frames) -/
def inertStack (st : List Frame) : Prop := ∀ x e, stackGet x st ≠ some (some e)

theorem inert_push_hide (st : List Frame) (names : List String) (h : inertStack st) :
    inertStack (hideFrame names :: st) := by
  intro x e
  simp only [stackGet]
  cases hf : frameGet x (hideFrame names) with
  | none => exact h x e
  | some r =>
    simp only []
    have : r = Option.none := by
      clear h
      induction names with
      | nil => simp [hideFrame, frameGet] at hf
      | cons n ns ih =>
        simp only [hideFrame, List.map, frameGet] at hf
        split at hf
        · simp at hf; exact hf.symm
        · exact ih hf
    rw [this]; simp

/-- **C05 (frame)**: an expression without called lambdas is left exactly as it is (whatever is
    hidden); in particular a helper that cannot be inlined — it stayed a *name* — is left as a call
    by name, arguments untouched. -/
theorem resolveCalled_frame_both :
    (∀ (e : Expr) (st : List Frame), inertStack st → noCalledLam e = true → resolveCalled st e = e) ∧
    (∀ (es : List Expr) (st : List Frame), inertStack st → noCalledLamL es = true → resolveCalledL st es = es) := by
  apply Expr.size.mutual_induct
    (motive_1 := fun e => ∀ (st : List Frame), inertStack st → noCalledLam e = true → resolveCalled st e = e)
    (motive_2 := fun es => ∀ (st : List Frame), inertStack st → noCalledLamL es = true → resolveCalledL st es = es)
  case case1 =>
    intro x st hst _
    simp only [resolveCalled]
    cases h : stackGet x st with
    | none => rfl
    | some r => cases r with
      | none => rfl
      | some e => exact absurd h (hst x e)
  case case4 =>
    intro f args kwn kwv ihf iha ihk st hst h
    simp only [noCalledLam, Bool.and_eq_true] at h
    obtain ⟨⟨⟨h0, h1⟩, h2⟩, h3⟩ := h
    have hf := ihf st hst h1
    have ha := iha st hst h2
    have hk := ihk st hst h3
    cases f with
    | lam ps b => simp at h0
    | name x => simp only [resolveCalled] at hf ⊢; rw [hf, ha, hk]
    | _ => simp only [resolveCalled] at hf ⊢; simp only [resolveCalled, ha, hk, hf] <;> simp_all [resolveCalled]
  case case5 =>
    intro ps b ih st hst h
    simp only [resolveCalled]
    rw [ih _ (inert_push_hide st ps hst) (by simpa [noCalledLam] using h)]
  case case11 =>
    intro kind e t i ifs a ihe _ ihi ihifs st hst h
    simp only [noCalledLam, Bool.and_eq_true] at h
    simp only [resolveCalled]
    rw [ihe _ (inert_push_hide st _ hst) h.1.1.1, ihi st hst h.1.2, ihifs _ (inert_push_hide st _ hst) h.2]
  all_goals intros
  all_goals simp_all [resolveCalled, resolveCalledL, noCalledLam, noCalledLamL]

theorem resolveCalled_frame (e : Expr) (h : noCalledLam e = true) : resolveCalled [] e = e :=
  resolveCalled_frame_both.1 e [] (by intro x e; simp [stackGet]) h

/-- **C05 (helpers that cannot be inlined)**: a called lambda whose parameter count differs from the
    number of positional arguments stays a call of that lambda; its body and arguments are still
    resolved (the lambda's own parameters hiding outer arguments). -/
theorem uninlinable_left (st : List Frame) (ps : List String) (b : Expr) (args : List Expr)
    (kwn : List String) (kwv : List Expr) (h : ps.length ≠ args.length) :
    resolveCalled st (.call (.lam ps b) args kwn kwv) =
      .call (.lam ps (resolveCalled (hideFrame ps :: st) b)) (resolveCalledL st args) kwn (resolveCalledL st kwv) := by
  simp [resolveCalled, h]

/-- a body that is just a parameter -/
example : resolveCalled [] (.call (.lam ["x"] (.name "x")) [.attr (.name "e") "met"] [] []) = .attr (.name "e") "met" := by rfl
/-- a nested lambda re-using the parameter name keeps its own variable -/
example : resolveCalled [] (.call (.lam ["x"] (mcall (.name "s") "Select" [.lam ["x"] (.op (.bin "Add") [.name "x", .name "x"])])) [.name "y"] [] [])
    = mcall (.name "s") "Select" [.lam ["x"] (.op (.bin "Add") [.name "x", .name "x"])] := by rfl
/-- helper calling a further (inlinable) helper -/
example : resolveCalled [] (.call (.lam ["a"] (.call (.lam ["b"] (.op (.bin "Mult") [.name "b", .const (.int 2)])) [.op (.bin "Add") [.name "a", .const (.int 1)]] [] [])) [.name "z"] [] [])
    = .op (.bin "Mult") [.op (.bin "Add") [.name "z", .const (.int 1)], .const (.int 2)] := by rfl

end Fadl
