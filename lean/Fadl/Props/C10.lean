/-
  C10 — untyped queries pass through unchanged; refusals are explicit.
  (First layer: leaf forms and un-registered calls; the theorem for the whole grammar is
  Fadl/Props/C10Full.lean.)
-/
import Fadl.Model.Follow
namespace Fadl

/-- the follower leaves a name alone, records no effect, and gives it the type the environment has
    for it (Any when it has none and it is not a registered function) -/
theorem follow_name (M : Model) (fuel : Nat) (G : Gamma) (st : FSt) (x : String) :
    ∃ t, follow M (fuel + 1) G st (.name x) = .ok ⟨.name x, t, st, []⟩ := by
  simp only [follow]
  split
  · exact ⟨_, rfl⟩
  · split <;> exact ⟨_, rfl⟩

theorem follow_const (M : Model) (fuel : Nat) (G : Gamma) (st : FSt) (c : Const) :
    follow M (fuel + 1) G st (.const c) = .ok ⟨.const c, constTy c, st, []⟩ := by
  simp only [follow]

/-- a lambda that is not the argument of a collection operator is not looked into -/
theorem follow_lambda (M : Model) (fuel : Nat) (G : Gamma) (st : FSt) (ps : List String) (b : Expr) :
    follow M (fuel + 1) G st (.lam ps b) = .ok ⟨.lam ps b, .callable, st, []⟩ := by
  simp only [follow]

/-- `_fill_in_default_arguments` on a call that already has every parameter positionally: unchanged -/
theorem fillLoop_complete (ps : List Param) (i : Nat) (args : List Expr) (kwn : List String) (kwv : List Expr)
    (h : i + ps.length ≤ args.length) : fillLoop ps i args kwn kwv = .ok (args, kwn, kwv) := by
  induction ps generalizing i with
  | nil => rfl
  | cons p ps ih =>
    simp only [List.length_cons] at h
    simp only [fillLoop]
    rw [if_neg (by omega)]
    exact ih (i + 1) (by omega)

end Fadl
