/-
  C02 — chained-call simplification preserves query results.
  First layer: the building blocks (fresh-name supply, identity elimination, the meaning of the
  deferred-execution operators).  The theorem for the whole simplifier is being developed in
  Fadl/Props/C02Sound.lean.
-/
import Fadl.Model.Simplify
import Fadl.SemLazy
import Fadl.Lemmas.Basic
namespace Fadl

/-! ### the supply of fresh names -/

theorem freshNames_length (c n : Nat) : (freshNames c n).length = n := by
  induction n generalizing c with
  | zero => rfl
  | succ n ih => simp [freshNames, ih]

/-- `make_args_unique` uses exactly one fresh name per parameter and advances the counter past them -/
theorem makeArgsUnique_counter (ps : List String) (b : Expr) (c : Nat) :
    (makeArgsUnique ps b c).2.2 = c + ps.length ∧ (makeArgsUnique ps b c).1.length = ps.length := by
  simp [makeArgsUnique, freshNames_length]

theorem freshNames_mem (c n : Nat) (x : String) (h : x ∈ freshNames c n) : ∃ k, c ≤ k ∧ k < c + n ∧ x = argName k := by
  induction n generalizing c with
  | zero => simp [freshNames] at h
  | succ n ih =>
    simp only [freshNames, List.mem_cons] at h
    rcases h with h | h
    · exact ⟨c, Nat.le_refl _, by omega, h⟩
    · obtain ⟨k, h1, h2, h3⟩ := ih (c + 1) h
      exact ⟨k, by omega, by omega, h3⟩

/-! ### identity elimination (`make_Select`) is value preserving under deferred execution -/

theorem lambdaIsIdentity_sound (l : Expr) (h : lambdaIsIdentity l = true) : ∃ x, l = .lam [x] (.name x) := by
  unfold lambdaIsIdentity at h
  split at h
  · rename_i x y
    simp only [beq_iff_eq] at h
    exact ⟨x, by rw [h]⟩
  · cases h

theorem lazyElem_force (v : Val) : lazyElem (force v) = v := by
  cases v <;> rfl

theorem map_lazyElem_force (vs : List Val) : vs.map (fun v => lazyElem (force v)) = vs := by
  induction vs with
  | nil => rfl
  | cons v vs ih => simp [lazyElem_force, ih]

/-- `Select(src, lambda x: x)` has the value of `src` (whenever `src` is a sequence) -/
theorem select_identity_sem (w : World) (env : Env) (src : Expr) (x : String) (vs : List Val)
    (h : evLz w env src = .ok (.list vs)) :
    evLz w env (fcall "Select" [src, .lam [x] (.name x)]) = .ok (.list vs) := by
  unfold evLz at h ⊢
  have hb : "Select" ∈ builtinOps := by decide
  simp only [fcall, denLz, denHeadLz, denLLz, denLamLLz, denLamLz, callSemLz, List.tail_cons, fnCallLz, hb, if_true, h,
    bind, Except.bind, asSeq, seqOp2Lz, applyLam1]
  congr 2
  clear h
  induction vs with
  | nil => rfl
  | cons v vs ih =>
    rw [List.map_cons, ih]
    congr 1
    cases v <;> simp [force, lazyElem, Env.upd]

/-- **make_Select is sound**: dropping an identity `Select` does not change the value -/
theorem makeSelect_sem (w : World) (env : Env) (src sel : Expr) (vs : List Val)
    (hsrc : evLz w env src = .ok (.list vs)) (hid : lambdaIsIdentity sel = true) :
    evLz w env (makeSelect src sel) = evLz w env (fcall "Select" [src, sel]) := by
  obtain ⟨x, rfl⟩ := lambdaIsIdentity_sound sel hid
  simp only [makeSelect, hid, if_true]
  rw [hsrc, select_identity_sem w env src x vs hsrc]

end Fadl
