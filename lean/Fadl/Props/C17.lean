/-
  C17 — method form and function form are interchangeable.
  Theorems about `toCalls` (model of change_extension_functions_to_calls).
-/
import Fadl.Sem
namespace Fadl

/-! ### helper predicates -/

mutual
/-- No method-form call `x.Op(..)` with `Op ∈ opNames` anywhere in the tree. -/
def noMethodOps : Expr → Bool
  | .name _ => true
  | .const _ => true
  | .attr v _ => noMethodOps v
  | .call f args _ kwv =>
    (match f with
     | .attr _ a => !(a ∈ opNames)
     | _ => true) && noMethodOps f && noMethodOpsL args && noMethodOpsL kwv
  | .lam _ b => noMethodOps b
  | .sub v s => noMethodOps v && noMethodOps s
  | .tuple es => noMethodOpsL es
  | .list es => noMethodOpsL es
  | .dict ks vs => noMethodOpsL ks && noMethodOpsL vs
  | .op _ args => noMethodOpsL args
  | .comp _ e t i ifs _ => noMethodOps e && noMethodOps t && noMethodOps i && noMethodOpsL ifs
def noMethodOpsL : List Expr → Bool
  | [] => true
  | e :: es => noMethodOps e && noMethodOpsL es
end

/-! ### frame: nothing to rewrite ⇒ nothing changes -/

theorem toCalls_frame_both :
    (∀ e : Expr, noMethodOps e = true → toCalls e = e) ∧
    (∀ es : List Expr, noMethodOpsL es = true → toCallsL es = es) := by
  apply Expr.size.mutual_induct
    (motive_1 := fun e => noMethodOps e = true → toCalls e = e)
    (motive_2 := fun es => noMethodOpsL es = true → toCallsL es = es)
  all_goals intros
  all_goals simp_all [noMethodOps, noMethodOpsL, toCalls, toCallsL]
  -- call case
  rename_i f args kwn kwv ihf iha ihk h
  obtain ⟨⟨⟨h1, h2⟩, h3⟩, h4⟩ := h
  cases f <;> simp_all [toCalls]

/-- **C17 frame**: a query without any method-form operator call is returned unchanged. -/
theorem toCalls_frame (e : Expr) (h : noMethodOps e = true) : toCalls e = e :=
  toCalls_frame_both.1 e h

/-! ### the result contains no method-form operator call -/

theorem toCalls_no_method_ops_both :
    (∀ e : Expr, noMethodOps (toCalls e) = true) ∧
    (∀ es : List Expr, noMethodOpsL (toCallsL es) = true) := by
  apply Expr.size.mutual_induct
    (motive_1 := fun e => noMethodOps (toCalls e) = true)
    (motive_2 := fun es => noMethodOpsL (toCallsL es) = true)
  all_goals intros
  all_goals simp_all [noMethodOps, noMethodOpsL, toCalls, toCallsL]
  -- call case
  rename_i f args kwn kwv ihf iha ihk
  split
  · rename_i v a heq
    rw [heq] at ihf
    split
    · simp_all [fcall, noMethodOps, noMethodOpsL]
    · simp_all [noMethodOps]
  · rename_i f' hne
    simp_all [noMethodOps]

/-- **C17**: the result contains no remaining method-form operator call. -/
theorem toCalls_no_method_ops (e : Expr) : noMethodOps (toCalls e) = true :=
  toCalls_no_method_ops_both.1 e

/-- **C17**: applying the function again changes nothing. -/
theorem toCalls_idempotent (e : Expr) : toCalls (toCalls e) = toCalls e :=
  toCalls_frame _ (toCalls_no_method_ops e)

theorem toCalls_targetName (t : Expr) : targetName (toCalls t) = targetName t := by
  cases t <;> try rfl
  case call f args kwn kwv =>
    simp only [toCalls]
    split
    · split <;> rfl
    · rfl

/-! ### semantics is preserved (as an equality of denotations, for every world) -/

theorem toCalls_den_both (w : World) :
    (∀ e : Expr, den w (toCalls e) = den w e ∧ denHead w (toCalls e) = denHead w e ∧
        denLam w (toCalls e) = denLam w e) ∧
    (∀ es : List Expr, denL w (toCallsL es) = denL w es ∧ denLamL w (toCallsL es) = denLamL w es) := by
  apply Expr.size.mutual_induct
    (motive_1 := fun e => den w (toCalls e) = den w e ∧ denHead w (toCalls e) = denHead w e ∧
        denLam w (toCalls e) = denLam w e)
    (motive_2 := fun es => denL w (toCallsL es) = denL w es ∧ denLamL w (toCallsL es) = denLamL w es)
  case case4 =>
    intro f args kwn kwv ihf iha ihk
    obtain ⟨ihf1, ihf2, ihf3⟩ := ihf
    obtain ⟨iha1, iha2⟩ := iha
    obtain ⟨ihk1, _⟩ := ihk
    have key : den w (toCalls (.call f args kwn kwv)) = den w (.call f args kwn kwv) := by
      simp only [toCalls]
      split
      · rename_i v a heq
        -- f must itself be an attribute with the same name
        cases f <;> simp [toCalls] at heq
        case attr v0 a0 =>
          obtain ⟨hv, ha⟩ := heq
          subst ha
          simp only [toCalls, denHead] at ihf2
          split
          · rename_i hin
            simp only [fcall, den, denHead, denL, denLamL, callSem, List.tail_cons, hin, if_true, iha1, iha2, ihk1]
            have : den w v = den w v0 := by
              have := ihf2; simp only [Head.meth.injEq] at this; rw [← hv]; exact this.1
            rw [this]
          · rename_i hin
            simp only [den, denHead, callSem, hin, if_false, iha1, iha2, ihk1]
            have : den w v = den w v0 := by
              have := ihf2; simp only [Head.meth.injEq] at this; rw [← hv]; exact this.1
            rw [this]
        all_goals (split at heq <;> (try split at heq) <;> simp [fcall] at heq)
      · rename_i f' hne
        simp only [den, iha1, iha2, ihk1, ihf2]
    refine ⟨key, ?_, ?_⟩
    · simp only [toCalls]
      split
      · split <;> simp [fcall, denHead]
      · simp [denHead]
    · simp only [toCalls]
      split
      · split <;> simp [fcall, denLam]
      · simp [denLam]
  all_goals intros
  all_goals simp_all [toCalls, toCallsL, den, denL, denLam, denLamL, denHead, toCalls_targetName]

/-- **C17**: `toCalls` preserves the meaning of every query, in every world and environment
    (in particular: on every dataset). -/
theorem toCalls_preserves (w : World) (env : Env) (e : Expr) : ev w env (toCalls e) = ev w env e := by
  unfold ev; rw [(toCalls_den_both w).1 e |>.1]

end Fadl
