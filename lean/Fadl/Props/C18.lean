/-
  C18 — simplification is total on well-formed queries.
  First layer: what happens at a literal projection (the place where the only permitted failure arises).
-/
import Fadl.Model.Simplify
import Fadl.Lemmas.Basic
namespace Fadl

/-- shape of a visited selector that the simplifier does not interpret -/
def notConstSel : Expr → Bool
  | .const (.int _) => false
  | .const (.str _) => false
  | _ => true

def notFirstCall : Expr → Bool
  | .call (.name "First") _ _ _ => false
  | _ => true

theorem firstArg?_none_of_notFirstCall {v : Expr} (hf : notFirstCall v = true) : firstArg? v = Option.none := by
  unfold notFirstCall at hf
  split at hf
  · cases hf
  · rename_i hnf
    cases v with
    | call f args k1 k2 =>
      cases f with
      | name n =>
        simp only [firstArg?]
        split
        · rename_i hn; subst hn; exact absurd rfl (hnf _ _ _)
        · rfl
      | _ => rfl
    | _ => rfl

/-- **C18 (non-constant / slice / bool / float / None selector)**: once the two children are simplified,
    a subscript whose selector is not an integer or string constant is returned as that same subscript
    around the simplified children — the literal is not taken apart, nothing is raised. -/
theorem simp_sub_nonconst (fuel : Nat) (st : SStack) (c c1 c2 : Nat) (v s v' s' : Expr)
    (hv : simp fuel st c v = .ok (v', c1)) (hs : simp fuel st c1 s = .ok (s', c2))
    (hsel : notConstSel s' = true) (hf : notFirstCall v' = true) :
    simp (fuel + 1) st c (.sub v s) = .ok (.sub v' s', c2) := by
  simp only [simp, hv, hs, bind, Except.bind]
  have hfa : firstArg? v' = Option.none := firstArg?_none_of_notFirstCall hf
  have hgen : (match firstArg? v' with
      | some (some first) =>
        simp fuel st (c2 + 1) (fcall "First" [makeSelect first (.lam [argName c2] (.sub (.name (argName c2)) s'))])
      | some Option.none => Except.error (Err.internal "IndexError")
      | Option.none => Except.ok (.sub v' s', c2)) = Except.ok (.sub v' s', c2) := by
    rw [hfa]
  unfold notConstSel at hsel
  split at hsel
  · cases hsel
  · cases hsel
  · rename_i h1 h2
    split
    · rename_i n; exact absurd rfl (h1 n)
    · rename_i k; exact absurd rfl (h2 k)
    · exact hgen

/-- **C18 (negative constant index)**: a tuple or list literal indexed with a negative constant is
    left intact. -/
theorem simp_sub_negative (fuel : Nat) (st : SStack) (c c1 c2 : Nat) (v s : Expr) (es : List Expr) (n : Int)
    (hv : simp fuel st c v = .ok (.tuple es, c1)) (hs : simp fuel st c1 s = .ok (.const (.int n), c2)) (hn : n < 0) :
    simp (fuel + 1) st c (.sub v s) = .ok (.sub (.tuple es) (.const (.int n)), c2) := by
  have : ¬ n ≥ 0 := by omega
  simp [simp, hv, hs, bind, Except.bind, this, firstArg?]

/-- **C18 (the only permitted failure)**: a constant non-negative index into a tuple literal either
    returns that element or raises the dedicated index error, and it raises it exactly when the index
    is past the end. -/
theorem simp_sub_tuple_const (fuel : Nat) (st : SStack) (c c1 c2 : Nat) (v s : Expr) (es : List Expr) (n : Nat)
    (hv : simp fuel st c v = .ok (.tuple es, c1)) (hs : simp fuel st c1 s = .ok (.const (.int n), c2)) :
    simp (fuel + 1) st c (.sub v s) =
      (match es[n]? with
       | some el => .ok (el, c2)
       | Option.none => .error .indexError) := by
  have : (n : Int) ≥ 0 := by omega
  simp only [simp, hv, hs, bind, Except.bind, this, if_true, Int.toNat_natCast]
  cases es[n]? <;> rfl

/-- **C18 (absent dictionary key)**: looking up a key the dictionary literal does not define leaves
    the subscript intact (a well-formed node, not a bare string). -/
theorem simp_sub_dict_absent (fuel : Nat) (st : SStack) (c c1 c2 : Nat) (v s : Expr) (ks vs : List Expr) (k : String)
    (hv : simp fuel st c v = .ok (.dict ks vs, c1)) (hs : simp fuel st c1 s = .ok (.const (.str k), c2))
    (habs : dictLookup ks vs (.str k) = Option.none) :
    simp (fuel + 1) st c (.sub v s) = .ok (.sub (.dict ks vs) (.const (.str k)), c2) := by
  simp [simp, hv, hs, bind, Except.bind, habs, pure, Except.pure]

end Fadl
