/-
  C01 — a fluent query means what the user's Python chain computes.

  Proved here (for every chain, every lambda body, every world, every dataset):
    * `chain_den`        the AST built for a chain, read under the reference semantics, is the chain run on the
                         in-memory sequence;
    * `chain_built`      the stream machinery builds exactly that AST (link to the heap model of C11/C12);
    * `backend_front_preserves`, `chain_backend_front`   … and it still is after the method-form and aggregate
                         passes.
  The third pass (simplify_chained_calls) is covered by the C02 theorems (partial) and by the per-run
  evaluation oracle; `…_partial` in the name records that.
-/
import Fadl.Model.Pipeline
import Fadl.Props.C17
import Fadl.Props.C19
import Fadl.Lemmas.StreamInv
namespace Fadl

theorem den_chain_step (w : World) (env : Env) (src : Expr) (s : ChainStep) (vs : List Val)
    (h : den w src env = .ok (.list vs)) :
    den w (fcall s.op.name [src, s.lam]) env = (stepVal w env s vs).map .list := by
  have hb : s.op.name ∈ builtinOps := by cases s.op <;> decide
  simp only [fcall, den, denHead, callSem, denL, denLamL, denLam, ChainStep.lam, List.tail, fnCall, hb, if_true,
    h, bind, Except.bind, asSeq]
  have hl : applyLam1 (some ([s.param], den w s.body)) env = fun v => den w s.body (env.upd s.param v) := by
    funext v; rfl
  rw [hl]
  cases hs : s.op <;> simp [COp.name, seqOp2, stepVal, hs, Except.map, bind, Except.bind, pure, Except.pure]
  cases mapRes (fun v => den w s.body (env.upd s.param v)) vs with
    | error e => rfl
    | ok rs => cases concatSeqs rs <;> rfl

/-- **C01** the AST of a chain means the chain -/
theorem chain_den (w : World) (env : Env) (src : Expr) (steps : List ChainStep) (vs : List Val)
    (h : den w src env = .ok (.list vs)) :
    den w (buildChain src steps) env = (runChain w env vs steps).map .list := by
  induction steps generalizing src vs with
  | nil => simp [buildChain, runChain, h, Except.map]
  | cons s rest ih =>
    simp only [buildChain, runChain]
    have h1 := den_chain_step w env src s vs h
    cases hs : stepVal w env s vs with
    | error e =>
      -- the first operator fails: every later operator propagates the failure
      rw [hs] at h1
      simp only [Except.map] at h1
      simp only [bind, Except.bind, Except.map]
      clear ih h hs
      generalize fcall s.op.name [src, s.lam] = q at h1
      induction rest generalizing q with
      | nil => simpa [buildChain] using h1
      | cons t rest ih2 =>
        simp only [buildChain]
        apply ih2
        have hb : t.op.name ∈ builtinOps := by cases t.op <;> decide
        simp [fcall, den, denHead, callSem, denL, denLamL, denLam, ChainStep.lam, fnCall, hb, h1, bind, Except.bind]
    | ok vs' =>
      rw [hs] at h1
      simp only [Except.map] at h1
      simpa [bind, Except.bind] using ih _ vs' h1

/-- the two front passes keep every successful evaluation -/
theorem backend_front_preserves (w : World) (env : Env) (e : Expr) (v : Val) (h : ev w env e = .ok v) :
    ev w env (backendFront e) = .ok v := by
  unfold backendFront
  apply aggT_sem
  rw [toCalls_preserves]; exact h

/-- **C01 (partial: without the simplifier pass)** chain, then backend passes -/
theorem chain_backend_front_partial (w : World) (env : Env) (src : Expr) (steps : List ChainStep) (vs out : List Val)
    (h : den w src env = .ok (.list vs)) (hr : runChain w env vs steps = .ok out) :
    ev w env (backendFront (buildChain src steps)) = .ok (.list out) := by
  apply backend_front_preserves
  unfold ev
  rw [chain_den w env src steps vs h, hr]; rfl

/-! ### the stream machinery builds exactly `buildChain` -/

theorem chainOpsFrom_tm (steps : List ChainStep) (st : St) (i : Nat) (str : Stream)
    (hi : st.streams[i]? = some str) (hlen : st.streams.length = i + 1) :
    ∃ last, ((chainOpsFrom i steps).foldl step st).streams.getLast? = some last ∧
      last.tm = buildChain str.tm steps := by
  induction steps generalizing st i str with
  | nil =>
    refine ⟨str, ?_, rfl⟩
    simp only [chainOpsFrom, List.foldl]
    rw [List.getLast?_eq_getElem?]
    simpa [hlen] using hi
  | cons s rest ih =>
    simp only [chainOpsFrom, List.foldl, buildChain]
    have hstep : (step st (.derive i s.op.name [s.lam] "Any")).streams =
        st.streams ++ [{ root := st.heap.length, itemType := "Any", path := str.path, ds := str.ds,
                         tm := fcall s.op.name (str.tm :: [s.lam]) }] := by
      simp [step, hi]
    have h2 : (step st (.derive i s.op.name [s.lam] "Any")).streams[i + 1]? =
        some { root := st.heap.length, itemType := "Any", path := str.path, ds := str.ds,
               tm := fcall s.op.name (str.tm :: [s.lam]) } := by
      rw [hstep, ← hlen]; simp
    have h3 : (step st (.derive i s.op.name [s.lam] "Any")).streams.length = i + 1 + 1 := by
      rw [hstep]; simp [hlen]
    obtain ⟨last, hl, ht⟩ := ih _ (i + 1) _ h2 h3
    exact ⟨last, hl, ht⟩

/-- **C01** the query of the stream obtained by a chain of operator calls on a dataset is `buildChain` of the
    dataset node (and by `Inv.tm`, `inv_run` that ghost field is what the heap holds and what `value()` hands
    to the executor). -/
theorem chain_built (steps : List ChainStep) :
    ∃ last, (run (chainOps steps)).streams.getLast? = some last ∧
      abs (run (chainOps steps)).heap last.root = buildChain (fcall "EventDataset" []) steps := by
  have hinv := inv_run (chainOps steps) (by
    intro op _; cases op <;> simp [Op.wf]
    all_goals (rename_i h; revert h; simp [chainOps]; intro h
               have : ∀ (i : Nat) (l : List ChainStep) (s : Nat) (md : QMd), Op.qmeta s md ∉ chainOpsFrom i l := by
                 intro i l; induction l generalizing i with
                 | nil => simp [chainOpsFrom]
                 | cons a l ih => intro s md; simp [chainOpsFrom, ih]
               exact absurd h (this _ _ _ _)))
  have h0 : (step St.init (.dataset "Any" [])).streams[0]? =
      some { root := 0, itemType := "Any", path := [], ds := 0, tm := fcall "EventDataset" [] } := by
    simp [step, St.init]
  obtain ⟨last, hl, ht⟩ := chainOpsFrom_tm steps (step St.init (.dataset "Any" [])) 0 _ h0 (by simp [step, St.init])
  refine ⟨last, ?_, ?_⟩
  · simpa [run, chainOps] using hl
  · have hmem : last ∈ (run (chainOps steps)).streams := by
      have : (run (chainOps steps)).streams.getLast? = some last := by simpa [run, chainOps] using hl
      exact List.mem_of_getLast? this
    rw [hinv.tm last hmem]; exact ht

/-- Non-vacuity: a two-operator chain over a concrete dataset evaluates, to what Python's lists give. -/
example :
    let w : World := { method := fun _ _ _ _ _ => .error (.world "none"), func := fun _ _ _ _ => .error (.world "none") }
    let steps := [{ op := .wher, param := "e", body := .op (.cmp ["Gt"]) [.name "e", .const (.int 1)] : ChainStep },
                  { op := .select, param := "e", body := .op (.bin "Mult") [.name "e", .const (.int 2)] }]
    runChain w (Env.empty.upd "ds" (.list [.int 1, .int 2, .int 3])) [.int 1, .int 2, .int 3] steps
      = .ok [.int 4, .int 6] := by
  rfl

end Fadl
