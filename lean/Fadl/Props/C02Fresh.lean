import Fadl.Model.Simplify
import Fadl.Props.C18Total

/-!
# C02: the names the simplifier generates are new to the query

`simplify_chained_calls().visit(e)` first moves its counter past every name of the form `arg_N` that the query holds
(`reserve_arg_names` in the code, `nextArg` in the model).  Here: every name generated from a counter at or past
`nextArg e` is absent from `e` - as a `Name`, and as a lambda parameter.
-/

namespace Fadl

theorem argName_toList (k : Nat) : (argName k).toList = ['a', 'r', 'g', '_'] ++ Nat.toDigits 10 k := by
  simp [argName, Nat.toString_eq_ofList_toDigits]

/-- reading back the index of a generated name -/
theorem argIdx_argName (k : Nat) : argIdx? (argName k) = some k := by
  unfold argIdx?
  simp only [argName_toList]
  have hne : (Nat.toDigits 10 k).isEmpty = false := by
    cases h : Nat.toDigits 10 k with
    | nil => exact absurd h Nat.toDigits_ne_nil
    | cons _ _ => rfl
  have hall : (Nat.toDigits 10 k).all Char.isDigit = true := by
    rw [List.all_eq_true]
    intro c hc
    exact Nat.isDigit_of_mem_toDigits (by decide) (by decide) hc
  have hv : (Nat.toDigits 10 k).foldl (fun n ch => 10 * n + (ch.toNat - '0'.toNat)) 0 = k := by
    have := @Nat.ofDigitChars_ten_toDigits k
    rwa [Nat.ofDigitChars_eq_foldl] at this
  simp only [Char.reduceToNat] at hv
  simp [hne, hall, hv]

private theorem foldl_bound (l : List String) (m : Nat) :
    m ≤ l.foldl (fun m s => match argIdx? s with | some k => max m (k + 1) | Option.none => m) m ∧
    ∀ s ∈ l, ∀ k, argIdx? s = some k →
      k < l.foldl (fun m s => match argIdx? s with | some k => max m (k + 1) | Option.none => m) m := by
  induction l generalizing m with
  | nil => simp
  | cons x xs ih =>
    simp only [List.foldl_cons, List.mem_cons]
    refine ⟨?_, ?_⟩
    · have := (ih (match argIdx? x with | some k => max m (k + 1) | Option.none => m)).1
      cases hx : argIdx? x <;> simp only [hx] at this ⊢ <;> omega
    · intro s hs k hk
      rcases hs with rfl | hs
      · have := (ih (match argIdx? s with | some k => max m (k + 1) | Option.none => m)).1
        simp only [hk] at this ⊢
        omega
      · exact (ih _).2 s hs k hk

/-- every `arg_N` the query holds has `N` below `nextArg` -/
theorem argIdx_lt_nextArg (e : Expr) (s : String) (k : Nat) (hs : s ∈ namesAndParams e) (hk : argIdx? s = some k) :
    k < nextArg e := (foldl_bound (namesAndParams e) 0).2 s hs k hk

/-- **the reservation works**: a name generated from a counter at or past `nextArg e` occurs nowhere in `e` -/
theorem nextArg_fresh (e : Expr) (k : Nat) (h : nextArg e ≤ k) : argName k ∉ namesAndParams e := by
  intro hm
  have := argIdx_lt_nextArg e (argName k) k hm (argIdx_argName k)
  omega

/-- … hence the parameter names `make_args_unique` draws at the counter `simplify` starts from are new to the whole query -/
theorem simplify_start_names_fresh (e : Expr) (c n : Nat) (x : String)
    (hx : x ∈ freshNames (max c (nextArg e)) n) : x ∉ namesAndParams e := by
  obtain ⟨k, hk, _, rfl⟩ := freshNames_mem _ n x hx
  exact nextArg_fresh e k (by omega)

/-- non-vacuity: the query of the formerly open finding holds `arg_0`, the first generated name is `arg_1` -/
example : nextArg (.lam ["x"] (.call (.name "Select") [.attr (.name "x") "jets",
    .lam ["arg_0"] (.tuple [.attr (.name "arg_0") "pt", .attr (.name "x") "met"])] [] [])) = 1 := by decide +kernel

end Fadl
