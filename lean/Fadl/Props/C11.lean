/-
  C11 — streams are immutable values.
-/
import Fadl.Lemmas.StreamInv
namespace Fadl

/-- every operation only *appends*: cells and stream objects that exist are never changed -/
theorem step_appends (st : St) (op : Op) :
    ∃ cells news, (step st op).heap = st.heap ++ cells ∧ (step st op).streams = st.streams ++ news := by
  cases op with
  | dataset ty dargs => exact ⟨_, _, rfl, rfl⟩
  | derive s op args ty =>
    simp only [step]
    cases st.streams[s]? with
    | none => exact ⟨[], [], by simp, by simp⟩
    | some str => exact ⟨_, _, rfl, rfl⟩
  | terminal s op args =>
    simp only [step]
    cases st.streams[s]? with
    | none => exact ⟨[], [], by simp, by simp⟩
    | some str => exact ⟨_, _, rfl, rfl⟩
  | qmeta s md =>
    simp only [step]
    cases st.streams[s]? with
    | none => exact ⟨[], [], by simp, by simp⟩
    | some str =>
      simp only []
      split
      · exact ⟨[], _, by simp, rfl⟩
      · cases st.heap[str.root]? with
        | none => exact ⟨[], [], by simp, by simp⟩
        | some c => exact ⟨_, _, rfl, rfl⟩
  | value s override title =>
    simp only [step]
    cases st.streams[s]? with
    | none => exact ⟨[], [], by simp, by simp⟩
    | some str =>
      simp only []
      cases getExecutor st.heap str.root override with
      | error e => exact ⟨[], [], by simp, by simp⟩
      | ok e => exact ⟨[], [], by simp, by simp⟩

theorem foldl_appends (ops : List Op) (st : St) :
    ∃ cells news, (ops.foldl step st).heap = st.heap ++ cells ∧ (ops.foldl step st).streams = st.streams ++ news := by
  induction ops generalizing st with
  | nil => exact ⟨[], [], by simp, by simp⟩
  | cons op ops ih =>
    obtain ⟨c1, n1, h1, h2⟩ := step_appends st op
    obtain ⟨c2, n2, h3, h4⟩ := ih (step st op)
    exact ⟨c1 ++ c2, n1 ++ n2, by simp [List.foldl, h3, h1], by simp [List.foldl, h4, h2]⟩

/-- **C11**: take any well-formed history `ops` and any continuation `more` (derivations from any
    stream, QMetaData, terminals, executions — in any order, over any number of datasets).  Every
    stream that existed after `ops` is still the same object afterwards, its item type is the same,
    and the query AST observed on it (the field tree of its root) is the same tree as before. -/
theorem streams_immutable (ops more : List Op)
    (hwf : ∀ op ∈ ops, op.wf = true) (_hwf' : ∀ op ∈ more, op.wf = true)
    (i : Nat) (s : Stream) (hs : (run ops).streams[i]? = some s) :
    (run (ops ++ more)).streams[i]? = some s ∧
    abs (run (ops ++ more)).heap s.root = abs (run ops).heap s.root := by
  have hrun : run (ops ++ more) = more.foldl step (run ops) := by simp [run, List.foldl_append]
  obtain ⟨cells, news, h1, h2⟩ := foldl_appends more (run ops)
  have hmem : s ∈ (run ops).streams := mem_of_getElem? hs
  have hi : i < (run ops).streams.length := by
    have := List.getElem?_eq_some_iff.mp hs
    exact this.1
  refine ⟨?_, ?_⟩
  · rw [hrun, h2, List.getElem?_append_left hi]; exact hs
  · have hinv := inv_run ops hwf
    rw [hrun, h1, abs_append _ _ _ (hinv.roots s hmem)]

/-- Streams derived from a common parent are independent: deriving (or executing) one of them leaves
    the other's query, item type and visible query-metadata untouched — an instance of
    `streams_immutable` together with the lookup specification. -/
theorem siblings_independent (ops more : List Op)
    (hwf : ∀ op ∈ ops, op.wf = true) (hwf' : ∀ op ∈ more, op.wf = true)
    (i : Nat) (s : Stream) (hs : (run ops).streams[i]? = some s) (k : String) :
    lookupQMD (run (ops ++ more)).heap s.root k = lookupQMD (run ops).heap s.root k := by
  have hall : ∀ op ∈ ops ++ more, op.wf = true := by
    intro op h; rcases List.mem_append.mp h with h | h
    · exact hwf op h
    · exact hwf' op h
  have h1 := (streams_immutable ops more hwf hwf' i s hs).1
  rw [(inv_run (ops ++ more) hall).look s (mem_of_getElem? h1) k,
      (inv_run ops hwf).look s (mem_of_getElem? hs) k]

/-- Non-vacuity: a concrete history (two datasets, a branch, a QMetaData, executions) satisfies the
    hypotheses, so the theorem applies to it. -/
example :
    let ops := [Op.dataset "E" [], .derive 0 "Select" [.lam ["e"] (.name "e")] "E"]
    let more := [Op.qmeta 1 [("k", .int 1)], .derive 1 "Where" [.lam ["e"] (.const (.bool true))] "E",
                 .dataset "F" [.const (.str "hi")], .value 2 none none, .derive 1 "MetaData" [.dict [] []] "E", .value 3 none none]
    (∀ op ∈ ops, op.wf = true) ∧ (∀ op ∈ more, op.wf = true) ∧ (run ops).streams.length = 2 := by
  refine ⟨by decide, by decide, by decide⟩

end Fadl
