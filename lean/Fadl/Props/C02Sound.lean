/-
  C02 — soundness of the chained-call simplifier (checked model `simpCk`): whenever the original query evaluates
  under deferred execution, the simplified query evaluates to a refinement of its value (the same value wherever
  the original's value contains no deferred failure).

  Part 1: the semantic relation and the lemmas for the individual clauses of the visitor.
-/
import Fadl.Lemmas.SimpSem
import Fadl.Props.C02
namespace Fadl
set_option linter.unusedSimpArgs false

def isFirstCall : Expr → Bool
  | .call (.name "First") _ _ _ => true
  | _ => false

/-- expressions whose meaning as the callee of a call is preserved by the visitor -/
def headable (st : SStack) : Expr → Prop
  | .name x => x ∉ stackKeys st
  | .attr _ _ => False   -- a method head `v.m` is visited by the call clause itself (see `headSem_attr`)
  | .lam _ _ => False
  | _ => True

/-- the callee either keeps its meaning or calling it fails anyway -/
def HeadSem (w : World) (envM env : Env) (e e' : Expr) : Prop :=
  HeadRel envM env (denHeadLz w e) (denHeadLz w e') ∨
    ∀ (A : List Den) (L : List LamD) (kn : List String) (Kv : List Den) (r : Res), RLe (callSemLz w (denHeadLz w e) A L kn Kv envM) r

/-- what the visitor guarantees about an expression `e` and its result `e'` under the stack `st` -/
structure Sem (w : World) (st : SStack) (e e' : Expr) : Prop where
  val : ∀ envM env, EnvRel w st envM env → RLe (denLz w e envM) (denLz w e' env)
  lam1 : ∀ envM env, EnvRel w st envM env → FnLe (applyLam1 (denLamLz w e) envM) (applyLam1 (denLamLz w e') env)
  lam2 : ∀ envM env, EnvRel w st envM env → FnLe2 (applyLam2 (denLamLz w e) envM) (applyLam2 (denLamLz w e') env)
  head : headable st e → ∀ envM env, EnvRel w st envM env → HeadSem w envM env e e'

def SemL (w : World) (st : SStack) (es es' : List Expr) : Prop :=
  ∀ envM env, EnvRel w st envM env →
    All2 (DRel envM env) (denLLz w es) (denLLz w es') ∧ All2 (LamRel envM env) (denLamLLz w es) (denLamLLz w es')

variable {w : World}

theorem selfLam (hw : WorldOK w) (e : Expr) (E : Env) (hE : EnvLe E E) : LamRel E E (denLamLz w e) (denLamLz w e) :=
  ((denLz_mono_both w hw).1 e E E hE hE).2.2

theorem Sem.drel (hw : WorldOK w) {st : SStack} {e e' : Expr} (h : Sem w st e e') {envM env : Env} (hr : EnvRel w st envM env) :
    DRel envM env (denLz w e) (denLz w e') := ⟨h.val envM env hr, denLz_self w hw e' env hr.wf⟩

theorem Sem.lamrel (hw : WorldOK w) {st : SStack} {e e' : Expr} (h : Sem w st e e') {envM env : Env} (hr : EnvRel w st envM env) :
    LamRel envM env (denLamLz w e) (denLamLz w e') :=
  ⟨h.lam1 envM env hr, (selfLam hw e' env hr.wf).1, h.lam2 envM env hr, (selfLam hw e' env hr.wf).2.2.1⟩

theorem fnle_none (f : Val → Res) (E : Env) : FnLe (applyLam1 Option.none E) f := fun _ _ _ _ => RLe.error _ _
theorem fnle2_none (f : Val → Val → Res) (E : Env) : FnLe2 (applyLam2 Option.none E) f := fun _ _ _ _ _ _ _ _ => RLe.error _ _

/-- an expression that is not a lambda literal: only its value (and its meaning as a callee) matter -/
theorem Sem.of_nonlam {st : SStack} {e e' : Expr} (hl : denLamLz w e = Option.none)
    (hv : ∀ envM env, EnvRel w st envM env → RLe (denLz w e envM) (denLz w e' env))
    (hh : headable st e → ∀ envM env, EnvRel w st envM env → HeadSem w envM env e e') : Sem w st e e' :=
  { val := hv
    lam1 := fun envM env _ => by rw [hl]; exact fnle_none _ _
    lam2 := fun envM env _ => by rw [hl]; exact fnle2_none _ _
    head := hh }

theorem headSem_other {envM env : Env} {e e' : Expr} (h : denHeadLz w e = .other) : HeadSem w envM env e e' := by
  left; rw [h]; simp [HeadRel]

/-! ### names and constants -/

theorem sem_name (st : SStack) (x : String) : Sem w st (.name x) ((stackLookup x st).getD (.name x)) := by
  apply Sem.of_nonlam rfl
  · intro envM env hr
    cases hl : stackLookup x st with
    | some a =>
      simp only [Option.getD_some]
      intro v hv
      simp only [denLz] at hv
      cases hx : envM x with
      | none => simp [hx] at hv
      | some u =>
        simp only [hx, Except.ok.injEq] at hv; subst hv
        exact hr.keys x a hl u hx
    | none =>
      simp only [Option.getD_none]
      have hk := (stackLookup_none_iff x st).mp hl
      intro v hv
      simp only [denLz, hr.off x hk] at hv ⊢
      cases hx : env x with
      | none => simp [hx] at hv
      | some u =>
        simp only [hx, Except.ok.injEq] at hv; subst hv
        obtain ⟨u', hu', huu⟩ := hr.wf x u hx
        rw [hx] at hu'; cases hu'
        exact ⟨u, rfl, huu⟩
  · intro hh envM env hr
    simp only [headable] at hh
    have hl := (stackLookup_none_iff x st).mpr hh
    left
    simp [hl, denHeadLz, HeadRel]

theorem sem_const (st : SStack) (k : Const) : Sem w st (.const k) (.const k) := by
  apply Sem.of_nonlam rfl
  · intro envM env _
    exact RLe.refl_of_ok (fun v h => constVal_wf k v h)
  · intro _ envM env _
    exact headSem_other rfl

/-! ### lambdas -/

theorem sem_lam (hw : WorldOK w) {st : SStack} {ps ns : List String} {b b'' : Expr} (hf : FreshFor ns ps b st)
    (hb : Sem w st (renameNames ((ps.zip ns).reverse) b) b'') : Sem w st (.lam ps b) (.lam ns b'') := by
  refine { val := fun _ _ _ => RLe.error _ _, lam1 := ?_, lam2 := ?_, head := fun hh _ _ _ => absurd hh (by simp [headable]) }
  · intro envM env hr
    match ps, ns, hf with
    | [x], [n], hf =>
      refine FnLe.trans (fnle_of_rename1 w hw hf envM hr.wfM) ?_
      intro u u' hu hu'
      simp only [denLamLz, applyLam1]
      have hmono := denLz_mono w hw (renameNames (([x].zip [n]).reverse) b) (envM.upd n u) (envM.upd n u')
        (hr.wfM.upd n hu) (hr.wfM.upd n hu')
      exact RLe.trans hmono (hb.val _ _ (hr.upd n u' hu' (hf.keys n (by simp)) (fun a ha => hf.vals a ha n (by simp))))
    | [], _, _ => exact fun _ _ _ _ => RLe.error _ _
    | _ :: _ :: _, _, _ => exact fun _ _ _ _ => RLe.error _ _
    | [x], [], hf => exact absurd hf.len (by simp)
    | [x], _ :: _ :: _, hf => exact absurd hf.len (by simp)
  · intro envM env hr
    match ps, ns, hf with
    | [x, y], [n, m], hf =>
      refine FnLe2.trans (fnle2_of_rename2 w hw hf envM hr.wfM) ?_
      intro a a' u u' ha ha' hu hu'
      have hnm : n ≠ m := by
        have := hf.dn; simp [distinctS] at this; exact fun h => this (h ▸ rfl)
      simp only [denLamLz, applyLam2, hnm, if_false]
      have hmono := denLz_mono w hw (renameNames (([x, y].zip [n, m]).reverse) b) ((envM.upd n a).upd m u) ((envM.upd n a').upd m u')
        ((hr.wfM.upd n ha).upd m hu) ((hr.wfM.upd n ha').upd m hu')
      refine RLe.trans hmono (hb.val _ _ ?_)
      exact (hr.upd n a' ha' (hf.keys n (by simp)) (fun e he => hf.vals e he n (by simp))).upd m u' hu'
        (hf.keys m (by simp)) (fun e he => hf.vals e he m (by simp))
    | [], _, _ => exact fun _ _ _ _ _ _ _ _ => RLe.error _ _
    | [_], _, _ => exact fun _ _ _ _ _ _ _ _ => RLe.error _ _
    | _ :: _ :: _ :: _, _, _ => exact fun _ _ _ _ _ _ _ _ => RLe.error _ _
    | [x, y], [], hf => exact absurd hf.len (by simp)
    | [x, y], [_], hf => exact absurd hf.len (by simp)
    | [x, y], _ :: _ :: _ :: _, hf => exact absurd hf.len (by simp)

/-! ### attribute access -/

/-- a method call on something that is neither a sequence nor a record fails, whatever the arguments -/
theorem meth_on_dict_fails (recv : Den) (m : String) (envM : Env) (hm' : m ∈ opNames → m ∈ builtinOps)
    (hd : ∀ x, recv envM = .ok x → ∃ ks vs, x = .dict ks vs)
    (A : List Den) (L : List LamD) (kn : List String) (Kv : List Den) (r : Res) :
    RLe (callSemLz w (.meth recv m) A L kn Kv envM) r := by
  intro out ho
  exfalso
  simp only [callSemLz] at ho
  split at ho
  · -- an operator name: the receiver would have to be a sequence
    unfold fnCallLz at ho
    split at ho
    · have hsrc : ∀ (k : List Val → Res), (do let vs ← asSeq (← recv envM); k vs) = .ok out → False := by
        intro k hk
        cases hr : recv envM with
        | error e => simp [hr, bind, Except.bind] at hk
        | ok x =>
          obtain ⟨ks, vs, rfl⟩ := hd x hr
          simp [hr, bind, Except.bind, asSeq] at hk
      match A, L with
      | [], _ => exact hsrc _ ho
      | [_], [lam] => exact hsrc _ ho
      | [_], [] => simp at ho
      | [_], _ :: _ :: _ => simp at ho
      | [_, _], [_, lam] =>
        simp only [] at ho
        split at ho
        · exact hsrc _ ho
        · cases ho
      | [_, _], [] => simp at ho
      | [_, _], [_] => simp at ho
      | [_, _], _ :: _ :: _ :: _ => simp at ho
      | _ :: _ :: _ :: _, _ => simp at ho
    · rename_i hm hnb
      exact hnb (hm' hm)
  · cases hr : recv envM with
    | error e => simp [hr, bind, Except.bind] at ho
    | ok x =>
      obtain ⟨ks, vs, rfl⟩ := hd x hr
      simp only [hr, bind, Except.bind] at ho
      cases hA : evalAll A envM with
      | error e => simp [hA] at ho
      | ok a =>
        simp only [hA] at ho
        cases hK : evalAll Kv envM with
        | error e => simp [hK] at ho
        | ok b => simp [hK] at ho

theorem sem_attr (hw : WorldOK w) {st : SStack} {v v' : Expr} (a : String) (hv : Sem w st v v') :
    Sem w st (.attr v a) (.attr v' a) := by
  apply Sem.of_nonlam rfl
  · intro envM env hr
    simp only [denLz]
    exact RLe.bind (hv.val envM env hr) (fun x x' hx => getAttrLz_mono a hx)
  · intro hh; cases hh

/-- a method head `v.m` whose receiver was visited -/
theorem headSem_attr (hw : WorldOK w) {st : SStack} {v v' : Expr} (a : String) (hv : Sem w st v v') {envM env : Env}
    (hr : EnvRel w st envM env) : HeadSem w envM env (.attr v a) (.attr v' a) := by
  left
  simp only [denHeadLz, HeadRel, true_and]
  exact hv.drel hw hr

theorem VLe_dict_right {x : Val} {ks vs : List Val} (h : VLe x (.dict ks vs)) : ∃ ks0 vs0, x = .dict ks0 vs0 := by
  cases x with
  | dict a b => exact ⟨a, b, rfl⟩
  | poison e => exact absurd h VLe_poison_left
  | int n => have := VLe_int_left.mp h; cases this
  | bool n => have := VLe_bool_left.mp h; cases this
  | str n => have := VLe_str_left.mp h; cases this
  | none => have := VLe_none_left.mp h; cases this
  | float n => have := VLe_float_left.mp h; cases this
  | slice a b c => have := VLe_slice_left.mp h; cases this
  | tuple a => obtain ⟨_, h1, _⟩ := VLe_tuple_left.mp h; cases h1
  | list a => obtain ⟨_, h1, _⟩ := VLe_list_left.mp h; cases h1
  | obj c f a => obtain ⟨_, h1, _⟩ := VLe_obj_left.mp h; cases h1

theorem den_dict_is_dict (ks vs : List Expr) (env : Env) (x : Val) (h : denLz w (.dict ks vs) env = .ok x) :
    ∃ kv vv, x = .dict kv vv := by
  simp only [denLz] at h
  cases hkv : evalAll (denLLz w ks) env with
  | error e => simp [hkv, bind, Except.bind] at h
  | ok kv =>
    cases hvv : evalAll (denLLz w vs) env with
    | error e => simp [hkv, hvv, bind, Except.bind] at h
    | ok vv =>
      simp only [hkv, hvv, bind, Except.bind] at h
      split at h
      · simp only [mkDictLz, mkDict] at h
        split at h
        · cases h; exact ⟨_, _, rfl⟩
        · cases h
      · cases h

/-- attribute of a dictionary literal with that key: the value expression -/
theorem sem_attr_dict (hw : WorldOK w) {st : SStack} {v : Expr} {ks vs : List Expr} (a : String) (r : Expr)
    (hv : Sem w st v (.dict ks vs)) (hd : dictLookup ks vs (.str a) = some r) : Sem w st (.attr v a) r := by
  apply Sem.of_nonlam rfl
  · intro envM env hr
    have h1 := (sem_attr hw a hv).val envM env hr
    refine RLe.trans h1 ?_
    intro x hx
    exact ⟨x, rule_dict_attr w env ks vs a r x hd hx, denLz_wf w hw _ env hr.wf x hx⟩
  · intro hh; cases hh

/-- a method head `v.m` whose receiver became a dictionary literal: the call fails (a dictionary has no methods) -/
theorem headSem_attr_dict {st : SStack} {v : Expr} {ks vs : List Expr} (a : String) (r : Expr)
    (hv : Sem w st v (.dict ks vs)) (hm : a ∈ opNames → a ∈ builtinOps) {envM env : Env} (hr : EnvRel w st envM env) :
    HeadSem w envM env (.attr v a) r := by
  right
  apply meth_on_dict_fails _ _ _ hm
  intro x hx
  obtain ⟨x', hx', hxx⟩ := hv.val envM env hr x hx
  obtain ⟨kv, vv, rfl⟩ := den_dict_is_dict ks vs env x' hx'
  exact VLe_dict_right hxx

/-! ### lists of expressions, tuples, lists, dictionaries, operators -/

theorem semL_nil (st : SStack) : SemL w st [] [] := fun _ _ _ => ⟨.nil, .nil⟩

theorem semL_cons (hw : WorldOK w) {st : SStack} {e e' : Expr} {es es' : List Expr} (h : Sem w st e e') (hs : SemL w st es es') :
    SemL w st (e :: es) (e' :: es') := fun envM env hr =>
  ⟨.cons (h.drel hw hr) (hs envM env hr).1, .cons (h.lamrel hw hr) (hs envM env hr).2⟩

theorem sem_tuple {st : SStack} {es es' : List Expr} (h : SemL w st es es') : Sem w st (.tuple es) (.tuple es') := by
  apply Sem.of_nonlam rfl
  · intro envM env hr
    simp only [denLz]
    apply RLeS.bindR (evalAll_rel (h envM env hr).1) (evalAll_rel_self (h envM env hr).1)
    intro vs vs' hv _ out ho
    cases ho
    exact ⟨.tuple vs', rfl, by simpa [VLe] using hv⟩
  · intro _ envM env _; exact headSem_other rfl

theorem sem_list {st : SStack} {es es' : List Expr} (h : SemL w st es es') : Sem w st (.list es) (.list es') := by
  apply Sem.of_nonlam rfl
  · intro envM env hr
    simp only [denLz]
    apply RLeS.bindR (evalAll_rel (h envM env hr).1) (evalAll_rel_self (h envM env hr).1)
    intro vs vs' hv _ out ho
    cases ho
    exact ⟨.list vs', rfl, by simp only [VLe]; exact hv.toL⟩
  · intro _ envM env _; exact headSem_other rfl

theorem sem_dict {st : SStack} {ks ks' vs vs' : List Expr} (hk : SemL w st ks ks') (hv : SemL w st vs vs') :
    Sem w st (.dict ks vs) (.dict ks' vs') := by
  apply Sem.of_nonlam rfl
  · intro envM env hr
    simp only [denLz]
    apply RLeS.bindR (evalAll_rel (hk envM env hr).1) (evalAll_rel_self (hk envM env hr).1)
    intro kv kv' hkv _
    apply RLeS.bindR (evalAll_rel (hv envM env hr).1) (evalAll_rel_self (hv envM env hr).1)
    intro vv vv' hvv _
    rw [← VLeS.length hkv, ← VLeS.length hvv]
    split
    · exact mkDictLz_mono hkv hvv
    · exact RLe.error _ _
  · intro _ envM env _; exact headSem_other rfl

theorem sem_op {st : SStack} (k : OpKind) {es es' : List Expr} (h : SemL w st es es') : Sem w st (.op k es) (.op k es') := by
  apply Sem.of_nonlam rfl
  · intro envM env hr
    simp only [denLz]
    exact evOpLz_mono k (All2_map_env (h envM env hr).1)
  · intro _ envM env _; exact headSem_other rfl

/-! ### subscripts -/

theorem sem_sub {st : SStack} {v v' s s' : Expr} (hv : Sem w st v v') (hs : Sem w st s s') :
    Sem w st (.sub v s) (.sub v' s') := by
  apply Sem.of_nonlam rfl
  · intro envM env hr
    simp only [denLz]
    exact RLe.bind (hv.val envM env hr) (fun x x' hx => RLe.bind (hs.val envM env hr) (fun i i' hi => subscriptLz_mono hx hi))
  · intro _ envM env _; exact headSem_other rfl

/-- replacing the result by something the result refines to with the same value -/
theorem Sem.then_rule {st : SStack} {e e1 e2 : Expr} (hw : WorldOK w) (hl : denLamLz w e = Option.none) (hh : denHeadLz w e = .other)
    (h1 : Sem w st e e1) (h2 : ∀ env v, denLz w e1 env = .ok v → denLz w e2 env = .ok v) : Sem w st e e2 := by
  apply Sem.of_nonlam hl
  · intro envM env hr
    refine RLe.trans (h1.val envM env hr) ?_
    intro x hx
    exact ⟨x, h2 env x hx, denLz_wf w hw _ env hr.wf x hx⟩
  · intro _ envM env _; exact headSem_other hh

/-! ### `First(seq).a` and `First(seq)[i]` -/

theorem denLz_first_kw (s : Expr) (kwn : List String) (kwv : List Expr) (env : Env) :
    denLz w (.call (.name "First") [s] kwn kwv) env = denLz w (fcall "First" [s]) env := by
  have hb : "First" ∈ builtinOps := by decide
  simp only [fcall, denLz, denHeadLz, denLLz, denLamLLz, callSemLz, List.tail_cons, fnCallLz, hb, if_true]

theorem first_many_fails (a b : Expr) (rest : List Expr) (kwn : List String) (kwv : List Expr) (env : Env) (r : Res) :
    RLe (denLz w (.call (.name "First") (a :: b :: rest) kwn kwv) env) r := by
  intro out ho
  exfalso
  have hb : "First" ∈ builtinOps := by decide
  simp only [denLz, denHeadLz, denLLz, denLamLLz, callSemLz, List.tail_cons, fnCallLz, hb, if_true] at ho
  cases rest with
  | nil =>
    simp only [denLLz, denLamLLz] at ho
    cases h1 : denLz w a env with
    | error e => simp [h1, bind, Except.bind] at ho
    | ok s =>
      cases h2 : asSeq s with
      | error e => simp [h1, h2, bind, Except.bind] at ho
      | ok vs => simp [h1, h2, bind, Except.bind, seqOp2Lz] at ho
  | cons c rest2 =>
    cases rest2 with
    | nil => simp [denLLz, denLamLLz] at ho
    | cons d rest3 => simp [denLLz, denLamLLz] at ho

theorem makeSelect_nonid (src : Expr) (x : String) (body : Expr) (h : ∀ y, body ≠ .name y) :
    makeSelect src (.lam [x] body) = fcall "Select" [src, .lam [x] body] := by
  unfold makeSelect lambdaIsIdentity
  cases body <;> simp at h ⊢

/-- `First(seq).a`: the visitor continues with `First(Select(seq, lambda x: x.a))` -/
theorem sem_first_attr (hw : WorldOK w) {st : SStack} (first : Expr) (rest : List Expr) (kwn : List String) (kwv : List Expr)
    (a x : String) (out : Expr)
    (ih : Sem w st (fcall "First" [makeSelect first (.lam [x] (.attr (.name x) a))]) out) :
    Sem w st (.attr (.call (.name "First") (first :: rest) kwn kwv) a) out := by
  apply Sem.of_nonlam rfl
  · intro envM env hr
    cases rest with
    | nil =>
      have h1 : denLz w (.attr (.call (.name "First") [first] kwn kwv) a) envM =
          denLz w (fcall "First" [fcall "Select" [first, .lam [x] (.attr (.name x) a)]]) envM := by
        rw [← rule_first_attr w hw envM hr.wfM first a x]
        have := denLz_first_kw (w := w) first kwn kwv envM
        simp only [denLz] at this ⊢
        rw [this]
      rw [h1, ← makeSelect_nonid first x _ (by intro y h; cases h)]
      exact ih.val envM env hr
    | cons b rest' =>
      simp only [denLz]
      intro out' ho
      exfalso
      cases h1 : denLz w (.call (.name "First") (first :: b :: rest') kwn kwv) envM with
      | error e => simp only [denLz] at h1; rw [h1] at ho; simp [bind, Except.bind] at ho
      | ok v => obtain ⟨_, h', _⟩ := first_many_fails (w := w) first b rest' kwn kwv envM (.error .index) v h1; cases h'
  · intro hh; cases hh

/-- constant, non-negative index into a tuple or list literal -/
theorem sem_sub_tuple (hw : WorldOK w) {st : SStack} {v s : Expr} {es : List Expr} {n : Int} {el : Expr} (hn : n ≥ 0)
    (hel : es[n.toNat]? = some el) (hv : Sem w st v (.tuple es)) (hs : Sem w st s (.const (.int n))) : Sem w st (.sub v s) el := by
  refine Sem.then_rule hw rfl rfl (sem_sub hv hs) ?_
  intro env x hx
  have : n = ((n.toNat : Nat) : Int) := by omega
  rw [this] at hx
  exact rule_tuple_index w env es n.toNat el hel x hx

theorem sem_sub_list (hw : WorldOK w) {st : SStack} {v s : Expr} {es : List Expr} {n : Int} {el : Expr} (hn : n ≥ 0)
    (hel : es[n.toNat]? = some el) (hv : Sem w st v (.list es)) (hs : Sem w st s (.const (.int n))) : Sem w st (.sub v s) el := by
  refine Sem.then_rule hw rfl rfl (sem_sub hv hs) ?_
  intro env x hx
  have : n = ((n.toNat : Nat) : Int) := by omega
  rw [this] at hx
  exact rule_list_index w env es n.toNat el hel x hx

theorem sem_sub_dict (hw : WorldOK w) {st : SStack} {v s : Expr} {ks vs : List Expr} {k : Const} {r : Expr}
    (hkind : (∃ s, k = .str s) ∨ (∃ n, k = .int n)) (hd : dictLookup ks vs k = some r)
    (hv : Sem w st v (.dict ks vs)) (hs : Sem w st s (.const k)) : Sem w st (.sub v s) r := by
  refine Sem.then_rule hw rfl rfl (sem_sub hv hs) ?_
  intro env x hx
  exact rule_dict_key w env ks vs k r x hkind hd hx

/-- `First(seq)[i]`: the visitor continues with `First(Select(seq, lambda x: x[i]))` -/
theorem sem_sub_first (hw : WorldOK w) {st : SStack} {v s s' : Expr} (first : Expr) (rest : List Expr) (kwn : List String)
    (kwv : List Expr) (x : String) (out : Expr)
    (hv : Sem w st v (.call (.name "First") (first :: rest) kwn kwv)) (hs : Sem w st s s')
    (hx : x ∉ fv s') (hkf : keyFree st (fcall "First" [makeSelect first (.lam [x] (.sub (.name x) s'))]) = true)
    (ih : Sem w st (fcall "First" [makeSelect first (.lam [x] (.sub (.name x) s'))]) out) :
    Sem w st (.sub v s) out := by
  apply Sem.of_nonlam rfl
  · intro envM env hr
    refine RLe.trans ((sem_sub hv hs).val envM env hr) ?_
    cases rest with
    | nil =>
      have h1 : denLz w (.sub (.call (.name "First") [first] kwn kwv) s') env =
          denLz w (fcall "First" [fcall "Select" [first, .lam [x] (.sub (.name x) s')]]) env := by
        rw [← rule_first_sub w hw env hr.wf first s' x hx]
        have := denLz_first_kw (w := w) first kwn kwv env
        simp only [denLz] at this ⊢
        rw [this]
      rw [h1, ← makeSelect_nonid first x _ (by intro y h; cases h), ← hr.coincide _ hkf]
      exact ih.val envM env hr
    | cons b rest' =>
      simp only [denLz]
      intro out' ho
      exfalso
      cases h1 : denLz w (.call (.name "First") (first :: b :: rest') kwn kwv) env with
      | error e => simp only [denLz] at h1; rw [h1] at ho; simp [bind, Except.bind] at ho
      | ok v => obtain ⟨_, h', _⟩ := first_many_fails (w := w) first b rest' kwn kwv env (.error .index) v h1; cases h'
  · intro _ envM env _; exact headSem_other rfl

/-- the value became `First(seq)` only after it was visited (a substituted argument): `v.a` continues with
`First(Select(seq, lambda x: x.a))` -/
theorem sem_attr_first (hw : WorldOK w) {st : SStack} {v : Expr} (first : Expr) (rest : List Expr) (kwn : List String)
    (kwv : List Expr) (a x : String) (out : Expr)
    (hv : Sem w st v (.call (.name "First") (first :: rest) kwn kwv))
    (hkf : keyFree st (fcall "First" [makeSelect first (.lam [x] (.attr (.name x) a))]) = true)
    (ih : Sem w st (fcall "First" [makeSelect first (.lam [x] (.attr (.name x) a))]) out) :
    Sem w st (.attr v a) out := by
  apply Sem.of_nonlam rfl
  · intro envM env hr
    refine RLe.trans ((sem_attr hw a hv).val envM env hr) ?_
    cases rest with
    | nil =>
      have h1 : denLz w (.attr (.call (.name "First") [first] kwn kwv) a) env =
          denLz w (fcall "First" [fcall "Select" [first, .lam [x] (.attr (.name x) a)]]) env := by
        rw [← rule_first_attr w hw env hr.wf first a x]
        have := denLz_first_kw (w := w) first kwn kwv env
        simp only [denLz] at this ⊢
        rw [this]
      rw [h1, ← makeSelect_nonid first x _ (by intro y h; cases h), ← hr.coincide _ hkf]
      exact ih.val envM env hr
    | cons b rest' =>
      simp only [denLz]
      intro out' ho
      exfalso
      cases h1 : denLz w (.call (.name "First") (first :: b :: rest') kwn kwv) env with
      | error e => simp only [denLz] at h1; rw [h1] at ho; simp [bind, Except.bind] at ho
      | ok v => obtain ⟨_, h', _⟩ := first_many_fails (w := w) first b rest' kwn kwv env (.error .index) v h1; cases h'
  · intro hh; cases hh

/-! ### calls -/

theorem sem_call_head (hw : WorldOK w) {st : SStack} {f f' : Expr} {args as' kwv ks' : List Expr} (kwn : List String)
    (hf : ∀ envM env, EnvRel w st envM env → HeadSem w envM env f f') (ha : SemL w st args as') (hk : SemL w st kwv ks') :
    Sem w st (.call f args kwn kwv) (.call f' as' kwn ks') := by
  apply Sem.of_nonlam rfl
  · intro envM env hr
    simp only [denLz]
    rcases hf envM env hr with h | h
    · exact callSemLz_rel w hw kwn h (ha envM env hr).1 (ha envM env hr).2 (hk envM env hr).1
    · exact h _ _ _ _ _
  · intro _ envM env _; exact headSem_other rfl

theorem sem_call_generic (hw : WorldOK w) {st : SStack} {f f' : Expr} {args as' kwv ks' : List Expr} (kwn : List String)
    (hf : Sem w st f f') (hh : headable st f) (ha : SemL w st args as') (hk : SemL w st kwv ks') :
    Sem w st (.call f args kwn kwv) (.call f' as' kwn ks') :=
  sem_call_head hw kwn (hf.head hh) ha hk

/-- a method call whose receiver fails, fails -/
theorem meth_recv_error (recv : Den) (m : String) (envM : Env) (e : EErr) (hr : recv envM = .error e)
    (A : List Den) (L : List LamD) (kn : List String) (Kv : List Den) (r : Res) :
    RLe (callSemLz w (.meth recv m) A L kn Kv envM) r := by
  intro out ho
  exfalso
  simp only [callSemLz] at ho
  split at ho
  · unfold fnCallLz at ho
    split at ho
    · have hsrc : ∀ (k : List Val → Res), (do let vs ← asSeq (← recv envM); k vs) = .ok out → False := by
        intro k hk
        simp [hr, bind, Except.bind] at hk
      match A, L with
      | [], _ => exact hsrc _ ho
      | [_], [lam] => exact hsrc _ ho
      | [_], [] => simp at ho
      | [_], _ :: _ :: _ => simp at ho
      | [_, _], [_, lam] =>
        simp only [] at ho
        split at ho
        · exact hsrc _ ho
        · cases ho
      | [_, _], [] => simp at ho
      | [_, _], [_] => simp at ho
      | [_, _], _ :: _ :: _ :: _ => simp at ho
      | _ :: _ :: _ :: _, _ => simp at ho
    · simp only [evalAll, List.map, seqRes, hr, bind, Except.bind] at ho
      cases ho
  · simp [hr, bind, Except.bind] at ho

/-- **First(seq).m(args)  ⇒  First(Select(seq, lambda x: x.m(args)))** for `x` not free in the arguments -/
theorem rule_first_method (hw : WorldOK w) (env : Env) (henv : EnvLe env env) (seq : Expr) (k1 : List String) (k2 : List Expr)
    (m : String) (args : List Expr) (kwn : List String) (kwv : List Expr) (x : String)
    (hxa : x ∉ freeNamesL [] args) (hxk : x ∉ freeNamesL [] kwv) :
    RLe (denLz w (.call (.attr (.call (.name "First") [seq] k1 k2) m) args kwn kwv) env)
        (denLz w (fcall "First" [fcall "Select" [seq, .lam [x] (.call (.attr (.name x) m) args kwn kwv)]]) env) := by
  have hR : denLz w (.call (.name "First") [seq] k1 k2) env = denLz w (fcall "First" [seq]) env := denLz_first_kw seq k1 k2 env
  cases hRv : denLz w (fcall "First" [seq]) env with
  | error e =>
    simp only [denLz, denHeadLz]
    exact meth_recv_error _ m env e (by rw [← hRv, ← hR]; simp only [denLz, denHeadLz]) _ _ _ _ _
  | ok u =>
    -- the sequence and its first element
    rw [denLz_first] at hRv
    cases hs : denLz w seq env with
    | error e => simp [hs, bind, Except.bind] at hRv
    | ok s =>
      cases hvs : asSeq s with
      | error e => simp [hs, hvs, bind, Except.bind] at hRv
      | ok vs =>
        simp only [hs, hvs, bind, Except.bind] at hRv
        have hu : VLe u u := by
          have hwf := denLz_wf w hw seq env henv s hs
          cases s <;> simp [asSeq] at hvs
          rename_i vs0
          subst hvs
          simp only [VLe] at hwf
          cases vs0 with
          | nil => simp [seqOp1Lz] at hRv
          | cons v0 rest =>
            simp only [seqOp1Lz, if_true] at hRv
            exact VLeL.mem_wf hwf v0 (by simp) u hRv
        -- the right-hand side evaluates the call on the first element
        have hrhs : denLz w (fcall "First" [fcall "Select" [seq, .lam [x] (.call (.attr (.name x) m) args kwn kwv)]]) env =
            denLz w (.call (.attr (.name x) m) args kwn kwv) (env.upd x u) := by
          rw [denLz_first, denLz_op2 w env "Select" (Or.inl rfl)]
          simp only [hs, hvs, bind, Except.bind, seqOp2Lz_select, asSeq_list]
          have hnp := noPoisonOn_lam w hw env henv seq (.lam [x] (.call (.attr (.name x) m) args kwn kwv)) s vs hs hvs
          have := first_sel _ vs hnp
          simp only [bind, Except.bind] at this
          rw [this, hRv]
          rfl
        rw [hrhs]
        -- same call, receiver value `u`, arguments do not mention `x`
        have hagree := (denLz_coincide_both w).2 args [] env (env.upd x u) (by
          intro y hy
          simp only [Env.upd]
          split
          · rename_i h; subst h; exact absurd hy hxa
          · rfl) (by simp)
        have hagreeK := (denLz_coincide_both w).2 kwv [] env (env.upd x u) (by
          intro y hy
          simp only [Env.upd]
          split
          · rename_i h; subst h; exact absurd hy hxk
          · rfl) (by simp)
        have heq : denLz w (.call (.attr (.call (.name "First") [seq] k1 k2) m) args kwn kwv) env =
            denLz w (.call (.attr (.name x) m) args kwn kwv) (env.upd x u) := by
          simp only [denLz, denHeadLz]
          apply callSemLz_agree w kwn _ hagree.1 hagree.2 hagreeK.1
          simp only [HeadAgree, true_and]
          have h1 := hR
          simp only [denLz, denHeadLz] at h1
          rw [h1, denLz_first]
          simp [hs, hvs, bind, Except.bind, hRv, Env.upd]
        rw [heq]
        exact denLz_self w hw _ _ (henv.upd x hu)

theorem sem_first_method (hw : WorldOK w) {st : SStack} (seq : Expr) (rest : List Expr) (k1 : List String) (k2 : List Expr)
    (m : String) (args : List Expr) (kwn : List String) (kwv : List Expr) (x : String) (out : Expr)
    (hxa : x ∉ freeNamesL [] args) (hxk : x ∉ freeNamesL [] kwv)
    (ih : Sem w st (fcall "First" [makeSelect seq (.lam [x] (.call (.attr (.name x) m) args kwn kwv))]) out) :
    Sem w st (.call (.attr (.call (.name "First") (seq :: rest) k1 k2) m) args kwn kwv) out := by
  apply Sem.of_nonlam rfl
  · intro envM env hr
    cases rest with
    | nil =>
      have h1 := rule_first_method hw envM hr.wfM seq k1 k2 m args kwn kwv x hxa hxk
      rw [← makeSelect_nonid seq x _ (by intro y h; cases h)] at h1
      exact RLe.trans h1 (ih.val envM env hr)
    | cons b rest' =>
      simp only [denLz, denHeadLz]
      cases h1 : denLz w (.call (.name "First") (seq :: b :: rest') k1 k2) envM with
      | error e => exact meth_recv_error _ m envM e h1 _ _ _ _ _
      | ok v => obtain ⟨_, h', _⟩ := first_many_fails (w := w) seq b rest' k1 k2 envM (.error .index) v h1; cases h'
  · intro _ envM env _; exact headSem_other rfl

/-! ### helpers for the operator clauses -/

def isOp3 (op : String) : Prop := op = "Select" ∨ op = "Where" ∨ op = "SelectMany"

theorem isOp3.builtin {op : String} (h : isOp3 op) : op ∈ builtinOps := by
  rcases h with rfl | rfl | rfl <;> decide

theorem isOp3.notAgg {op : String} (h : isOp3 op) : op ≠ "Aggregate" := by
  rcases h with rfl | rfl | rfl <;> decide

theorem den_op_call_kw {op : String} (hop : isOp3 op) (a b : Expr) (kwn : List String) (kwv : List Expr) (env : Env) :
    denLz w (.call (.name op) [a, b] kwn kwv) env = denLz w (fcall op [a, b]) env := by
  simp only [fcall, denLz, denHeadLz, denLLz, denLamLLz, callSemLz, List.tail_cons, fnCallLz, hop.builtin, if_true]

theorem op_many_fails {op : String} (hop : isOp3 op) (a b c : Expr) (rest : List Expr) (kwn : List String) (kwv : List Expr)
    (env : Env) (r : Res) : RLe (denLz w (.call (.name op) (a :: b :: c :: rest) kwn kwv) env) r := by
  intro out ho
  exfalso
  simp only [denLz, denHeadLz, denLLz, denLamLLz, callSemLz, List.tail_cons, fnCallLz, hop.builtin, if_true] at ho
  cases rest with
  | nil => simp [hop.notAgg, denLLz, denLamLLz] at ho
  | cons d rest3 => simp [denLLz, denLamLLz] at ho

/-- operator applied to related sources and related lambdas -/
theorem op2_transfer {op : String} (hop : isOp3 op) {a a' l l' : Expr} {envA envB : Env}
    (ha : DRel envA envB (denLz w a) (denLz w a')) (hl : LamRel envA envB (denLamLz w l) (denLamLz w l')) :
    RLe (denLz w (fcall op [a, l]) envA) (denLz w (fcall op [a', l']) envB) := by
  rw [denLz_op2 w envA op hop, denLz_op2 w envB op hop]
  exact src_seq_rel ha (fun vs vs' hv hv' => seqOp2Lz_mono op hl.1 hv hv')

theorem drel_self (hw : WorldOK w) (e : Expr) (E : Env) (hE : EnvLe E E) : DRel E E (denLz w e) (denLz w e) :=
  ⟨denLz_self w hw e E hE, denLz_self w hw e E hE⟩

/-- `make_Select` drops an identity selection -/
theorem makeSelect_le (hw : WorldOK w) (src sel : Expr) (E : Env) (hE : EnvLe E E) :
    RLe (denLz w (fcall "Select" [src, sel]) E) (denLz w (makeSelect src sel) E) := by
  unfold makeSelect
  split
  · rename_i hid
    obtain ⟨x, rfl⟩ := lambdaIsIdentity_sound sel hid
    intro out ho
    rw [denLz_op2 w E "Select" (Or.inl rfl)] at ho
    cases hs : denLz w src E with
    | error e => simp [hs, bind, Except.bind] at ho
    | ok s =>
      cases hv : asSeq s with
      | error e => simp [hs, hv, bind, Except.bind] at ho
      | ok vs =>
        cases s <;> simp [asSeq] at hv
        subst hv
        simp only [hs, bind, Except.bind, asSeq, seqOp2Lz_select, Except.ok.injEq] at ho
        have hid' : applyLam1 (denLamLz w (.lam [x] (.name x))) E = fun u => .ok u := by
          funext u; simp [denLamLz, applyLam1, denLz, Env.upd]
        rw [hid', sel_id] at ho
        subst ho
        exact ⟨_, rfl, denLz_wf w hw src E hE _ hs⟩
  · exact denLz_self w hw _ E hE

/-- a lambda and its copy with fresh parameter names compute the same function -/
theorem rename_lamRel (hw : WorldOK w) {ns ps : List String} {b : Expr} {st : SStack} (hf : FreshFor ns ps b st)
    (E : Env) (hE : EnvLe E E) :
    LamRel E E (denLamLz w (.lam ps b)) (denLamLz w (.lam ns (renameNames ((ps.zip ns).reverse) b))) := by
  have hself := selfLam hw (.lam ns (renameNames ((ps.zip ns).reverse) b)) E hE
  refine ⟨?_, hself.1, ?_, hself.2.2.1⟩
  · match ps, ns, hf with
    | [x], [n], hf => simp only [denLamLz]; exact fnle_of_rename1 w hw hf E hE
    | [], _, _ => exact fun _ _ _ _ => RLe.error _ _
    | _ :: _ :: _, _, _ => exact fun _ _ _ _ => RLe.error _ _
    | [x], [], hf => exact absurd hf.len (by simp)
    | [x], _ :: _ :: _, hf => exact absurd hf.len (by simp)
  · match ps, ns, hf with
    | [x, y], [n, m], hf => simp only [denLamLz]; exact fnle2_of_rename2 w hw hf E hE
    | [], _, _ => exact fun _ _ _ _ _ _ _ _ => RLe.error _ _
    | [_], _, _ => exact fun _ _ _ _ _ _ _ _ => RLe.error _ _
    | _ :: _ :: _ :: _, _, _ => exact fun _ _ _ _ _ _ _ _ => RLe.error _ _
    | [x, y], [], hf => exact absurd hf.len (by simp)
    | [x, y], [_], hf => exact absurd hf.len (by simp)
    | [x, y], _ :: _ :: _ :: _, hf => exact absurd hf.len (by simp)

/-- same parameters, related bodies -/
theorem lam_body_le (hw : WorldOK w) (ps : List String) (b b' : Expr)
    (hb : ∀ E, EnvLe E E → RLe (denLz w b E) (denLz w b' E)) (E : Env) (hE : EnvLe E E) :
    LamRel E E (denLamLz w (.lam ps b)) (denLamLz w (.lam ps b')) := by
  have hself := selfLam hw (.lam ps b') E hE
  refine ⟨?_, hself.1, ?_, hself.2.2.1⟩
  · intro u u' hu hu'
    match ps with
    | [x] =>
      simp only [denLamLz, applyLam1]
      exact RLe.trans (denLz_mono w hw b _ _ (hE.upd x hu) (hE.upd x hu')) (hb _ (hE.upd x hu'))
    | [] => exact RLe.error _ _
    | _ :: _ :: _ => exact RLe.error _ _
  · intro a a' u u' ha ha' hu hu'
    match ps with
    | [x, y] =>
      simp only [denLamLz, applyLam2]
      split
      · exact RLe.error _ _
      · exact RLe.trans (denLz_mono w hw b _ _ ((hE.upd x ha).upd y hu) ((hE.upd x ha').upd y hu'))
          (hb _ ((hE.upd x ha').upd y hu'))
    | [] => exact RLe.error _ _
    | [_] => exact RLe.error _ _
    | _ :: _ :: _ :: _ => exact RLe.error _ _

/-! ### free names of the pieces of a call -/

theorem fv_fcall2_left {op : String} {a b : Expr} {x : String} (h : x ∈ fv a) : x ∈ fv (fcall op [a, b]) := by
  simp only [fv, fcall, freeNames, freeNamesL, List.mem_append]
  exact Or.inl (Or.inr (Or.inl h))

theorem fv_call_arg0 {f a : Expr} {rest : List Expr} {kwn : List String} {kwv : List Expr} {x : String} (h : x ∈ fv a) :
    x ∈ fv (.call f (a :: rest) kwn kwv) := by
  simp only [fv, freeNames, freeNamesL, List.mem_append]
  exact Or.inl (Or.inr (Or.inl h))

theorem fv_call_arg1 {f a b : Expr} {rest : List Expr} {kwn : List String} {kwv : List Expr} {x : String} (h : x ∈ fv b) :
    x ∈ fv (.call f (a :: b :: rest) kwn kwv) := by
  simp only [fv, freeNames, freeNamesL, List.mem_append]
  exact Or.inl (Or.inr (Or.inr (Or.inl h)))

theorem keyFree_sub {st : SStack} {e e' : Expr} (h : keyFree st e = true) (hsub : ∀ x, x ∈ fv e' → x ∈ fv e) :
    keyFree st e' = true := by
  rw [keyFree, disjoint_iff] at h ⊢
  exact fun k hk hx => h k hk (hsub k hx)

/-! ### `convolute` -/

structure ConvOK (st : SStack) (g f : Expr) (conv : Expr) : Prop where
  shape : ∃ gps gb fps fb gps' fps' x, g = .lam gps gb ∧ f = .lam fps fb ∧
    FreshFor gps' gps gb st ∧ FreshFor fps' fps fb st ∧
    conv = convLam x (.lam gps' (renameNames ((gps.zip gps').reverse) gb)) (.lam fps' (renameNames ((fps.zip fps').reverse) fb)) ∧
    x ∉ fv (.lam gps' (renameNames ((gps.zip gps').reverse) gb)) ∧
    x ∉ fv (.lam fps' (renameNames ((fps.zip fps').reverse) fb)) ∧ x ∉ fv g ∧ x ∉ fv f

theorem convoluteCk_ok {g f : Expr} {c : Nat} {st : SStack} {conv : Expr} {c' : Nat}
    (h : convoluteCk g f c st = .ok (conv, c')) : ConvOK st g f conv := by
  unfold convoluteCk at h
  cases g <;> try (simp at h)
  rename_i gps gb
  cases f <;> try (simp at h)
  rename_i fps fb
  cases h1 : makeArgsUniqueCk gps gb c st with
  | error e => simp [h1, bind, Except.bind] at h
  | ok r1 =>
    obtain ⟨gps', gb', c1⟩ := r1
    simp only [h1, bind, Except.bind] at h
    cases h2 : makeArgsUniqueCk fps fb c1 st with
    | error e => simp [h2] at h
    | ok r2 =>
      obtain ⟨fps', fb', c2⟩ := r2
      simp only [h2] at h
      obtain ⟨rfl, _, _, hf1⟩ := makeArgsUniqueCk_ok h1
      obtain ⟨rfl, _, _, hf2⟩ := makeArgsUniqueCk_ok h2
      split at h
      · rename_i hg
        simp only [Except.ok.injEq, Prod.mk.injEq] at h
        obtain ⟨⟨⟨⟨⟨g1, g2⟩, _⟩, _⟩, g5⟩, g6⟩ := hg
        exact ⟨gps, gb, fps, fb, gps', fps', argName c2, rfl, rfl, hf1, hf2, h.1.symm, g1, g2, g5, g6⟩
      · cases h

/-- the composition built by `convolute` computes the composition of the two functions (as refinements) -/
theorem conv_fnle (hw : WorldOK w) {st : SStack} {g f conv : Expr} (hc : ConvOK st g f conv) (E : Env) (hE : EnvLe E E) :
    FnLe (fun u => applyLam1 (denLamLz w f) E u >>= applyLam1 (denLamLz w g) E) (applyLam1 (denLamLz w conv) E) := by
  obtain ⟨gps, gb, fps, fb, gps', fps', x, rfl, rfl, hf1, hf2, rfl, hx1, hx2, _, _⟩ := hc.shape
  intro u u' hu hu'
  rw [convLam_sem w E x gps' fps' _ _ hx2 hx1 u']
  have hF := (rename_lamRel hw hf2 E hE).1
  have hG := (rename_lamRel hw hf1 E hE).1
  have hF' := (rename_lamRel hw hf2 E hE).2.1
  exact RLe.bind2 (hF u u' hu hu') (hF' u' u' hu' hu') (fun r r' hr hr' => hG r r' hr hr')

/-! ### `Select` -/

/-- a call of an operator by name: with exactly two arguments it is `fcall`, with more it fails -/
theorem op_call_cases {op : String} (hop : isOp3 op) (a b : Expr) (rest : List Expr) (kwn : List String) (kwv : List Expr)
    (env : Env) (r : Res) (h : RLe (denLz w (fcall op [a, b]) env) r) :
    RLe (denLz w (.call (.name op) (a :: b :: rest) kwn kwv) env) r := by
  cases rest with
  | nil => rw [den_op_call_kw hop]; exact h
  | cons c rest' => exact op_many_fails hop a b c rest' kwn kwv env r

/-- the source of an operator, simplified to `parent` (which mentions no key), in the environment of the original -/
theorem parent_drel (hw : WorldOK w) {st : SStack} {source parent : Expr} (hs : Sem w st source parent)
    (hk : keyFree st parent = true) {envM env : Env} (hr : EnvRel w st envM env) :
    DRel envM envM (denLz w source) (denLz w parent) := by
  refine ⟨?_, denLz_self w hw parent envM hr.wfM⟩
  rw [hr.coincide parent hk]
  exact hs.val envM env hr

/-- default clause: `Select(source, transform)` with a source that is no `Select` / `SelectMany` -/
theorem select_default (hw : WorldOK w) {st : SStack} {source transform parent sel : Expr}
    (hs : Sem w st source parent) (ht : Sem w st transform sel) {envM env : Env} (hr : EnvRel w st envM env) :
    RLe (denLz w (fcall "Select" [source, transform]) envM) (denLz w (makeSelect parent sel) env) :=
  RLe.trans (op2_transfer (Or.inl rfl) (hs.drel hw hr) (ht.lamrel hw hr)) (makeSelect_le hw parent sel env hr.wf)

/-- `Select(Select(src, f), transform)`: one `Select` with the composition -/
theorem select_select (hw : WorldOK w) {st : SStack} {source transform src f conv sel : Expr} (k1 : List String) (k2 : List Expr)
    (prest : List Expr)
    (hs : Sem w st source (.call (.name "Select") (src :: f :: prest) k1 k2))
    (hk : keyFree st (.call (.name "Select") (src :: f :: prest) k1 k2) = true)
    (hc : ConvOK st transform f conv) (ih : Sem w st conv sel) {envM env : Env} (hr : EnvRel w st envM env) :
    RLe (denLz w (fcall "Select" [source, transform]) envM) (denLz w (makeSelect src sel) env) := by
  obtain ⟨gps, gb, fps, fb, gps', fps', x, rfl, rfl, hf1, hf2, rfl, hx1, hx2, _, _⟩ := hc.shape
  have hsrcK : keyFree st src = true := keyFree_sub hk (fun y hy => fv_call_arg0 hy)
  have hpd := parent_drel hw hs hk hr
  -- 1. source ⊑ Select(src, f'') in the environment of the original
  have h1 : DRel envM envM (denLz w source) (denLz w (fcall "Select" [src, .lam fps' (renameNames ((fps.zip fps').reverse) fb)])) := by
    refine ⟨RLe.trans hpd.1 ?_, denLz_self w hw _ envM hr.wfM⟩
    apply op_call_cases (Or.inl rfl)
    exact op2_transfer (Or.inl rfl) (drel_self hw src envM hr.wfM) (rename_lamRel hw hf2 envM hr.wfM)
  -- 2. the outer Select with the renamed transform
  have h2 := op2_transfer (op := "Select") (Or.inl rfl) h1 (rename_lamRel hw hf1 envM hr.wfM)
  -- 3. fusion
  rw [rule_select_select w envM src x gps' fps' _ _ hx2 hx1 hw hr.wfM] at h2
  -- 4. into the environment of the result
  have hsrc : DRel envM env (denLz w src) (denLz w src) := by
    refine ⟨?_, denLz_self w hw src env hr.wf⟩
    rw [hr.coincide src hsrcK]; exact denLz_self w hw src env hr.wf
  have h4 := op2_transfer (op := "Select") (Or.inl rfl) hsrc (ih.lamrel hw hr)
  exact RLe.trans h2 (RLe.trans h4 (makeSelect_le hw src sel env hr.wf))

/-- `Select(SelectMany(src, f), transform)`: the `Select` moves under the `SelectMany` -/
theorem select_selectMany (hw : WorldOK w) {st : SStack} {source transform src fb out : Expr} (fps : List String)
    (k1 : List String) (k2 : List Expr) (prest : List Expr)
    (hs : Sem w st source (.call (.name "SelectMany") (src :: .lam fps fb :: prest) k1 k2))
    (hk : keyFree st (.call (.name "SelectMany") (src :: .lam fps fb :: prest) k1 k2) = true)
    (hd : ∀ p ∈ fps, p ∉ fv transform)
    (ih : Sem w st (fcall "SelectMany" [src, .lam fps (makeSelect fb transform)]) out) {envM env : Env} (hr : EnvRel w st envM env) :
    RLe (denLz w (fcall "Select" [source, transform]) envM) (denLz w out env) := by
  have hpd := parent_drel hw hs hk hr
  have h1 : DRel envM envM (denLz w source) (denLz w (fcall "SelectMany" [src, .lam fps fb])) := by
    refine ⟨RLe.trans hpd.1 ?_, denLz_self w hw _ envM hr.wfM⟩
    apply op_call_cases (Or.inr (Or.inr rfl))
    exact denLz_self w hw _ envM hr.wfM
  have h2 := op2_transfer (op := "Select") (Or.inl rfl) h1 (selfLam hw transform envM hr.wfM)
  rw [rule_select_selectMany w envM src fps fb transform hd] at h2
  -- `make_Select` under the lambda
  have h3 : RLe (denLz w (fcall "SelectMany" [src, .lam fps (fcall "Select" [fb, transform])]) envM)
      (denLz w (fcall "SelectMany" [src, .lam fps (makeSelect fb transform)]) envM) :=
    op2_transfer (Or.inr (Or.inr rfl)) (drel_self hw src envM hr.wfM)
      (lam_body_le hw fps _ _ (fun E hE => makeSelect_le hw fb transform E hE) envM hr.wfM)
  exact RLe.trans h2 (RLe.trans h3 (ih.val envM env hr))

/-! ### `SelectMany` -/

theorem selectMany_default (hw : WorldOK w) {st : SStack} {source selection parent sel : Expr}
    (hs : Sem w st source parent) (ht : Sem w st selection sel) {envM env : Env} (hr : EnvRel w st envM env) :
    RLe (denLz w (fcall "SelectMany" [source, selection]) envM) (denLz w (fcall "SelectMany" [parent, sel]) env) :=
  op2_transfer (Or.inr (Or.inr rfl)) (hs.drel hw hr) (ht.lamrel hw hr)

theorem keyFree_arg0 {st : SStack} {f a : Expr} {rest : List Expr} {k1 : List String} {k2 : List Expr}
    (hk : keyFree st (.call f (a :: rest) k1 k2) = true) : keyFree st a = true :=
  keyFree_sub hk (fun _ hy => fv_call_arg0 hy)

theorem keyFree_arg1 {st : SStack} {f a b : Expr} {rest : List Expr} {k1 : List String} {k2 : List Expr}
    (hk : keyFree st (.call f (a :: b :: rest) k1 k2) = true) : keyFree st b = true :=
  keyFree_sub hk (fun _ hy => fv_call_arg1 hy)

theorem src_drel (hw : WorldOK w) {st : SStack} {src : Expr} (hk : keyFree st src = true) {envM env : Env}
    (hr : EnvRel w st envM env) : DRel envM env (denLz w src) (denLz w src) := by
  refine ⟨?_, denLz_self w hw src env hr.wf⟩
  rw [hr.coincide src hk]; exact denLz_self w hw src env hr.wf

/-- `SelectMany(Select(seq, f), selection)`: one `SelectMany` with the composition -/
theorem selectMany_select (hw : WorldOK w) {st : SStack} {source selection seq f conv sel : Expr} (k1 : List String) (k2 : List Expr)
    (hs : Sem w st source (.call (.name "Select") [seq, f] k1 k2))
    (hk : keyFree st (.call (.name "Select") [seq, f] k1 k2) = true)
    (hc : ConvOK st selection f conv) (ih : Sem w st conv sel) {envM env : Env} (hr : EnvRel w st envM env) :
    RLe (denLz w (fcall "SelectMany" [source, selection]) envM) (denLz w (fcall "SelectMany" [seq, sel]) env) := by
  obtain ⟨gps, gb, fps, fb, gps', fps', x, rfl, rfl, hf1, hf2, rfl, hx1, hx2, _, _⟩ := hc.shape
  have hpd := parent_drel hw hs hk hr
  have h1 : DRel envM envM (denLz w source) (denLz w (fcall "Select" [seq, .lam fps' (renameNames ((fps.zip fps').reverse) fb)])) := by
    refine ⟨RLe.trans hpd.1 ?_, denLz_self w hw _ envM hr.wfM⟩
    rw [den_op_call_kw (Or.inl rfl)]
    exact op2_transfer (Or.inl rfl) (drel_self hw seq envM hr.wfM) (rename_lamRel hw hf2 envM hr.wfM)
  have h2 := op2_transfer (op := "SelectMany") (Or.inr (Or.inr rfl)) h1 (rename_lamRel hw hf1 envM hr.wfM)
  rw [rule_selectMany_select w envM seq x gps' fps' _ _ hx2 hx1 hw hr.wfM] at h2
  exact RLe.trans h2 (op2_transfer (Or.inr (Or.inr rfl)) (src_drel hw (keyFree_arg0 hk) hr) (ih.lamrel hw hr))

theorem ELe.toRLe' (hw : WorldOK w) {e1 e2 : Expr} {E : Env} (hE : EnvLe E E) (h : ELe (denLz w e1 E) (denLz w e2 E)) :
    RLe (denLz w e1 E) (denLz w e2 E) := fun v hv => ⟨v, h v hv, denLz_wf w hw e1 E hE v hv⟩

/-- `SelectMany(SelectMany(seq, lambda p: fb), selection)`: the second one moves under the first -/
theorem selectMany_selectMany (hw : WorldOK w) {st : SStack} {source selection seq fb out : Expr} (p : String)
    (k1 : List String) (k2 : List Expr)
    (hs : Sem w st source (.call (.name "SelectMany") [seq, .lam [p] fb] k1 k2))
    (hk : keyFree st (.call (.name "SelectMany") [seq, .lam [p] fb] k1 k2) = true)
    (hp : p ∉ fv selection)
    (ih : Sem w st (fcall "SelectMany" [seq, .lam [p] (fcall "SelectMany" [fb, selection])]) out)
    {envM env : Env} (hr : EnvRel w st envM env) :
    RLe (denLz w (fcall "SelectMany" [source, selection]) envM) (denLz w out env) := by
  have hpd := parent_drel hw hs hk hr
  have h1 : DRel envM envM (denLz w source) (denLz w (fcall "SelectMany" [seq, .lam [p] fb])) := by
    refine ⟨RLe.trans hpd.1 ?_, denLz_self w hw _ envM hr.wfM⟩
    rw [den_op_call_kw (Or.inr (Or.inr rfl))]
    exact denLz_self w hw _ envM hr.wfM
  have h2 := op2_transfer (op := "SelectMany") (Or.inr (Or.inr rfl)) h1 (selfLam hw selection envM hr.wfM)
  have h3 := ELe.toRLe' hw hr.wfM (rule_selectMany_selectMany w envM seq [p] fb selection (by simpa using hp))
  exact RLe.trans h2 (RLe.trans h3 (ih.val envM env hr))

/-! ### `Where` -/

theorem where_true_le (hw : WorldOK w) (parent f' : Expr) (ht : lambdaIsTrue f' = true) (E : Env) (hE : EnvLe E E) :
    RLe (denLz w (fcall "Where" [parent, f']) E) (denLz w parent E) := by
  intro out ho
  rw [denLz_op2 w E "Where" (Or.inr (Or.inl rfl))] at ho
  cases hs : denLz w parent E with
  | error e => simp [hs, bind, Except.bind] at ho
  | ok s =>
    cases hv : asSeq s with
    | error e => simp [hs, hv, bind, Except.bind] at ho
    | ok vs =>
      have hsl : s = .list vs := by cases s <;> simp [asSeq] at hv; rw [hv]
      subst hsl
      simp only [hs, bind, Except.bind, asSeq, seqOp2Lz_where] at ho
      have hwf := denLz_wf w hw parent E hE _ hs
      -- the filter is a lambda whose body is the constant True
      unfold lambdaIsTrue at ht
      split at ht
      · rename_i ps
        have hsingle : ∀ (x : String), ps = [x] → ∃ v', (Except.ok (Val.list vs) : Res) = Except.ok v' ∧ VLe out v' := by
          intro x hps
          subst hps
          have hf : applyLam1 (denLamLz w (.lam [x] (.const (.bool true)))) E = fun _ => .ok (.bool true) := by
            funext u; simp [denLamLz, applyLam1, denLz, constVal]
          rw [hf] at ho
          cases hw' : whereLz (fun _ => Except.ok (Val.bool true)) vs with
          | error e => rw [hw'] at ho; simp [Except.map] at ho
          | ok r =>
            rw [hw'] at ho
            simp only [Except.map, Except.ok.injEq] at ho
            have := whr_true vs r hw'
            simp only [Except.ok.injEq] at this
            subst this ho
            exact ⟨_, rfl, hwf⟩
        have hother : (∀ x, ps ≠ [x]) → ∃ v', (Except.ok (Val.list vs) : Res) = Except.ok v' ∧ VLe out v' := by
          intro hps
          have hf : applyLam1 (denLamLz w (.lam ps (.const (.bool true)))) E = fun _ => .error .arity := by
            funext u
            match ps, hps with
            | [], _ => rfl
            | [x], h => exact absurd rfl (h x)
            | _ :: _ :: _, _ => rfl
          rw [hf] at ho
          cases vs with
          | nil => simp [whereLz, Except.map] at ho; subst ho; exact ⟨_, rfl, hwf⟩
          | cons v0 rest =>
            exfalso
            simp only [whereLz] at ho
            cases hfv : force v0 <;> simp [hfv, bind, Except.bind, Except.map] at ho
        match ps with
        | [x] => exact hsingle x rfl
        | [] => exact hother (by intro x h; cases h)
        | _ :: _ :: _ => exact hother (by intro x h; cases h)
      · cases ht

theorem where_default (hw : WorldOK w) {st : SStack} {source filter parent f' : Expr}
    (hs : Sem w st source parent) (ht : Sem w st filter f') {envM env : Env} (hr : EnvRel w st envM env) :
    RLe (denLz w (fcall "Where" [source, filter]) envM)
        (denLz w (if lambdaIsTrue f' then parent else fcall "Where" [parent, f']) env) := by
  have h1 := op2_transfer (op := "Where") (Or.inr (Or.inl rfl)) (hs.drel hw hr) (ht.lamrel hw hr)
  split
  · rename_i hlt
    exact RLe.trans h1 (where_true_le hw parent f' hlt env hr.wf)
  · exact h1

/-- `Where(Where(src, f), filter)`: one `Where` with the conjunction -/
theorem where_where (hw : WorldOK w) {st : SStack} {source filter src out : Expr} (fps gps : List String) (fb gb : Expr) (x : String)
    (k1 : List String) (k2 : List Expr) (prest : List Expr) (hflt : filter = .lam gps gb)
    (hs : Sem w st source (.call (.name "Where") (src :: .lam fps fb :: prest) k1 k2))
    (hk : keyFree st (.call (.name "Where") (src :: .lam fps fb :: prest) k1 k2) = true)
    (hx1 : x ∉ fv (.lam fps fb)) (hx2 : x ∉ fv filter)
    (ih : Sem w st (fcall "Where" [src, andLam x (.lam fps fb) filter]) out) {envM env : Env} (hr : EnvRel w st envM env) :
    RLe (denLz w (fcall "Where" [source, filter]) envM) (denLz w out env) := by
  subst hflt
  have hpd := parent_drel hw hs hk hr
  have h1 : DRel envM envM (denLz w source) (denLz w (fcall "Where" [src, .lam fps fb])) := by
    refine ⟨RLe.trans hpd.1 ?_, denLz_self w hw _ envM hr.wfM⟩
    apply op_call_cases (Or.inr (Or.inl rfl))
    exact denLz_self w hw _ envM hr.wfM
  have h2 := op2_transfer (op := "Where") (Or.inr (Or.inl rfl)) h1 (selfLam hw (.lam gps gb) envM hr.wfM)
  have h3 := ELe.toRLe' hw hr.wfM (rule_where_where w envM src x gps fps gb fb hx1 hx2)
  exact RLe.trans h2 (RLe.trans h3 (ih.val envM env hr))

/-- `Where(SelectMany(seq, f), filter)`: the `Where` moves under the `SelectMany` -/
theorem where_selectMany (hw : WorldOK w) {st : SStack} {source filter seq fb out : Expr} (fps : List String)
    (k1 : List String) (k2 : List Expr) (prest : List Expr)
    (hs : Sem w st source (.call (.name "SelectMany") (seq :: .lam fps fb :: prest) k1 k2))
    (hk : keyFree st (.call (.name "SelectMany") (seq :: .lam fps fb :: prest) k1 k2) = true)
    (hd : ∀ p ∈ fps, p ∉ fv filter)
    (ih : Sem w st (fcall "SelectMany" [seq, .lam fps (fcall "Where" [fb, filter])]) out) {envM env : Env} (hr : EnvRel w st envM env) :
    RLe (denLz w (fcall "Where" [source, filter]) envM) (denLz w out env) := by
  have hpd := parent_drel hw hs hk hr
  have h1 : DRel envM envM (denLz w source) (denLz w (fcall "SelectMany" [seq, .lam fps fb])) := by
    refine ⟨RLe.trans hpd.1 ?_, denLz_self w hw _ envM hr.wfM⟩
    apply op_call_cases (Or.inr (Or.inr rfl))
    exact denLz_self w hw _ envM hr.wfM
  have h2 := op2_transfer (op := "Where") (Or.inr (Or.inl rfl)) h1 (selfLam hw filter envM hr.wfM)
  have h3 := ELe.toRLe' hw hr.wfM (rule_where_selectMany w envM seq fps fb filter hd)
  exact RLe.trans h2 (RLe.trans h3 (ih.val envM env hr))

theorem lamrel_of_keyFree (hw : WorldOK w) {st : SStack} {l : Expr} (hk : keyFree st l = true) {envM env : Env}
    (hr : EnvRel w st envM env) : LamRel envM env (denLamLz w l) (denLamLz w l) := by
  have ha := hr.coincide_lam l hk
  have hself := selfLam hw l env hr.wf
  refine ⟨?_, hself.1, ?_, hself.2.2.1⟩
  · intro v v' hv hv'; rw [ha.1 v]; exact hself.1 v v' hv hv'
  · intro a a' v v' h1 h2 h3 h4; rw [ha.2 a v]; exact hself.2.2.1 a a' v v' h1 h2 h3 h4

/-- `Where(Select(src, f), filter)`: filter on the composition first, then map -/
theorem where_select (hw : WorldOK w) {st : SStack} {source filter src f conv wexp out : Expr} (k1 : List String) (k2 : List Expr)
    (prest : List Expr)
    (hs : Sem w st source (.call (.name "Select") (src :: f :: prest) k1 k2))
    (hk : keyFree st (.call (.name "Select") (src :: f :: prest) k1 k2) = true)
    (hc : ConvOK st filter f conv) (ihw : Sem w st conv wexp)
    (hkr : keyFree st (makeSelect (fcall "Where" [src, wexp]) f) = true)
    (ih2 : Sem w st (makeSelect (fcall "Where" [src, wexp]) f) out) {envM env : Env} (hr : EnvRel w st envM env) :
    RLe (denLz w (fcall "Where" [source, filter]) envM) (denLz w out env) := by
  have hconv := conv_fnle hw hc envM hr.wfM
  obtain ⟨gps, gb, fps, fb, gps', fps', x, rfl, rfl, hf1, hf2, rfl, hx1, hx2, hxg, hxf⟩ := hc.shape
  have hpd := parent_drel hw hs hk hr
  have h1 : DRel envM envM (denLz w source) (denLz w (fcall "Select" [src, .lam fps fb])) := by
    refine ⟨RLe.trans hpd.1 ?_, denLz_self w hw _ envM hr.wfM⟩
    apply op_call_cases (Or.inl rfl)
    exact denLz_self w hw _ envM hr.wfM
  have h2 := op2_transfer (op := "Where") (Or.inr (Or.inl rfl)) h1 (selfLam hw (.lam gps gb) envM hr.wfM)
  rw [rule_where_select w envM src x gps fps gb fb hxf hxg hw hr.wfM] at h2
  -- the composition with the original lambdas is refined by the one `convolute` built, and that by its simplification
  have hcomp : LamRel envM env (denLamLz w (convLam x (.lam gps gb) (.lam fps fb))) (denLamLz w wexp) := by
    have hself := selfLam hw wexp env hr.wf
    refine ⟨?_, hself.1, fun _ _ _ _ _ _ _ _ => RLe.error _ _, hself.2.2.1⟩
    have e1 : applyLam1 (denLamLz w (convLam x (.lam gps gb) (.lam fps fb))) envM =
        fun u => applyLam1 (denLamLz w (.lam fps fb)) envM u >>= applyLam1 (denLamLz w (.lam gps gb)) envM :=
      funext (convLam_sem w envM x gps fps gb fb hxf hxg)
    rw [e1]
    exact FnLe.trans hconv (ihw.lam1 envM env hr)
  have hsrcK : keyFree st src = true := keyFree_arg0 hk
  have hfK : keyFree st (.lam fps fb) = true := keyFree_arg1 hk
  have h3 : RLe (denLz w (fcall "Select" [fcall "Where" [src, convLam x (.lam gps gb) (.lam fps fb)], .lam fps fb]) envM)
      (denLz w (fcall "Select" [fcall "Where" [src, wexp], .lam fps fb]) env) := by
    apply op2_transfer (Or.inl rfl) _ (lamrel_of_keyFree hw hfK hr)
    exact ⟨op2_transfer (Or.inr (Or.inl rfl)) (src_drel hw hsrcK hr) hcomp, denLz_self w hw _ env hr.wf⟩
  have h4 := makeSelect_le hw (fcall "Where" [src, wexp]) (.lam fps fb) env hr.wf
  rw [← hr.coincide _ hkr] at h4
  exact RLe.trans h2 (RLe.trans h3 (RLe.trans h4 (ih2.val envM env hr)))

end Fadl
