/-
  C16 — query-level metadata accumulates, is inherited, and never reaches a backend.
-/
import Fadl.Lemmas.StreamInv
namespace Fadl

/-- **C16 (lookup)**: after any well-formed history, looking a key up on any stream returns the value
    most recently set for that key on that stream's own derivation path (`lastWrite` over the
    QMetaData dictionaries of the path, most recent first), or nothing if it was never set.
    Keys set earlier stay visible; a sibling's dictionaries are not on the path. -/
theorem qmd_lookup_spec (ops : List Op) (hwf : ∀ op ∈ ops, op.wf = true) (s : Stream)
    (hs : s ∈ (run ops).streams) (k : String) :
    lookupQMD (run ops).heap s.root k = lastWrite k s.path :=
  (inv_run ops hwf).look s hs k

/-- **C16 (never reaches a backend)**: the field tree of any stream's query — what `ast.dump`,
    `calc_ast_hash` and the executor see — is the term `tm` that the same chain builds with every
    QMetaData call left out. -/
theorem qmd_invisible (ops : List Op) (hwf : ∀ op ∈ ops, op.wf = true) (s : Stream)
    (hs : s ∈ (run ops).streams) : abs (run ops).heap s.root = s.tm :=
  (inv_run ops hwf).tm s hs

/-- how `tm` and `path` are defined by each operation (the ghost bookkeeping the two theorems above
    refer to): QMetaData leaves `tm` alone and pushes its dictionary on the path; derivations extend
    `tm` and inherit the path. -/
theorem qmeta_ghost (st : St) (hinv : Inv st) (s : Nat) (md : QMd) (str : Stream)
    (h : st.streams[s]? = some str) :
    ∃ new, (step st (.qmeta s md)).streams = st.streams ++ [new] ∧ new.tm = str.tm ∧
      new.path = md :: str.path ∧ new.itemType = str.itemType ∧ new.ds = str.ds := by
  simp only [step, h]
  split
  · exact ⟨_, rfl, rfl, rfl, rfl, rfl⟩
  · cases hc : st.heap[str.root]? with
    | none =>
      have := hinv.roots str (mem_of_getElem? h)
      have h2 : st.heap[str.root]? ≠ Option.none := by
        simp only [ne_eq, List.getElem?_eq_none_iff, Nat.not_le]; exact this
      exact absurd hc h2
    | some c => exact ⟨_, rfl, rfl, rfl, rfl, rfl⟩

end Fadl
