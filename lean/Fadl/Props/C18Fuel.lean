/-
  C18 / C02 — the simplifier model's fuel is irrelevant once it is enough: a result obtained with some fuel is obtained,
  unchanged, with any larger fuel (`simp_fuel_irrelevant`, `simplify_fuel_irrelevant`; `simp_fuelMono` through the visitor
  and call_Select / call_SelectMany / call_Where).  Termination itself (that some fuel is enough for every well-formed
  query) is not proved; the correspondence runs report a fuel failure of the model as a disagreement.
-/
import Fadl.Model.Simplify
namespace Fadl
set_option linter.unusedSimpArgs false
set_option linter.unusedVariables false

def SRef {α : Type} (a a' : Except Err α) : Prop := ∀ r, a = .ok r → a' = .ok r

theorem SRef.rfl' {α : Type} (a : Except Err α) : SRef a a := fun _ h => h
theorem SRef.err {α : Type} (e : Err) (a' : Except Err α) : SRef (.error e) a' := fun _ h => by cases h
theorem SRef.bind {α β : Type} {a a' : Except Err α} {f f' : α → Except Err β} (h : SRef a a') (hf : ∀ x, SRef (f x) (f' x)) :
    SRef (a >>= f) (a' >>= f') := by
  intro r hr
  cases a with
  | error e => cases hr
  | ok x =>
    have := h x rfl
    subst this
    exact hf x r hr

def SimpMono (n : Nat) : Prop :=
  (∀ st c e, SRef (simp n st c e) (simp (n + 1) st c e)) ∧
  (∀ st c es, SRef (simpL n st c es) (simpL (n + 1) st c es)) ∧
  (∀ st c args kwn kwv, SRef (callSelect n st c args kwn kwv) (callSelect (n + 1) st c args kwn kwv)) ∧
  (∀ st c args kwn kwv, SRef (callSelectMany n st c args kwn kwv) (callSelectMany (n + 1) st c args kwn kwv)) ∧
  (∀ st c args kwn kwv, SRef (callWhere n st c args kwn kwv) (callWhere (n + 1) st c args kwn kwv))

theorem simp_fuelMono : ∀ n, SimpMono n := by
  intro n
  induction n with
  | zero =>
    refine ⟨?_, ?_, ?_, ?_, ?_⟩ <;> intros <;> simp only [simp, simpL, callSelect, callSelectMany, callWhere] <;> exact SRef.err _ _
  | succ n ih =>
    obtain ⟨ihS, ihL, ihCS, ihCM, ihCW⟩ := ih
    refine ⟨?_, ?_, ?_, ?_, ?_⟩
    · intro st c e
      cases e
      case call f args kwn kwv =>
        cases f <;> simp only [simp]
        all_goals (repeat' (first
          | exact SRef.rfl' _
          | exact SRef.err _ _
          | apply ihS | apply ihL | apply ihCS | apply ihCM | apply ihCW
          | (refine SRef.bind ?_ (fun _ => ?_))
          | (intro r h; have h2 := ihS _ _ _ r h; simpa only [simp] using h2)
          | split))
      all_goals (simp only [simp])
      all_goals (repeat' (first
        | exact SRef.rfl' _
        | exact SRef.err _ _
        | apply ihS | apply ihL | apply ihCS | apply ihCM | apply ihCW
        | (refine SRef.bind ?_ (fun _ => ?_))
        | split))
    · intro st c es
      cases es <;> simp only [simpL]
      all_goals (repeat' (first
        | exact SRef.rfl' _
        | apply ihS | apply ihL
        | (refine SRef.bind ?_ (fun _ => ?_))
        | split))
    · intro st c args kwn kwv
      rcases args with _ | ⟨a, _ | ⟨b, rest⟩⟩ <;> simp only [callSelect]
      all_goals repeat' (first
        | exact SRef.rfl' _
        | exact SRef.err _ _
        | apply ihS | apply ihL | apply ihCS | apply ihCM | apply ihCW
        | (refine SRef.bind ?_ (fun _ => ?_))
        | split)
    · intro st c args kwn kwv
      rcases args with _ | ⟨a, _ | ⟨b, rest⟩⟩ <;> simp only [callSelectMany]
      all_goals repeat' (first
        | exact SRef.rfl' _
        | exact SRef.err _ _
        | apply ihS | apply ihL | apply ihCS | apply ihCM | apply ihCW
        | (refine SRef.bind ?_ (fun _ => ?_))
        | split)
    · intro st c args kwn kwv
      rcases args with _ | ⟨a, _ | ⟨b, rest⟩⟩ <;> simp only [callWhere]
      all_goals repeat' (first
        | exact SRef.rfl' _
        | exact SRef.err _ _
        | apply ihS | apply ihL | apply ihCS | apply ihCM | apply ihCW
        | (refine SRef.bind ?_ (fun _ => ?_))
        | split)

/-- the simplifier model's result does not depend on its fuel once the fuel is enough -/
theorem simp_fuel_irrelevant (n k : Nat) (st : SStack) (c : Nat) (e : Expr) (r : Expr × Nat)
    (h : simp n st c e = .ok r) : simp (n + k) st c e = .ok r := by
  induction k with
  | zero => exact h
  | succ k ih => exact (simp_fuelMono (n + k)).1 st c e r ih

theorem simplify_fuel_irrelevant (n k c : Nat) (e : Expr) (r : Expr × Nat)
    (h : simplify n c e = .ok r) : simplify (n + k) c e = .ok r := simp_fuel_irrelevant n k _ _ e r h

end Fadl
