/-
  C07 — typed call sites are normalised to full positional form: the whole-grammar theorem.

  `follow_elabSound`: by induction over the fuel through all five mutually recursive functions of the follower model,
  whenever the follower accepts an expression the tree it returns is `elabOf` of the expression the user wrote
  (Model/ElabSpec.lean: a function of the declarations, the types in scope and the expression; no stream state).
  `elabOf` is compositional, so this holds at every nesting depth: every call node of the output is the elaboration of
  the corresponding call node of the input.  For a method call on a receiver of declared type the elaboration is the
  deciding candidate's call handed to the class-level and then the method-level callback, and
  `methodElab_full_positional` / `candElab_full` / `fillDefaults_full` show that this call carries every declared
  parameter of the candidate's method positionally, after the positional arguments the user wrote
  (`fill_matches_bind`, Props/C07.lean, says which values: the user's, positional or keyword, else the declared
  defaults).  Registered functions are filled in the same way (`fillDefaults_full`).  A call whose receiver has no
  declared type, or whose class does not declare the method, is rebuilt from its elaborated children: the library's own
  operators on untyped values keep the arguments the user wrote (see also `operators_untouched`).
-/
import Fadl.Props.C08Sound
import Fadl.Model.ElabSpec
namespace Fadl
set_option linter.unusedSimpArgs false
set_option linter.unusedVariables false

theorem applyCb_e (cb : Option CbSpec) (st : FSt) (e : Expr) : (applyCb cb st e).2 = applyCbE cb e := by
  cases cb <;> rfl

def MRes.proj (r : MRes) : CandElab := ⟨r.node, r.cand, r.mi, r.full⟩

def ElabSound (M : Model) (fuel : Nat) : Prop :=
  (∀ G st e r, follow M fuel G st e = .ok r → r.e = elabOf M fuel G e) ∧
  (∀ G st es rs st', followL M fuel G st es = .ok (rs, st') → rs.map (·.1) = elabOfL M fuel G es) ∧
  (∀ G st objTy recv m args kwn kwv r, methodCall M fuel G st objTy recv m args kwn kwv = .ok r →
      r.e = methodElab M fuel G objTy recv m args kwn kwv) ∧
  (∀ G st recv m args kwn kwv cands last' res' st',
      candLoop M fuel G st recv m args kwn kwv cands last' = .ok (res', st') →
      candElab M fuel G recv m args kwn kwv cands (last'.map MRes.proj) = res'.map MRes.proj) ∧
  (∀ G st cand m filled o', onStreamObj M fuel G st cand m filled = .ok o' →
      onStreamElab M fuel G cand m filled = o'.map (·.1))

theorem follow_elabSound (M : Model) : ∀ fuel, ElabSound M fuel := by
  intro fuel
  induction fuel with
  | zero =>
    refine ⟨?_, ?_, ?_, ?_, ?_⟩ <;> intros <;> simp_all [follow, followL, methodCall, candLoop, onStreamObj]
  | succ fuel ih =>
    obtain ⟨ihS, ihL, ihM, ihC, ihO⟩ := ih
    have tyS := (follow_tySound M fuel).1
    have tyL := (follow_tySound M fuel).2.1
    refine ⟨?_, ?_, ?_, ?_, ?_⟩
    · intro G st e x h
      cases e with
      | name y =>
        simp only [follow] at h
        split at h
        · cases h; simp [elabOf]
        · split at h <;> cases h <;> simp [elabOf]
      | const k => simp only [follow, Except.ok.injEq] at h; subst h; simp [elabOf]
      | lam ps b => simp only [follow, Except.ok.injEq] at h; subst h; simp [elabOf]
      | attr v a =>
        simp only [follow] at h
        replace h := bindE_ok h
        obtain ⟨r0, hv, h⟩ := h
        have e1 := ihS G st v r0 hv
        have hx : x.e = .attr r0.e a := by
          simp only [bind, Except.bind] at h
          repeat' (split at h)
          all_goals (first | (cases h; done) | (simp only [pure, Except.pure, Except.ok.injEq] at h; subst h; rfl))
        simp only [elabOf]; rw [hx, e1]
      | sub v s =>
        simp only [follow] at h
        replace h := bindE_ok h
        obtain ⟨rv, hv, h⟩ := h
        replace h := bindE_ok h
        obtain ⟨rs, hs, h⟩ := h
        have e1 := ihS G st v rv hv
        have e2 := ihS G rv.st s rs hs
        have hx : x.e = .sub rv.e rs.e := by
          simp only [bind, Except.bind] at h
          repeat' (split at h)
          all_goals (first | (cases h; done) | (simp only [pure, Except.pure, Except.ok.injEq] at h; subst h; rfl))
        simp only [elabOf]; rw [hx, e1, e2]
      | tuple es =>
        simp only [follow] at h
        replace h := bindE_ok h
        obtain ⟨⟨rs, st'⟩, hl, h⟩ := h
        have e1 := ihL G st es rs st' hl
        simp only [pure, Except.pure, Except.ok.injEq] at h; subst h
        simp only [elabOf]; rw [← e1]
      | list es =>
        simp only [follow] at h
        replace h := bindE_ok h
        obtain ⟨⟨rs, st'⟩, hl, h⟩ := h
        have e1 := ihL G st es rs st' hl
        simp only [pure, Except.pure, Except.ok.injEq] at h; subst h
        simp only [elabOf]; rw [← e1]
      | dict ks vs =>
        simp only [follow] at h
        replace h := bindE_ok h
        obtain ⟨⟨rk, st1⟩, hk, h⟩ := h
        replace h := bindE_ok h
        obtain ⟨⟨rv, st2⟩, hv, h⟩ := h
        replace h := bindE_ok h
        obtain ⟨kv, hkv, h⟩ := h
        have e1 := ihL G st ks rk st1 hk
        have e2 := ihL G st1 vs rv st2 hv
        simp only [pure, Except.pure, Except.ok.injEq] at h; subst h
        simp only [elabOf]; rw [← e1, ← e2]
      | op k args =>
        simp only [follow] at h
        replace h := bindE_ok h
        obtain ⟨⟨rs, st'⟩, hl, h⟩ := h
        have e1 := ihL G st args rs st' hl
        have hx : x.e = .op k (rs.map (·.1)) := by
          simp only [] at h
          repeat' (split at h)
          all_goals (first | (cases h; done) | (simp only [pure, Except.pure, Except.ok.injEq] at h; subst h; rfl))
        simp only [elabOf]; rw [hx, e1]
      | comp kind el t i ifs a =>
        simp only [follow] at h
        replace h := bindE_ok h
        obtain ⟨r1, h1, h⟩ := h
        replace h := bindE_ok h
        obtain ⟨r2, h2, h⟩ := h
        replace h := bindE_ok h
        obtain ⟨r3, h3, h⟩ := h
        replace h := bindE_ok h
        obtain ⟨⟨r4, st4⟩, h4, h⟩ := h
        have e1 := ihS G st el r1 h1
        have e2 := ihS G r1.st t r2 h2
        have e3 := ihS G r2.st i r3 h3
        have e4 := ihL G r3.st ifs r4 st4 h4
        simp only [pure, Except.pure, Except.ok.injEq] at h; subst h
        simp only [elabOf]; rw [e1, e2, e3, ← e4]
      | call f args kwn kwv =>
        simp only [follow] at h
        replace h := bindE_ok h
        obtain ⟨rf, hf, h⟩ := h
        replace h := bindE_ok h
        obtain ⟨⟨as', st1⟩, ha, h⟩ := h
        replace h := bindE_ok h
        obtain ⟨⟨ks', st2⟩, hk, h⟩ := h
        have e1 := ihS G st f rf hf
        have e2 := ihL G rf.st args as' st1 ha
        have e3 := ihL G st1 kwv ks' st2 hk
        have sf := (tyS G st f rf hf).2
        have ta := (tyL G rf.st args as' st1 ha).1
        have tk := (tyL G st1 kwv ks' st2 hk).1
        simp only [] at h
        simp only [elabOf]
        split at h
        · -- a method call
          rename_i recv m recv0 a0 heq
          simp only []
          have hsf := sf
          simp only [Sim] at hsf
          obtain ⟨v', hv', srecv⟩ := hsf
          rw [heq] at hv'
          simp only [Expr.attr.injEq] at hv'
          obtain ⟨rfl, rfl⟩ := hv'
          replace h := bindE_ok h
          obtain ⟨rr, hrr, h⟩ := h
          have trr := (tyS G st recv0 rr hrr).1
          have em := ihM G st2 rr.ty recv m _ kwn _ x h
          simp only [trr]
          rw [em, ← e1, heq, e2, e3]; rfl
        · -- a function called by name
          rename_i f _ _ n heq
          have hfn : f = .name n := by
            cases f <;> simp only [Sim] at sf <;> simp_all
          subst hfn
          simp only []
          split at h
          · rename_i fi hfi
            simp only [hfi]
            split at h
            · cases h
            · rename_i c hc
              simp only [pure, Except.pure, Except.ok.injEq] at h; subst h
              simp only [applyCb_e]
              rw [← e2, ← e3, hc]
          · rename_i hfi
            simp only [hfi]
            simp only [pure, Except.pure, Except.ok.injEq] at h; subst h
            simp only []; rw [e1, e2, e3]
        · -- a parameterized property
          rename_i recv pn sl recv0 a0 sl0 heq
          simp only []
          have hsf := sf
          simp only [Sim] at hsf
          obtain ⟨v', s', hv', sv, ssl⟩ := hsf
          obtain ⟨r', hr', srecv⟩ := sv
          rw [heq, hr'] at hv'
          simp only [Expr.sub.injEq, Expr.attr.injEq] at hv'
          obtain ⟨⟨rfl, rfl⟩, rfl⟩ := hv'
          replace h := bindE_ok h
          obtain ⟨rr, hrr, h⟩ := h
          have trr := (tyS G st recv0 rr hrr).1
          simp only [trr]
          split at h
          · rename_i hty
            simp only [hty]
            simp only [pure, Except.pure, Except.ok.injEq] at h; subst h
            simp only []; rw [e1, e2, e3]
          · rename_i cn cargs hty
            simp only [hty]
            split at h
            · rename_i p hp
              simp only [hp]
              split at h
              · rename_i cb hcb
                replace h := bindE_ok h
                obtain ⟨kk, hkk, h⟩ := h
                simp only [pure, Except.pure, Except.ok.injEq] at h; subst h
                simp only [applyCb_e, hcb]
                rw [← e1, heq, e2, e3]; rfl
              · cases h
            · cases h
          · simp only [pure, Except.pure, Except.ok.injEq] at h; subst h
            rename_i hne1 hne2
            simp only []
            first
              | (rw [e1, e2, e3]; done)
              | (split
                 · rename_i cn cargs hc; exact absurd hc (hne2 cn cargs)
                 · rw [e1, e2, e3])
        · -- an immediately called lambda
          rename_i f _ _ ps body heq
          have hfn : f = .lam ps body := Sim_lam_inv sf heq
          subst hfn
          simp only [ta, tk]
          replace h := bindE_ok h
          obtain ⟨rb, hrb, h⟩ := h
          have eb := ihS _ st2 body rb hrb
          simp only [pure, Except.pure, Except.ok.injEq] at h; subst h
          simp only []; rw [eb, e2, e3]
        · -- anything else
          rename_i f _ _ hn1 hn2 hn3 hn4
          simp only [pure, Except.pure, Except.ok.injEq] at h; subst h
          have hsf := sf
          simp only []
          split
          · rename_i recv m
            simp only [Sim] at hsf
            obtain ⟨v', hv', _⟩ := hsf
            exact absurd rfl (hn3 _ _ _ _ hv')
          · rename_i n
            simp only [Sim] at hsf
            exact absurd hsf (hn1 n)
          · rename_i recv pn sl
            simp only [Sim] at hsf
            obtain ⟨v', s', hv', ⟨r', hr', _⟩, _⟩ := hsf
            rw [hr'] at hv'
            exact absurd rfl (hn4 _ _ _ _ _ _ hv')
          · rename_i ps body
            simp only [Sim] at hsf
            exact absurd hsf (hn2 ps body)
          · rw [e1, e2, e3]
    · intro G st es rs st' h
      cases es with
      | nil =>
        simp only [followL, Except.ok.injEq, Prod.mk.injEq] at h
        obtain ⟨rfl, rfl⟩ := h
        simp [elabOfL]
      | cons e rest =>
        simp only [followL] at h
        replace h := bindE_ok h
        obtain ⟨r, he, h⟩ := h
        replace h := bindE_ok h
        obtain ⟨⟨rr, st2⟩, hr, h⟩ := h
        have e1 := ihS G st e r he
        have e2 := ihL G r.st rest rr st2 hr
        simp only [pure, Except.pure, Except.ok.injEq, Prod.mk.injEq] at h
        obtain ⟨rfl, rfl⟩ := h
        simp only [elabOfL, List.map_cons]; rw [e1, e2]
    · intro G st objTy recv m args kwn kwv x h
      simp only [methodCall] at h
      replace h := bindE_ok h
      obtain ⟨⟨res', st'⟩, hc, h⟩ := h
      have ec := ihC G st recv m args kwn kwv _ Option.none res' st' hc
      simp only [Option.map_none] at ec
      simp only [methodElab, ec]
      cases res' with
      | none =>
        simp only [pure, Except.pure, Except.ok.injEq] at h; subst h
        rfl
      | some r =>
        simp only [pure, Except.pure, Except.ok.injEq] at h; subst h
        simp only [Option.map_some, applyCb_e, MRes.proj]
    · intro G st recv m args kwn kwv cands last' res' st' h
      cases cands with
      | nil =>
        simp only [candLoop, Except.ok.injEq, Prod.mk.injEq] at h
        obtain ⟨rfl, rfl⟩ := h
        simp only [candElab]
      | cons cand rest =>
        simp only [candLoop] at h
        simp only [candElab]
        split at h
        · rename_i hfm
          simp only [hfm]
          exact ihC G st recv m args kwn kwv rest last' res' st' h
        · rename_i defining mi hfm
          simp only [hfm]
          replace h := bindE_ok h
          obtain ⟨filled, hfd, h⟩ := h
          simp only [hfd]
          have hfollow : ∀ (L' : Option MRes),
              ((do
                let followed ← onStreamObj M fuel G st cand m filled
                match followed with
                  | some (n, t, st') => pure (some ({ node := n, ty := t, full := true, cand := cand, mi := mi } : MRes), st')
                  | Option.none => candLoop M fuel G st recv m args kwn kwv rest L') = .ok (res', st')) →
              ∃ o, onStreamElab M fuel G cand m filled = o ∧
                ((∃ n, o = some n ∧ res'.map MRes.proj = some ⟨n, cand, mi, true⟩) ∨
                 (o = Option.none ∧ candElab M fuel G recv m args kwn kwv rest (L'.map MRes.proj) = res'.map MRes.proj)) := by
            intro L' hh
            replace hh := bindE_ok hh
            obtain ⟨o', ho, hh⟩ := hh
            have eo := ihO G st cand m filled o' ho
            cases o' with
            | none =>
              simp only [Option.map_none] at eo hh
              exact ⟨_, eo, Or.inr ⟨rfl, ihC G st recv m args kwn kwv rest L' res' st' hh⟩⟩
            | some p =>
              obtain ⟨n, t, s⟩ := p
              simp only [Option.map_some, pure, Except.pure, Except.ok.injEq, Prod.mk.injEq] at eo hh
              obtain ⟨rfl, rfl⟩ := hh
              exact ⟨_, eo, Or.inl ⟨n, rfl, rfl⟩⟩
          cases hres : resolveRet defining M (mi.ret.getD .any) with
          | some t =>
            simp only [hres] at h ⊢
            by_cases hL : (callArgs filled).any isLamArg = true
            · simp only [hL, Bool.not_true, Bool.not_false, if_true, Bool.false_eq_true, if_false] at h ⊢
              obtain ⟨o, ho, hcase⟩ := hfollow (some ⟨filled, t, false, cand, mi⟩) h
              simp only [ho]
              rcases hcase with ⟨n, rfl, hr⟩ | ⟨rfl, hr⟩
              · simp only []; exact hr.symm
              · simp only []; exact hr
            · simp only [Bool.not_eq_true] at hL
              simp only [hL, Bool.not_true, Bool.not_false, if_true, Bool.false_eq_true, if_false, pure, Except.pure,
                Except.ok.injEq, Prod.mk.injEq] at h ⊢
              obtain ⟨rfl, rfl⟩ := h
              rfl
          | none =>
            simp only [hres] at h ⊢
            cases last' with
            | none =>
              simp only [Option.map_none, if_true] at h ⊢
              obtain ⟨o, ho, hcase⟩ := hfollow Option.none h
              simp only [ho]
              rcases hcase with ⟨n, rfl, hr⟩ | ⟨rfl, hr⟩
              · simp only []; exact hr.symm
              · simp only []; exact hr
            | some r =>
              simp only [Option.map_some] at h ⊢
              by_cases hF : r.full = true
              · simp only [hF, MRes.proj, Bool.not_true, Bool.false_eq_true, if_false, pure, Except.pure, Except.ok.injEq,
                  Prod.mk.injEq] at h ⊢
                obtain ⟨rfl, rfl⟩ := h
                simp only [Option.map_some, MRes.proj, hF]
              · simp only [Bool.not_eq_true] at hF
                simp only [hF, MRes.proj, Bool.not_false, if_true, Bool.false_eq_true, if_false] at h ⊢
                obtain ⟨o, ho, hcase⟩ := hfollow (some r) h
                simp only [ho]
                rcases hcase with ⟨n, rfl, hr⟩ | ⟨rfl, hr⟩
                · simp only []; exact hr.symm
                · simp only []
                  simp only [Option.map_some, MRes.proj, hF] at hr
                  exact hr
    · intro G st cand m filled o' h
      simp only [onStreamObj] at h
      simp only [onStreamElab]
      split at h
      · rename_i cn item f' x body kn kv
        simp only []
        split at h
        · rename_i hcond
          simp only [hcond, if_true]
          replace h := bindE_ok h
          obtain ⟨rb, hrb, h⟩ := h
          replace h := bindE_ok h
          obtain ⟨u, hu, h⟩ := h
          have eb := ihS _ _ body rb hrb
          split at h
          · cases h
          · simp only [pure, Except.pure, Except.ok.injEq] at h; subst h
            simp only [Option.map_some, eb]
        · rename_i hcond
          simp only [hcond]
          simp only [pure, Except.pure, Except.ok.injEq] at h; subst h
          rfl
      · rename_i hneg
        simp only [pure, Except.pure, Except.ok.injEq] at h; subst h
        split
        · rename_i cn item f'' x body kn kv
          exact absurd rfl (hneg _ _ _ _ _ _ _ rfl)
        · rfl

/-- the declared parameters a call must carry positionally (`known_types` is the library's own) -/
def declParams (ps : List Param) : List Param := ps.filter (fun p => p.name != "known_types")

theorem fillLoop_full : ∀ (ps : List Param) (i : Nat) (args : List Expr) (kwn : List String) (kwv : List Expr)
    (a : List Expr) (kn : List String) (kv : List Expr),
    fillLoop ps i args kwn kwv = .ok (a, kn, kv) → i ≤ args.length → i + ps.length ≤ a.length ∧ args <+: a
  | [], i, args, kwn, kwv, a, kn, kv, h, hi => by
    simp only [fillLoop, Except.ok.injEq, Prod.mk.injEq] at h
    obtain ⟨rfl, _, _⟩ := h
    exact ⟨by simpa using hi, List.prefix_refl _⟩
  | p :: ps, i, args, kwn, kwv, a, kn, kv, h, hi => by
    simp only [fillLoop] at h
    split at h
    · rename_i hle
      have hlen : args.length = i := by omega
      split at h
      · rename_i e kn' kv' hfk
        obtain ⟨h1, h2⟩ := fillLoop_full ps (i + 1) (args ++ [e]) kn' kv' a kn kv h (by simp; omega)
        exact ⟨by simp only [List.length_cons]; omega, (List.prefix_append args [e]).trans h2⟩
      · split at h
        · rename_i c hd
          obtain ⟨h1, h2⟩ := fillLoop_full ps (i + 1) (args ++ [.const c]) kwn kwv a kn kv h (by simp; omega)
          exact ⟨by simp only [List.length_cons]; omega, (List.prefix_append args [.const c]).trans h2⟩
        · cases h
    · rename_i hgt
      obtain ⟨h1, h2⟩ := fillLoop_full ps (i + 1) args kwn kwv a kn kv h (by omega)
      exact ⟨by simp only [List.length_cons]; omega, h2⟩

/-- **C07 (one call)**: what `_fill_in_default_arguments` returns carries every declared parameter positionally, after
    the positional arguments the user wrote -/
theorem fillDefaults_full (ps : List Param) (f : Expr) (args : List Expr) (kwn : List String) (kwv : List Expr) (c : Expr)
    (h : fillDefaults ps f args kwn kwv = .ok c) :
    ∃ a kn kv, c = .call f a kn kv ∧ (declParams ps).length ≤ a.length ∧ args <+: a := by
  simp only [fillDefaults] at h
  replace h := bindE_ok h
  obtain ⟨⟨a, kn, kv⟩, hl, h⟩ := h
  obtain ⟨h1, h2⟩ := fillLoop_full _ 0 args kwn kwv a kn kv hl (Nat.zero_le _)
  simp only [] at h
  split at h
  · simp only [pure, Except.pure, Except.ok.injEq] at h; subst h
    exact ⟨a, kn, kv, rfl, by simpa [declParams] using h1, h2⟩
  · rename_i heq
    simp only [pure, Except.pure, Except.ok.injEq] at h; subst h
    simp only [ne_eq, Decidable.not_not] at heq
    exact ⟨args, kwn, kwv, rfl, by rw [← heq]; simpa [declParams] using h1, List.prefix_refl _⟩

/-- the call emitted for a deciding candidate names the method on the elaborated receiver and carries every declared
    parameter of that candidate's method positionally -/
def NodeFull (recv : Expr) (m : String) (c : CandElab) : Prop :=
  ∃ a kn kv, c.node = .call (.attr recv m) a kn kv ∧ (declParams c.mi.params).length ≤ a.length

theorem candElab_full (M : Model) : ∀ (fuel : Nat) (G : Gamma) (recv : Expr) (m : String) (args : List Expr)
    (kwn : List String) (kwv : List Expr) (cands : List Ty) (last : Option CandElab),
    (∀ c, last = some c → NodeFull recv m c) →
    ∀ c, candElab M fuel G recv m args kwn kwv cands last = some c → NodeFull recv m c
  | 0, _, _, _, _, _, _, _, _, _, c, h => by simp [candElab] at h
  | fuel + 1, G, recv, m, args, kwn, kwv, [], last, hl, c, h => by
    simp only [candElab] at h; exact hl c h
  | fuel + 1, G, recv, m, args, kwn, kwv, cand :: rest, last, hl, c, h => by
    simp only [candElab] at h
    split at h
    · exact candElab_full M fuel G recv m args kwn kwv rest last hl c h
    · rename_i defining mi hfm
      split at h
      · exact hl c h
      · rename_i filled hfd
        obtain ⟨a, kn, kv, rfl, hlen, _⟩ := fillDefaults_full mi.params (.attr recv m) args kwn kwv filled hfd
        have hstatic : ∀ b, NodeFull recv m ⟨.call (.attr recv m) a kn kv, cand, mi, b⟩ := fun b => ⟨a, kn, kv, rfl, hlen⟩
        have hfol : ∀ n, onStreamElab M fuel G cand m (.call (.attr recv m) a kn kv) = some n →
            NodeFull recv m ⟨n, cand, mi, true⟩ := by
          intro n hn
          cases fuel with
          | zero => simp [onStreamElab] at hn
          | succ fuel' =>
            simp only [onStreamElab] at hn
            split at hn
            · rename_i cn item f' x body kn' kv' heq
              simp only [Expr.call.injEq] at heq
              obtain ⟨rfl, rfl, rfl, rfl⟩ := heq
              split at hn
              · cases hn
                exact ⟨_, _, _, rfl, by simpa using hlen⟩
              · cases hn
            · cases hn
        have hcont : ∀ (L : Option CandElab), (∀ c', L = some c' → NodeFull recv m c') →
            (match onStreamElab M fuel G cand m (.call (.attr recv m) a kn kv) with
              | some n => some (⟨n, cand, mi, true⟩ : CandElab)
              | Option.none => candElab M fuel G recv m args kwn kwv rest L) = some c → NodeFull recv m c := by
          intro L hL hh
          split at hh
          · rename_i n hn; cases hh; exact hfol n hn
          · exact candElab_full M fuel G recv m args kwn kwv rest L hL c hh
        cases hres : resolveRet defining M (mi.ret.getD .any) with
        | some t =>
          simp only [hres, callArgs] at h
          by_cases hLam : a.any isLamArg = true
          · simp only [hLam, Bool.not_true, Bool.not_false, if_true, Bool.false_eq_true, if_false] at h
            exact hcont _ (by intro c' hc'; cases hc'; exact hstatic _) h
          · simp only [Bool.not_eq_true] at hLam
            simp only [hLam, Bool.not_true, Bool.not_false, if_true, Bool.false_eq_true, if_false] at h
            cases h; exact hstatic _
        | none =>
          simp only [hres] at h
          cases last with
          | none =>
            simp only [if_true] at h
            exact hcont _ (by intro c' hc'; cases hc') h
          | some r =>
            by_cases hF : r.full = true
            · simp only [hF, Bool.not_true, Bool.false_eq_true, if_false] at h
              exact hl c h
            · simp only [Bool.not_eq_true] at hF
              simp only [hF, Bool.not_false, if_true, Bool.false_eq_true, if_false] at h
              exact hcont _ hl h

/-- **C07 (a typed call site)**: the call emitted for `recv.m(args, kws)` with `recv : objTy` is either the call as elaborated
    (no candidate declares `m`) or the deciding candidate's call — every declared parameter of its method present
    positionally — handed to the class-level and then the method-level callback. -/
theorem methodElab_full_positional (M : Model) (fuel : Nat) (G : Gamma) (objTy : Ty) (recv : Expr) (m : String)
    (args : List Expr) (kwn : List String) (kwv : List Expr) :
    methodElab M (fuel + 1) G objTy recv m args kwn kwv = .call (.attr recv m) args kwn kwv ∨
    ∃ c : CandElab, NodeFull recv m c ∧
      methodElab M (fuel + 1) G objTy recv m args kwn kwv = applyCbE c.mi.cb (applyCbE (classCbOf M 16 c.cand) c.node) := by
  simp only [methodElab]
  split
  · exact Or.inl rfl
  · rename_i r hr
    exact Or.inr ⟨r, candElab_full M fuel G recv m args kwn kwv _ Option.none (by intro c hc; cases hc) r hr, rfl⟩

/-- **C07 (lambda bodies)**: whenever the follower accepts an expression, the tree it returns is `elabOf` of the expression
    the user wrote — for every class model, environment, stream state and fuel. -/
theorem follow_emits_elab (M : Model) (fuel : Nat) (G : Gamma) (st : FSt) (e : Expr) (r : FRes)
    (h : follow M fuel G st e = .ok r) : r.e = elabOf M fuel G e :=
  (follow_elabSound M fuel).1 G st e r h

/-- **C07 (streams)**: the lambda Select / SelectMany / Where emit -/
theorem streamOp_emits_elab (M : Model) (op : String) (itemTy : Ty) (x : String) (body lam' : Expr) (t : Ty) (st : FSt)
    (h : streamOp M op itemTy (.lam [x] body) = .ok (lam', t, st)) : lam' = streamOpElab M itemTy x body := by
  simp only [streamOp] at h
  replace h := bindE_ok h
  obtain ⟨rb, hrb, h⟩ := h
  replace h := bindE_ok h
  obtain ⟨u, hu, h⟩ := h
  have he := follow_emits_elab M _ _ _ body rb hrb
  have hl : lam' = .lam [x] rb.e := by
    repeat' (split at h)
    all_goals (first | (cases h; done) | (simp only [pure, Except.pure, Except.ok.injEq, Prod.mk.injEq] at h; exact h.1.symm))
  rw [hl, he]; rfl

end Fadl
