/-
  C06 — comprehension and data-class sugar lowers to equivalent queries.
-/
import Fadl.Model.Sugar
import Fadl.Lemmas.Mono
import Fadl.Lemmas.Basic
namespace Fadl

/-! ### the Where/Select chain computes what the comprehension computes -/

section lowering
variable (w : World)

/-- the conditions applied one after the other, each on the survivors of the previous ones -/
def filterSeq (x : String) (env : Env) : List Den → List Val → Except EErr (List Val)
  | [], vs => .ok vs
  | d :: ds, vs => do
    let mid ← filterM' (fun v => d (env.upd x v)) vs
    filterSeq x env ds mid

theorem applyLam1_some1 (x : String) (d : Den) (env : Env) :
    applyLam1 (some ([x], d)) env = fun v => d (env.upd x v) := by
  funext v; rfl

theorem den_where (src c : Expr) (x : String) (env : Env) :
    (den w (mcall src "Where" [.lam [x] c]) env >>= asSeq) =
      ((den w src env >>= asSeq) >>= fun vs => filterM' (fun v => den w c (env.upd x v)) vs) := by
  have hop : "Where" ∈ opNames := by decide
  have hb : "Where" ∈ builtinOps := by decide
  simp only [mcall, den, denHead, denL, denLamL, denLam, callSem, hop, if_true, fnCall, hb, seqOp2, applyLam1_some1]
  cases den w src env with
  | error e => rfl
  | ok v0 =>
    simp only [bind, Except.bind]
    cases asSeq v0 with
    | error e => rfl
    | ok vs =>
      simp only []
      cases filterM' (fun v => den w c (env.upd x v)) vs with
      | error e => simp [Except.map]
      | ok r => simp [Except.map, asSeq]

theorem den_where_chain (x : String) (env : Env) (cs : List Expr) : ∀ (src : Expr),
    (den w (cs.foldl (fun s c => mcall s "Where" [.lam [x] c]) src) env >>= asSeq) =
      ((den w src env >>= asSeq) >>= fun vs => filterSeq x env (denL w cs) vs) := by
  induction cs with
  | nil =>
    intro src
    simp only [List.foldl, denL, filterSeq]
    cases (den w src env >>= asSeq) <;> rfl
  | cons c cs ih =>
    intro src
    simp only [List.foldl, denL, filterSeq]
    rw [ih, den_where]
    cases (den w src env >>= asSeq) <;> rfl

/-- one condition split off a comprehension's filter -/
theorem filterMB_conds_cons (x : String) (env : Env) (d : Den) (ds : List Den) :
    ∀ (vs keep : List Val),
      filterMB (fun v => condsHold ((d :: ds).map (· (env.upd x v)))) vs = .ok keep →
      ∃ mid, filterM' (fun v => d (env.upd x v)) vs = .ok mid ∧
        filterMB (fun v => condsHold (ds.map (· (env.upd x v)))) mid = .ok keep := by
  intro vs
  induction vs with
  | nil => intro keep h; simp [filterMB] at h; subst h; exact ⟨[], rfl, rfl⟩
  | cons v vs ih =>
    intro keep h
    simp only [filterMB, List.map, condsHold] at h
    rw [bind_ok_iff'] at h
    obtain ⟨b, hb, h⟩ := h
    rw [bind_ok_iff'] at h
    obtain ⟨rest, hrest, h⟩ := h
    rw [bind_ok_iff'] at hb
    obtain ⟨val, hval, hb⟩ := hb
    obtain ⟨mid, hmid, hkeep⟩ := ih rest hrest
    simp only [pure, Except.pure, Except.ok.injEq] at h
    by_cases ht : truthy val = true
    · simp only [ht, if_true] at hb
      refine ⟨v :: mid, ?_, ?_⟩
      · simp [filterM', hval, hmid, ht, bind, Except.bind, pure, Except.pure]
      · simp only [filterMB, hb, hkeep, bind, Except.bind, pure, Except.pure]
        rw [h]
    · simp [ht, pure, Except.pure] at hb
      subst hb
      simp only [Bool.false_eq_true, if_false] at h
      refine ⟨mid, ?_, ?_⟩
      · simp [filterM', hval, hmid, ht, bind, Except.bind, pure, Except.pure]
      · rw [← h]; exact hkeep

theorem filterMB_nil_conds (x : String) (env : Env) (vs : List Val) :
    filterMB (fun v => condsHold (([] : List Den).map (· (env.upd x v)))) vs = .ok vs := by
  have h0 : ∀ (us : List Val), filterMB (fun _ => (Except.ok true : Except EErr Bool)) us = .ok us := by
    intro us
    induction us with
    | nil => rfl
    | cons u us ih => simp [filterMB, ih, bind, Except.bind, pure, Except.pure]
  simpa [condsHold] using h0 vs

theorem filterSeq_of_conds (x : String) (env : Env) (ds : List Den) :
    ∀ (vs keep : List Val),
      filterMB (fun v => condsHold (ds.map (· (env.upd x v)))) vs = .ok keep →
      filterSeq x env ds vs = .ok keep := by
  induction ds with
  | nil =>
    intro vs keep h
    rw [filterMB_nil_conds] at h
    simpa [filterSeq] using h
  | cons d ds ih =>
    intro vs keep h
    obtain ⟨mid, hmid, hkeep⟩ := filterMB_conds_cons x env d ds vs keep h
    simp only [filterSeq, hmid, bind, Except.bind]
    exact ih mid keep hkeep

/-- **the lowering is sound**: whenever the comprehension (Python's own semantics: evaluate the
    iterable outside, bind the target, test the `if`s left to right, evaluate the element) yields a
    sequence, the Where…Select chain yields the same sequence. -/
theorem lower_sem (elt iter : Expr) (ifs : List Expr) (x : String) :
    Den.le (compSem (some x) (den w elt) (den w iter) (denL w ifs) false)
      (den w (mcall (ifs.foldl (fun s c => mcall s "Where" [.lam [x] c]) iter) "Select" [.lam [x] elt])) := by
  intro env v hv
  simp only [compSem] at hv
  rw [bind_ok_iff'] at hv
  obtain ⟨v0, hv0, hv⟩ := hv
  rw [bind_ok_iff'] at hv
  obtain ⟨vs, hvs, hv⟩ := hv
  rw [bind_ok_iff'] at hv
  obtain ⟨keep, hkeep, hv⟩ := hv
  rw [bind_ok_iff'] at hv
  obtain ⟨rs, hrs, hv⟩ := hv
  have hchain := den_where_chain w x env ifs iter
  have hseq := filterSeq_of_conds x env (denL w ifs) vs keep hkeep
  have hsrc : (den w (ifs.foldl (fun s c => mcall s "Where" [.lam [x] c]) iter) env >>= asSeq) = .ok keep := by
    rw [hchain, hv0]; simp only [bind, Except.bind, hvs]; exact hseq
  rw [bind_ok_iff'] at hsrc
  obtain ⟨sv, hsv, hsv2⟩ := hsrc
  have hop : "Select" ∈ opNames := by decide
  have hb : "Select" ∈ builtinOps := by decide
  simp only [mcall, den, denHead, denL, denLamL, denLam, callSem, hop, if_true, fnCall, hb, seqOp2, applyLam1_some1]
  simp only [mcall] at hsv
  rw [hsv]
  simp only [bind, Except.bind, hsv2, hrs, Except.map]
  exact hv

end lowering

/-! ### semantics preserved by the whole pass -/

def SugarSpec (w : World) (cs : ClassTable) (e : Expr) : Prop :=
  ∀ e', resolveSugar cs e = .ok e' →
    Den.le (den w e) (den w e') ∧ Head.le (denHead w e) (denHead w e') ∧ LamD.le (denLam w e) (denLam w e')

theorem sugarL_spec (w : World) (cs : ClassTable) (es : List Expr) (h : ∀ e ∈ es, SugarSpec w cs e) :
    ∀ es', resolveSugarL cs es = .ok es' →
      All2 Den.le (denL w es) (denL w es') ∧ All2 LamD.le (denLamL w es) (denLamL w es') := by
  induction es with
  | nil => intro es' hx; simp [resolveSugarL] at hx; subst hx; exact ⟨.nil, .nil⟩
  | cons e es ih =>
    intro es' hx
    simp only [resolveSugarL] at hx
    rw [bind_ok_iff'] at hx
    obtain ⟨e1, h1, hx⟩ := hx
    rw [bind_ok_iff'] at hx
    obtain ⟨es1, h2, hx⟩ := hx
    cases hx
    obtain ⟨a1, _, a3⟩ := h e (List.mem_cons_self) e1 h1
    obtain ⟨b1, b2⟩ := ih (fun x hx => h x (List.mem_cons_of_mem _ hx)) es1 h2
    exact ⟨.cons a1 b1, .cons a3 b2⟩

theorem sugar_spec_all (w : World) (cs : ClassTable) : ∀ e, SugarSpec w cs e := by
  apply Expr.induct_mem
  case name => intro i e' h; simp [resolveSugar] at h; subst h; exact ⟨Den.le_refl _, Head.le_refl _, LamD.le_refl _⟩
  case const => intro c e' h; simp [resolveSugar] at h; subst h; exact ⟨Den.le_refl _, Head.le_refl _, LamD.le_refl _⟩
  case attr =>
    intro v a ih e' h
    simp only [resolveSugar] at h
    rw [bind_ok_iff'] at h
    obtain ⟨v', hv, h⟩ := h
    cases h
    obtain ⟨a1, _, _⟩ := ih v' hv
    refine ⟨?_, ?_, by simp [denLam, LamD.le]⟩
    · intro env; simp only [den]; exact ELe.bind (a1 env) (fun _ => ELe.refl _)
    · simp only [denHead, Head.le]; exact ⟨a1, trivial⟩
  case lam =>
    intro ps b ih e' h
    simp only [resolveSugar] at h
    rw [bind_ok_iff'] at h
    obtain ⟨b', hb, h⟩ := h
    cases h
    obtain ⟨a1, _, _⟩ := ih b' hb
    refine ⟨by simp [den, Den.le_refl], ?_, ?_⟩
    · simp only [denHead, Head.le]; exact ⟨trivial, a1⟩
    · simp only [denLam, LamD.le]; exact ⟨trivial, a1⟩
  case sub =>
    intro v s ihv ihs e' h
    simp only [resolveSugar] at h
    rw [bind_ok_iff'] at h
    obtain ⟨v', hv, h⟩ := h
    rw [bind_ok_iff'] at h
    obtain ⟨s', hs, h⟩ := h
    cases h
    obtain ⟨a1, _, _⟩ := ihv v' hv
    obtain ⟨b1, _, _⟩ := ihs s' hs
    refine ⟨?_, by simp [denHead, Head.le], by simp [denLam, LamD.le]⟩
    intro env; simp only [den]
    exact ELe.bind (a1 env) (fun _ => ELe.bind (b1 env) (fun _ => ELe.refl _))
  case tuple =>
    intro es ih e' h
    simp only [resolveSugar] at h
    rw [bind_ok_iff'] at h
    obtain ⟨es', hes, h⟩ := h
    cases h
    obtain ⟨a1, _⟩ := sugarL_spec w cs es ih es' hes
    refine ⟨?_, by simp [denHead, Head.le], by simp [denLam, LamD.le]⟩
    intro env; simp only [den]
    exact ELe.bind (evalAll_le a1 env) (fun _ => ELe.refl _)
  case list =>
    intro es ih e' h
    simp only [resolveSugar] at h
    rw [bind_ok_iff'] at h
    obtain ⟨es', hes, h⟩ := h
    cases h
    obtain ⟨a1, _⟩ := sugarL_spec w cs es ih es' hes
    refine ⟨?_, by simp [denHead, Head.le], by simp [denLam, LamD.le]⟩
    intro env; simp only [den]
    exact ELe.bind (evalAll_le a1 env) (fun _ => ELe.refl _)
  case dict =>
    intro ks vs ihk ihv e' h
    simp only [resolveSugar] at h
    rw [bind_ok_iff'] at h
    obtain ⟨ks', hk, h⟩ := h
    rw [bind_ok_iff'] at h
    obtain ⟨vs', hv, h⟩ := h
    cases h
    obtain ⟨a1, _⟩ := sugarL_spec w cs ks ihk ks' hk
    obtain ⟨b1, _⟩ := sugarL_spec w cs vs ihv vs' hv
    refine ⟨?_, by simp [denHead, Head.le], by simp [denLam, LamD.le]⟩
    intro env; simp only [den]
    exact ELe.bind (evalAll_le a1 env) (fun _ => ELe.bind (evalAll_le b1 env) (fun _ => ELe.refl _))
  case op =>
    intro k es ih e' h
    simp only [resolveSugar] at h
    rw [bind_ok_iff'] at h
    obtain ⟨es', hes, h⟩ := h
    cases h
    obtain ⟨a1, _⟩ := sugarL_spec w cs es ih es' hes
    refine ⟨?_, by simp [denHead, Head.le], by simp [denLam, LamD.le]⟩
    intro env; simp only [den]
    exact evOp_le _ (a1.apply_env env)
  case call =>
    intro f args kwn kwv ihf iha ihk e' h
    simp only [resolveSugar] at h
    rw [bind_ok_iff'] at h
    obtain ⟨f1, h1, h⟩ := h
    rw [bind_ok_iff'] at h
    obtain ⟨a1, h2, h⟩ := h
    rw [bind_ok_iff'] at h
    obtain ⟨k1, h3, h⟩ := h
    obtain ⟨_, fh, _⟩ := ihf f1 h1
    obtain ⟨ad, al⟩ := sugarL_spec w cs args iha a1 h2
    obtain ⟨kd, _⟩ := sugarL_spec w cs kwv ihk k1 h3
    have generic : Den.le (den w (.call f args kwn kwv)) (den w (.call f1 a1 kwn k1)) := by
      simp only [den]; exact callSem_le w kwn fh ad al kd
    -- what the original head is when the new head is a constant: the original call cannot evaluate
    split at h
    · rename_i c
      split at h
      · -- data-class constructor: the original `Constant(cls)(…)` has no meaning under `ev`
        have hdict : ∃ ks vs, e' = .dict ks vs := by
          unfold convertCall at h
          split at h
          · cases h
          · unfold convertCallToDict at h
            split at h
            · cases h
            · split at h
              · cases h
              · simp only [Except.ok.injEq] at h; exact ⟨_, _, h.symm⟩
        obtain ⟨dk, dv, rfl⟩ := hdict
        refine ⟨?_, ?_, ?_⟩
        · intro env v hv
          exfalso
          have := generic env v hv
          simp [den, denHead, callSem] at this
        · simp [denHead, Head.le]
        · simp [denLam, LamD.le]
      · simp only [pure, Except.pure, Except.ok.injEq] at h
        subst h
        exact ⟨generic, by simp [denHead, Head.le], by simp [denLam, LamD.le]⟩
    · simp only [pure, Except.pure, Except.ok.injEq] at h
      subst h
      exact ⟨generic, by simp [denHead, Head.le], by simp [denLam, LamD.le]⟩
  case comp =>
    intro kind e t i ifs a ihe iht ihi ihifs e' h
    simp only [resolveSugar] at h
    rw [bind_ok_iff'] at h
    obtain ⟨e1, h1, h⟩ := h
    rw [bind_ok_iff'] at h
    obtain ⟨t1, h2, h⟩ := h
    rw [bind_ok_iff'] at h
    obtain ⟨i1, h3, h⟩ := h
    rw [bind_ok_iff'] at h
    obtain ⟨f1, h4, h⟩ := h
    obtain ⟨ed, _, _⟩ := ihe e1 h1
    obtain ⟨idn, _, _⟩ := ihi i1 h3
    obtain ⟨fd, _⟩ := sugarL_spec w cs ifs ihifs f1 h4
    -- the target must have come back as a name
    unfold lowerComp at h
    split at h
    · rename_i x
      split at h
      · cases h
      · rename_i hasync
        simp only [Except.ok.injEq] at h
        subst h
        refine ⟨?_, by simp [mcall, denHead, Head.le], by simp [mcall, denLam, LamD.le]⟩
        -- t itself is that name (resolveSugar never produces a bare name from anything else)
        have ht : targetName t = some x ∨ targetName t = Option.none := by
          cases t <;> simp [targetName]
          rename_i y
          simp [resolveSugar] at h2
          exact h2
        have ha : a = false := by simpa using hasync
        subst ha
        rcases ht with ht | ht
        · simp only [den, ht]
          exact Den.le_trans (compSem_le (some x) false ed idn fd) (lower_sem w e1 i1 f1 x)
        · intro env v hv
          simp [den, ht, compSem] at hv
    · cases h

/-- **C06 (comprehensions)**: for every expression — comprehensions nested arbitrarily in element,
    iterable or condition position and inside lambdas — whenever the original (with Python's native
    comprehension semantics) evaluates without error, the lowered query evaluates to the same value. -/
theorem sugar_preserves (w : World) (cs : ClassTable) (env : Env) (e e' : Expr) (v : Val)
    (h : resolveSugar cs e = .ok e') (hv : ev w env e = .ok v) : ev w env e' = .ok v :=
  (sugar_spec_all w cs e e' h).1 env v hv

/-! ### data-class / NamedTuple constructor calls -/

/-- Python's binding of a constructor call with plain fields: the i-th positional argument binds
    the i-th field; every other field is bound by the keyword of its name, if given.  In declaration
    order. -/
def bindSpec (names : List String) (args : List Expr) (kwn : List String) (kwv : List Expr) :
    List (String × Expr) :=
  (names.take args.length).zip args ++
    (names.drop args.length).filterMap (fun n => (kwLookup n kwn kwv).map (fun v => (n, v)))

/-- a call Python's constructor accepts (as far as binding goes): no surplus arguments and every
    keyword names a field -/
def ctorCallOk (names : List String) (args : List Expr) (kwn : List String) : Bool :=
  decide (args.length + kwn.length ≤ names.length) && kwn.all (fun k => names.contains k)

/-- **C06 (constructor binding)**: for an accepted call the result is the dictionary whose keys are
    the bound field names, in declaration order, each with the expression Python binds to it. -/
theorem ctor_binding (names : List String) (args : List Expr) (kwn : List String) (kwv : List Expr)
    (h : ctorCallOk names args kwn = true) :
    convertCallToDict names args kwn kwv =
      .ok (.dict ((bindSpec names args kwn kwv).map (fun p => .const (.str p.1)))
                 ((bindSpec names args kwn kwv).map (·.2))) := by
  simp only [ctorCallOk, Bool.and_eq_true, decide_eq_true_eq, List.all_eq_true] at h
  obtain ⟨hlen, hall⟩ := h
  have h1 : ¬ names.length < args.length + kwn.length := by omega
  have h2 : kwn.any (fun k => !names.contains k) = false := by
    simp only [List.any_eq_false, Bool.not_eq_true, Bool.not_eq_false']
    exact hall
  have hl : (names.take args.length).length = args.length := by simp; omega
  simp only [convertCallToDict, h1, if_false, h2, Bool.false_eq_true, kwBound, bindSpec]
  have hfst : ((names.take args.length).zip args).map Prod.fst = names.take args.length :=
    List.map_fst_zip (by rw [hl]; exact Nat.le_refl _)
  have hsnd : ((names.take args.length).zip args).map Prod.snd = args :=
    List.map_snd_zip (by rw [hl]; exact Nat.le_refl _)
  congr 2
  · simp only [List.map_append, List.map_map]
    congr 1
    have : List.map (fun p : String × Expr => Expr.const (Const.str p.fst)) ((List.take args.length names).zip args)
        = List.map (fun n => Expr.const (Const.str n)) (List.map Prod.fst ((List.take args.length names).zip args)) := by
      simp [List.map_map]
    rw [this, hfst, List.map_take]
  · simp only [List.map_append]
    rw [hsnd]

/-- **C06 (malformed uses are ValueErrors)** -/
theorem surplus_args_refused (names : List String) (args : List Expr) (kwn : List String) (kwv : List Expr)
    (h : names.length < args.length + kwn.length) :
    ∃ t, convertCallToDict names args kwn kwv = .error (.valueError t) := by
  simp [convertCallToDict, h]

/-- more positional arguments than parameters that can be bound by position (the rest are keyword-only): refused, as
    Python's constructor refuses them -/
theorem surplus_positional_refused (names : List String) (args : List Expr) (kwn : List String) (kwv : List Expr)
    (h : ctorPositional names < args.length) :
    ∃ t, convertCall names args kwn kwv = .error (.valueError t) := by
  simp [convertCall, h]

/-- without keyword-only parameters the check changes nothing -/
theorem convertCall_plain (names : List String) (args : List Expr) (kwn : List String) (kwv : List Expr)
    (h : names.contains "*" = false) (hlen : args.length ≤ names.length) :
    convertCall names args kwn kwv = convertCallToDict names args kwn kwv := by
  have hf : ∀ (l : List String), l.contains "*" = false → l.filter (· != "*") = l ∧ l.takeWhile (· != "*") = l := by
    intro l
    induction l with
    | nil => intro _; exact ⟨rfl, rfl⟩
    | cons a l ih =>
      intro hl
      simp only [List.contains_cons, Bool.or_eq_false_iff, beq_eq_false_iff_ne, ne_eq] at hl
      obtain ⟨h1, h2⟩ := ih hl.2
      have ha : (a != "*") = true := by simpa using fun h => hl.1 h.symm
      simp [List.filter, List.takeWhile, ha, h1, h2]
  obtain ⟨h1, h2⟩ := hf names h
  simp only [convertCall, ctorPositional, ctorNames, h1, h2]
  have : ¬ names.length < args.length := by omega
  simp [this]

theorem unknown_keyword_refused (names : List String) (args : List Expr) (kwn : List String) (kwv : List Expr)
    (k : String) (hk : k ∈ kwn) (hn : names.contains k = false) :
    ∃ t, convertCallToDict names args kwn kwv = .error (.valueError t) := by
  unfold convertCallToDict
  split
  · exact ⟨_, rfl⟩
  · have : kwn.any (fun k => !names.contains k) = true := by
      simp only [List.any_eq_true, Bool.not_eq_true']
      exact ⟨k, hk, hn⟩
    simp only [this, if_true]
    exact ⟨_, rfl⟩

theorem nonname_target_refused (elt target iter : Expr) (ifs : List Expr) (a : Bool)
    (h : targetName target = Option.none) :
    ∃ t, lowerComp elt target iter ifs a = .error (.valueError t) := by
  cases target <;> simp [targetName] at h <;> simp [lowerComp]

theorem async_refused (elt iter : Expr) (x : String) (ifs : List Expr) :
    ∃ t, lowerComp elt (.name x) iter ifs true = .error (.valueError t) := by
  simp [lowerComp]

/-- the lowered form: `ifs` become nested `Where` in order, then `Select` -/
example : lowerComp (.attr (.name "j") "pt") (.name "j") (.attr (.name "e") "jets") [.name "c1", .name "c2"] false =
    .ok (mcall (mcall (mcall (.attr (.name "e") "jets") "Where" [.lam ["j"] (.name "c1")]) "Where" [.lam ["j"] (.name "c2")])
      "Select" [.lam ["j"] (.attr (.name "j") "pt")]) := by rfl

/-- Non-vacuity of `ctor_binding`: mixed positional / keyword call on a three-field class. -/
example : convertCallToDict ["x", "y", "z"] [.name "a"] ["z", "y"] [.name "c", .name "b"] =
    .ok (.dict [.const (.str "x"), .const (.str "y"), .const (.str "z")] [.name "a", .name "b", .name "c"]) := by
  rfl

end Fadl
