/-
  C20 — the query hash identifies structure and nothing else.
-/
import Fadl.Model.Hash
import Fadl.Model.Render
import Fadl.Lemmas.Basic
namespace Fadl

/-! ### the token stream determines the tree (prefix-freeness induction) -/

/-- The shape of statement proved for trees, field lists and element lists simultaneously. -/
def TokInj (a : Tree) : Prop :=
  ∀ (b : Tree) (r r' : List Tok), WFTree b = true → toks a ++ r = toks b ++ r' → a = b ∧ r = r'

theorem toks_ne_nil (t : Tree) : toks t ≠ [] := by
  cases t <;> simp [toks]

/-- first token of `toks t` is never `rp`, `rb`, `comma` or `eq` -/
theorem toks_head (t : Tree) : ∃ x rest, toks t = x :: rest ∧ x ≠ .rp ∧ x ≠ .rb ∧ x ≠ .comma ∧ x ≠ .eq := by
  cases t with
  | node c fns fvs => exact ⟨.ident c, _, by simp only [toks]; rfl, by simp, by simp, by simp, by simp⟩
  | list xs => exact ⟨.lb, _, by simp only [toks]; rfl, by simp, by simp, by simp, by simp⟩
  | leaf s => exact ⟨.lit s, [], by simp only [toks], by simp, by simp, by simp, by simp⟩

/-- field lists: `fieldToks … ++ rp :: r` determines names, values and `r`. -/
theorem fieldToks_inj (fns : List String) (fvs : List Tree) (h : ∀ t ∈ fvs, TokInj t) :
    ∀ (fns' : List String) (fvs' : List Tree) (r r' : List Tok),
      fns.length = fvs.length → fns'.length = fvs'.length → WFTreeL fvs' = true →
      fieldToks fns fvs ++ .rp :: r = fieldToks fns' fvs' ++ .rp :: r' →
      fns = fns' ∧ fvs = fvs' ∧ r = r' := by
  induction fns generalizing fvs with
  | nil =>
    intro fns' fvs' r r' hl hl' hwf heq
    cases fvs with
    | cons _ _ => simp at hl
    | nil =>
      cases fns' with
      | nil =>
        cases fvs' with
        | nil => simp [fieldToks] at heq; exact ⟨rfl, rfl, heq⟩
        | cons _ _ => simp at hl'
      | cons n' ns' =>
        cases fvs' with
        | nil => simp at hl'
        | cons v' vs' =>
          exfalso
          cases ns' <;> simp [fieldToks] at heq
  | cons n ns ih =>
    intro fns' fvs' r r' hl hl' hwf heq
    cases fvs with
    | nil => simp at hl
    | cons v vs =>
      cases fns' with
      | nil =>
        cases fvs' with
        | cons _ _ => simp at hl'
        | nil =>
          exfalso
          cases ns <;> simp [fieldToks] at heq
      | cons n' ns' =>
        cases fvs' with
        | nil => simp at hl'
        | cons v' vs' =>
          simp only [WFTreeL, Bool.and_eq_true] at hwf
          have hv := h v (List.mem_cons_self)
          have hrest : ∀ t ∈ vs, TokInj t := fun t ht => h t (List.mem_cons_of_mem _ ht)
          simp only [List.length_cons, Nat.add_right_cancel_iff] at hl hl'
          cases ns with
          | nil =>
            cases vs with
            | cons _ _ => simp at hl
            | nil =>
              cases ns' with
              | nil =>
                cases vs' with
                | cons _ _ => simp at hl'
                | nil =>
                  simp only [fieldToks, List.cons_append, List.cons.injEq, Tok.ident.injEq, true_and] at heq
                  obtain ⟨hn, heq⟩ := heq
                  obtain ⟨hv', hr⟩ := hv v' _ _ hwf.1 heq
                  simp only [List.cons.injEq, true_and] at hr
                  exact ⟨by rw [hn], by rw [hv'], hr⟩
              | cons m' ms' =>
                exfalso
                cases vs' with
                | nil => simp at hl'
                | cons w' ws' =>
                  simp only [fieldToks, List.cons_append, List.cons.injEq, Tok.ident.injEq, true_and,
                    List.append_assoc] at heq
                  obtain ⟨_, heq⟩ := heq
                  obtain ⟨_, hr⟩ := hv v' _ _ hwf.1 heq
                  simp at hr
          | cons m ms =>
            cases vs with
            | nil => simp at hl
            | cons w ws =>
              cases ns' with
              | nil =>
                exfalso
                cases vs' with
                | cons _ _ => simp at hl'
                | nil =>
                  simp only [fieldToks, List.cons_append, List.cons.injEq, Tok.ident.injEq, true_and,
                    List.append_assoc] at heq
                  obtain ⟨_, heq⟩ := heq
                  obtain ⟨_, hr⟩ := hv v' _ _ hwf.1 heq
                  simp at hr
              | cons m' ms' =>
                cases vs' with
                | nil => simp at hl'
                | cons w' ws' =>
                  simp only [fieldToks, List.cons_append, List.cons.injEq, Tok.ident.injEq, true_and,
                    List.append_assoc] at heq
                  obtain ⟨hn, heq⟩ := heq
                  obtain ⟨hv', hr⟩ := hv v' _ _ hwf.1 heq
                  simp only [List.cons.injEq, true_and] at hr
                  obtain ⟨h1, h2, h3⟩ := ih (w :: ws) hrest (m' :: ms') (w' :: ws') r r' (by simpa using hl)
                    (by simpa using hl') hwf.2 hr
                  exact ⟨by rw [hn, h1], by rw [hv', h2], h3⟩

/-- element lists: `elemToks … ++ rb :: r` determines the elements and `r`. -/
theorem elemToks_inj (xs : List Tree) (h : ∀ t ∈ xs, TokInj t) :
    ∀ (ys : List Tree) (r r' : List Tok), WFTreeL ys = true →
      elemToks xs ++ .rb :: r = elemToks ys ++ .rb :: r' → xs = ys ∧ r = r' := by
  induction xs with
  | nil =>
    intro ys r r' hwf heq
    cases ys with
    | nil => simp [elemToks] at heq; exact ⟨rfl, heq⟩
    | cons y ys =>
      exfalso
      obtain ⟨x, rest, hx, _, hrb, _, _⟩ := toks_head y
      cases ys with
      | nil => simp [elemToks, hx] at heq; exact hrb heq.1.symm
      | cons z zs => simp [elemToks, hx] at heq; exact hrb heq.1.symm
  | cons x xs ih =>
    intro ys r r' hwf heq
    have hx := h x (List.mem_cons_self)
    have hrest : ∀ t ∈ xs, TokInj t := fun t ht => h t (List.mem_cons_of_mem _ ht)
    cases ys with
    | nil =>
      exfalso
      obtain ⟨t, rest, ht, _, hrb, _, _⟩ := toks_head x
      cases xs with
      | nil => simp [elemToks, ht] at heq; exact hrb heq.1
      | cons z zs => simp [elemToks, ht] at heq; exact hrb heq.1
    | cons y ys =>
      simp only [WFTreeL, Bool.and_eq_true] at hwf
      cases xs with
      | nil =>
        cases ys with
        | nil =>
          simp only [elemToks] at heq
          obtain ⟨h1, h2⟩ := hx y _ _ hwf.1 heq
          simp only [List.cons.injEq, true_and] at h2
          exact ⟨by rw [h1], h2⟩
        | cons z zs =>
          exfalso
          simp only [elemToks, List.append_assoc, List.cons_append] at heq
          obtain ⟨_, h2⟩ := hx y _ _ hwf.1 heq
          simp at h2
      | cons z zs =>
        cases ys with
        | nil =>
          exfalso
          simp only [elemToks, List.append_assoc, List.cons_append] at heq
          obtain ⟨_, h2⟩ := hx y _ _ hwf.1 heq
          simp at h2
        | cons z' zs' =>
          simp only [elemToks, List.append_assoc, List.cons_append] at heq
          obtain ⟨h1, h2⟩ := hx y _ _ hwf.1 heq
          simp only [List.cons.injEq, true_and] at h2
          obtain ⟨h3, h4⟩ := ih hrest (z' :: zs') r r' hwf.2 (by simpa [elemToks] using h2)
          exact ⟨by rw [h1, h3], h4⟩

theorem Tree.induct_mem (P : Tree → Prop)
    (node : ∀ cls fns fvs, (∀ t ∈ fvs, P t) → P (.node cls fns fvs))
    (list : ∀ xs, (∀ t ∈ xs, P t) → P (.list xs))
    (leaf : ∀ s, P (.leaf s)) : ∀ t, P t := by
  apply WFTree.induct (motive_1 := P) (motive_2 := fun ts => ∀ t ∈ ts, P t)
  · exact node
  · exact list
  · exact leaf
  · intro t h; cases h
  · intro t ts ht hts x hx
    cases hx with
    | head => exact ht
    | tail _ h => exact hts x h

theorem tokInj_all : ∀ a, WFTree a = true → TokInj a := by
  apply Tree.induct_mem (P := fun a => WFTree a = true → TokInj a)
  · intro cls fns fvs ih hwf b r r' hb heq
    simp only [WFTree, Bool.and_eq_true, decide_eq_true_eq] at hwf
    have hall : ∀ t ∈ fvs, TokInj t := by
      intro t ht
      apply ih t ht
      clear ih heq
      induction fvs generalizing fns with
      | nil => cases ht
      | cons v vs ihv =>
        simp only [WFTreeL, Bool.and_eq_true] at hwf
        cases ht with
        | head => exact hwf.2.1
        | tail _ h => exact ihv (fns.drop 1) ⟨by simp at hwf ⊢; omega, hwf.2.2⟩ h
    cases b with
    | node cls' fns' fvs' =>
      simp only [WFTree, Bool.and_eq_true, decide_eq_true_eq] at hb
      simp only [toks, List.cons_append, List.append_assoc, List.cons.injEq, Tok.ident.injEq, true_and] at heq
      obtain ⟨hc, heq⟩ := heq
      obtain ⟨h1, h2, h3⟩ := fieldToks_inj fns fvs hall fns' fvs' r r' hwf.1 hb.1 hb.2 (by simpa using heq)
      exact ⟨by rw [hc, h1, h2], h3⟩
    | list ys => simp [toks] at heq
    | leaf s => simp [toks] at heq
  · intro xs ih hwf b r r' hb heq
    simp only [WFTree] at hwf
    have hall : ∀ t ∈ xs, TokInj t := by
      intro t ht
      apply ih t ht
      clear ih heq
      induction xs with
      | nil => cases ht
      | cons v vs ihv =>
        simp only [WFTreeL, Bool.and_eq_true] at hwf
        cases ht with
        | head => exact hwf.1
        | tail _ h => exact ihv hwf.2 h
    cases b with
    | node cls' fns' fvs' => simp [toks] at heq
    | list ys =>
      simp only [WFTree] at hb
      simp only [toks, List.cons_append, List.append_assoc, List.cons.injEq, true_and] at heq
      obtain ⟨h1, h2⟩ := elemToks_inj xs hall ys r r' hb (by simpa using heq)
      exact ⟨by rw [h1], h2⟩
    | leaf s => simp [toks] at heq
  · intro s _ b r r' hb heq
    cases b with
    | node cls' fns' fvs' => simp [toks] at heq
    | list ys => simp [toks] at heq
    | leaf s' =>
      simp only [toks, List.cons_append, List.nil_append, List.cons.injEq, Tok.lit.injEq] at heq
      exact ⟨by rw [heq.1], heq.2⟩

/-- **C20 (token level)**: two well-formed field trees with the same token stream are the same tree. -/
theorem toks_injective (a b : Tree) (ha : WFTree a = true) (hb : WFTree b = true)
    (h : toks a = toks b) : a = b := by
  have := tokInj_all a ha b [] [] hb (by simpa using h)
  exact this.1

/-! ### from tokens to the hash -/

/-- The character-level step: rendering is injective on the token streams of the trees considered.
    For real ASTs this is the statement that Python identifiers and constant `repr`s are
    self-delimiting inside a dump; it is an explicit hypothesis of the theorems below (validated
    by the harness: distinct generated structures always have distinct dumps). -/
def RenderInj (S : Tree → Prop) : Prop :=
  ∀ a b, S a → S b → renderToks (toks a) = renderToks (toks b) → toks a = toks b

/-- **C20 (dump identifies structure)** -/
theorem dump_injective_partial (S : Tree → Prop) (hR : RenderInj S) (a b : Tree)
    (ha : WFTree a = true) (hb : WFTree b = true) (sa : S a) (sb : S b) (h : dump a = dump b) : a = b :=
  toks_injective a b ha hb (hR a b sa sb h)

/-- **C20 (equal structure ⇒ equal hash)**: the hash is a function of the field tree alone — source
    positions, formatting, the way the lambda was supplied, the process, non-field annotations are
    not inputs of the function. -/
theorem hash_congr (H : ByteArray → String) (a b : Tree) (h : a = b) : astHash H a = astHash H b := by
  rw [h]

/-- An MD5 collision between two different byte strings. -/
def Collision (H : ByteArray → String) (x y : ByteArray) : Prop := x ≠ y ∧ H x = H y

/-- **C20 (equal hash ⇒ equal structure, up to an MD5 collision)**: collision-freeness is not
    assumed; it is an explicit disjunct. -/
theorem hash_separates (H : ByteArray → String) (S : Tree → Prop) (hR : RenderInj S) (a b : Tree)
    (ha : WFTree a = true) (hb : WFTree b = true) (sa : S a) (sb : S b)
    (h : astHash H a = astHash H b) :
    a = b ∨ Collision H (dump a).toUTF8 (dump b).toUTF8 := by
  by_cases hd : dump a = dump b
  · exact Or.inl (dump_injective_partial S hR a b ha hb sa sb hd)
  · refine Or.inr ⟨?_, h⟩
    intro hbytes
    exact hd (String.toByteArray_inj.mp hbytes)

/-- **C20 (totality)**: the hash is defined for every tree (after fix F11; the model has no error
    case).  Stated as: the bytes hashed are exactly the UTF-8 encoding of the dump. -/
theorem hash_total (H : ByteArray → String) (t : Tree) : astHash H t = H (dump t).toUTF8 := rfl

/-- Non-vacuity / sanity: a concrete dump. -/
example : dump (.node "Call" ["func", "args", "keywords"]
    [.node "Name" ["id", "ctx"] [.leaf "'f'", .node "Load" [] []], .list [.leaf "1", .leaf "'a'"], .list []])
    = "Call(func=Name(id='f', ctx=Load()), args=[1, 'a'], keywords=[])" := by decide

end Fadl
