/-
  C10 — the refusals on an untyped stream are the designed ones, by message.

  `follow_refusals` (the induction of `follow_noInt` with a sharper predicate): for every class model, untyped environment and
  expression that calls no registered function by name and is a tree the parser can produce, whatever the follower fails
  with is a ValueError whose message is one of `untypedRefusals` (or the model's fuel / an opaque constant).  With
  `follow_noFuel` and `checkAst_err`: `streamOp_untyped_refusals_designed` — Select / SelectMany / Where refuse only with the
  messages of `untypedStreamRefusals`.  Together with `streamOp_untyped_identity`: on an untyped stream the operators emit
  exactly the lambda they were given, or raise one of these ValueErrors; nothing else.
-/
import Fadl.Props.C10Fuel
namespace Fadl
set_option linter.unusedSimpArgs false
set_option linter.unusedVariables false

/-- the refusals of the type follower on an untyped expression, by message -/
def untypedRefusals : List String :=
  ["Key not found in dict expression", "Key not found in dataclass/dictionary", "Index out of range",
   "Slices must be indexable constants only", "IfExp branches have different types", "malformed node"]

/-- a designed refusal of the follower on untyped expressions (or one of the model's own two failures) -/
def Err.refusal : Err → Prop
  | .valueError m => m ∈ untypedRefusals
  | .fuel => True
  | .unsupported _ => True
  | _ => False

def RefOK {α : Type} (r : Except Err α) : Prop := ∀ err, r = .error err → err.refusal

theorem RefOK.ok {α : Type} (a : α) : RefOK (.ok a : Except Err α) := by intro err h; cases h
theorem RefOK.pure {α : Type} (a : α) : RefOK (pure a : Except Err α) := by intro err h; cases h
theorem RefOK.valueError {α : Type} (m : String) (hm : m ∈ untypedRefusals) : RefOK (.error (.valueError m) : Except Err α) := by
  intro err h; cases h; exact hm
theorem RefOK.fuel {α : Type} : RefOK (.error .fuel : Except Err α) := by intro err h; cases h; trivial

theorem RefOK.bind {α β : Type} {x : Except Err α} {f : α → Except Err β} (hx : RefOK x)
    (hf : ∀ a, x = .ok a → RefOK (f a)) : RefOK (x >>= f) := by
  intro err h
  cases x with
  | error e => cases h; exact hx _ rfl
  | ok a => exact hf a rfl err h

macro "refok_leaf" : tactic => `(tactic| first
  | exact RefOK.pure _
  | exact RefOK.ok _
  | exact RefOK.valueError _ (by simp [untypedRefusals])
  | exact RefOK.fuel)

/-- what `ast.literal_eval` can fail with -/
def litErr (err : Err) : Prop := err = .valueError "malformed node" ∨ (∃ w, err = .unsupported w) ∨ err = .internal "TypeError"

mutual
theorem literalEval_errs : ∀ (e : Expr) (err : Err), literalEval e = .error err → litErr err
  | .const c, err, h => by
    cases c <;> simp only [literalEval, constToPyVal] at h <;> first | (cases h; exact Or.inr (Or.inl ⟨_, rfl⟩)) | cases h
  | .tuple es, err, h => by
    simp only [literalEval] at h
    replace h := bindE_err h
    rcases h with h1 | ⟨_, _, h⟩
    · exact literalEvalL_errs es err h1
    · cases h
  | .list es, err, h => by
    simp only [literalEval] at h
    replace h := bindE_err h
    rcases h with h1 | ⟨_, _, h⟩
    · exact literalEvalL_errs es err h1
    · cases h
  | .dict ks vs, err, h => by
    simp only [literalEval] at h
    replace h := bindE_err h
    rcases h with h1 | ⟨_, _, h⟩
    · exact literalEvalL_errs ks err h1
    · replace h := bindE_err h
      rcases h with h1 | ⟨_, _, h⟩
      · exact literalEvalL_errs vs err h1
      · repeat' (split at h)
        all_goals first | (cases h; done) | (cases h; exact Or.inl rfl) | (cases h; exact Or.inr (Or.inr rfl))
  | .op k es, err, h => by
    cases k with
    | un n =>
      cases es with
      | nil => simp only [literalEval] at h; cases h; exact Or.inl rfl
      | cons a rest =>
        cases rest with
        | nil =>
          simp only [literalEval] at h
          replace h := bindE_err h
          rcases h with h1 | ⟨_, _, h⟩
          · exact literalEval_errs a err h1
          · repeat' (split at h)
            all_goals first | (cases h; done) | (cases h; exact Or.inl rfl)
        | cons b r2 => simp only [literalEval] at h; cases h; exact Or.inl rfl
    | _ => simp only [literalEval] at h; cases h; exact Or.inl rfl
  | .name _, err, h => by simp only [literalEval] at h; cases h; exact Or.inl rfl
  | .attr _ _, err, h => by simp only [literalEval] at h; cases h; exact Or.inl rfl
  | .call _ _ _ _, err, h => by simp only [literalEval] at h; cases h; exact Or.inl rfl
  | .lam _ _, err, h => by simp only [literalEval] at h; cases h; exact Or.inl rfl
  | .sub _ _, err, h => by simp only [literalEval] at h; cases h; exact Or.inl rfl
  | .comp _ _ _ _ _ _, err, h => by simp only [literalEval] at h; cases h; exact Or.inl rfl
theorem literalEvalL_errs : ∀ (es : List Expr) (err : Err), literalEvalL es = .error err → litErr err
  | [], err, h => by simp [literalEvalL] at h
  | e :: es, err, h => by
    simp only [literalEvalL] at h
    replace h := bindE_err h
    rcases h with h1 | ⟨_, _, h⟩
    · exact literalEval_errs e err h1
    · replace h := bindE_err h
      rcases h with h1 | ⟨_, _, h⟩
      · exact literalEvalL_errs es err h1
      · cases h
end

theorem litSafe_refOK {e : Expr} (h : litSafe e = true) : RefOK (litKey e) := by
  intro err he
  simp only [litKey] at he
  have hd : err.designed = true := by simpa only [litSafe, he] using h
  rcases literalEval_errs e err he with rfl | ⟨w, rfl⟩ | rfl
  · simp [Err.refusal, untypedRefusals]
  · trivial
  · simp [Err.designed] at hd

theorem mapM_litKey_refOK : ∀ (es : List Expr), es.all litSafe = true → RefOK (es.mapM litKey)
  | [], _ => by simp only [List.mapM_nil]; exact RefOK.pure _
  | e :: es, h => by
    simp only [List.all_cons, Bool.and_eq_true] at h
    simp only [List.mapM_cons]
    refine RefOK.bind (litSafe_refOK h.1) (fun a _ => ?_)
    refine RefOK.bind (mapM_litKey_refOK es h.2) (fun b _ => ?_)
    exact RefOK.pure _

theorem methodCall_untyped_refOK (M : Model) (fuel : Nat) (G : Gamma) (st : FSt) {objTy : Ty} (recv : Expr) (m : String)
    (args : List Expr) (kwn : List String) (kwv : List Expr) (h : objTy.untyped = true) :
    RefOK (methodCall M fuel G st objTy recv m args kwn kwv) := by
  intro err he
  have := methodCall_untyped_noInt M fuel G st recv m args kwn kwv h err he
  cases fuel with
  | zero => simp only [methodCall] at he; cases he; trivial
  | succ fuel =>
    simp only [methodCall, isIterable_untyped M h, Bool.false_eq_true, if_false] at he
    cases fuel with
    | zero => simp only [candLoop, bind, Except.bind] at he; cases he; trivial
    | succ k =>
      simp only [candLoop, findMethod_untyped M 16 h] at he
      cases k with
      | zero => simp only [candLoop, bind, Except.bind] at he; cases he; trivial
      | succ k2 => simp only [candLoop, bind, Except.bind, pure, Except.pure] at he; cases he

theorem follow_refusals (M : Model) : ∀ fuel : Nat,
    (∀ G st e, GammaU G → noFuncCall M e = true → wfU e = true → RefOK (follow M fuel G st e)) ∧
    (∀ G st es, GammaU G → noFuncCallL M es = true → wfUL es = true → RefOK (followL M fuel G st es)) := by
  intro fuel
  induction fuel with
  | zero =>
    constructor
    · intro G st e _ _ _; simp only [follow]; exact RefOK.fuel
    · intro G st es _ _ _; simp only [followL]; exact RefOK.fuel
  | succ fuel ih =>
    obtain ⟨ihS, ihL⟩ := ih
    have inS := (follow_untyped M fuel).1
    have inL := (follow_untyped M fuel).2
    constructor
    · intro G st e hG hn hw
      cases e with
      | name y =>
        simp only [follow]
        split
        · refok_leaf
        · split <;> refok_leaf
      | const k => simp only [follow]; refok_leaf
      | lam ps b => simp only [follow]; refok_leaf
      | attr v a =>
        simp only [noFuncCall] at hn
        simp only [wfU] at hw
        simp only [follow]
        refine RefOK.bind (ihS G st v hG hn hw) (fun r hr => ?_)
        obtain ⟨he, ht, hs, hel⟩ := inS G st v hG hn r hr
        split
        · rename_i ks vs hd
          rw [he] at hd; subst hd
          simp only [wfU, Bool.and_eq_true, beq_iff_eq] at hw
          obtain ⟨⟨⟨_, _⟩, hlen⟩, _⟩ := hw
          obtain ⟨oi, hoi⟩ := dictLitIndex_noInt a ks 0
          simp only [hoi, bind, Except.bind]
          cases oi with
          | none => simp only []; split <;> refok_leaf
          | some i =>
            simp only []
            have hi := dictLitIndex_lt a ks 0 i hoi
            have hel2 := (follow_elts_len M fuel G st _ r hr).2 ks vs rfl
            have h1 : i < r.elts.length := by omega
            have h2 : i < vs.length := by omega
            simp only [List.getElem?_eq_getElem h1, List.getElem?_eq_getElem h2]
            refok_leaf
        · repeat' split
          all_goals refok_leaf
      | sub v s =>
        simp only [noFuncCall, Bool.and_eq_true] at hn
        have hw0 := hw
        simp only [wfU, Bool.and_eq_true] at hw
        obtain ⟨⟨⟨hwv, hws⟩, hlit⟩, hidx⟩ := hw
        simp only [follow]
        refine RefOK.bind (ihS G st v hG hn.1 hwv) (fun rv hv => ?_)
        obtain ⟨he, ht, hs, hel⟩ := inS G st v hG hn.1 rv hv
        refine RefOK.bind (ihS G rv.st s hG hn.2 hws) (fun rs hs2 => ?_)
        obtain ⟨he2, ht2, hst2, _⟩ := inS G rv.st s hG hn.2 rs hs2
        split
        · rename_i elts hd
          rw [he] at hd; subst hd
          have hlen := (follow_elts_len M fuel G st _ rv hv).1 elts rfl
          split
          · rename_i n hc
            rw [he2] at hc; subst hc
            simp only [decide_eq_true_eq] at hidx
            by_cases hle : (elts.length : Int) ≤ n
            · simp only [hle, if_true]; refok_leaf
            · simp only [hle, if_false]
              generalize hidx' : (if n < 0 then (elts.length : Int) + n else n) = idx
              have hnn : ¬ idx < 0 := by
                rw [← hidx']; split <;> omega
              have hlt : idx.toNat < elts.length := by
                rw [← hidx']; split <;> omega
              have h1 : idx.toNat < rv.elts.length := by omega
              simp only [List.getElem?_eq_getElem h1, List.getElem?_eq_getElem hlt, hnn, if_false]
              refok_leaf
          · rename_i b hc
            generalize hidx' : (if b = true then 1 else 0) = idx
            by_cases hle : elts.length ≤ idx
            · simp only [hle, if_true]; refok_leaf
            · simp only [hle, if_false]
              have hlt : idx < elts.length := by omega
              have h1 : idx < rv.elts.length := by omega
              simp only [List.getElem?_eq_getElem h1, List.getElem?_eq_getElem hlt]
              refok_leaf
          · refok_leaf
        · split
          · have hk : RefOK (litKey rs.e) := by rw [he2]; exact litSafe_refOK hlit
            refine RefOK.bind hk (fun k _ => ?_)
            repeat' split
            all_goals refok_leaf
          · refok_leaf
      | tuple es =>
        simp only [noFuncCall] at hn
        simp only [wfU] at hw
        simp only [follow]
        refine RefOK.bind (ihL G st es hG hn hw) (fun r _ => ?_)
        refok_leaf
      | list es =>
        simp only [noFuncCall] at hn
        simp only [wfU] at hw
        simp only [follow]
        refine RefOK.bind (ihL G st es hG hn hw) (fun r _ => ?_)
        refok_leaf
      | dict ks vs =>
        simp only [noFuncCall, Bool.and_eq_true] at hn
        simp only [wfU, Bool.and_eq_true] at hw
        obtain ⟨⟨⟨hwk, hwv⟩, _⟩, hlit⟩ := hw
        simp only [follow]
        refine RefOK.bind (ihL G st ks hG hn.1 hwk) (fun rk hk => ?_)
        obtain ⟨rk, st1⟩ := rk
        obtain ⟨h1, _, h3⟩ := inL G st ks hG hn.1 rk st1 hk
        simp only []
        refine RefOK.bind (ihL G st1 vs hG hn.2 hwv) (fun rv hv => ?_)
        obtain ⟨rv, st2⟩ := rv
        simp only []
        have hkm : RefOK ((rk.map (·.1)).mapM litKey) := by rw [h1]; exact mapM_litKey_refOK ks hlit
        refine RefOK.bind hkm (fun kv _ => ?_)
        refok_leaf
      | op k args =>
        simp only [noFuncCall] at hn
        simp only [wfU] at hw
        simp only [follow]
        refine RefOK.bind (ihL G st args hG hn hw) (fun r _ => ?_)
        obtain ⟨rs, st'⟩ := r
        simp only []
        repeat' split
        all_goals refok_leaf
      | comp kind el t i ifs a =>
        simp only [noFuncCall, Bool.and_eq_true] at hn
        simp only [wfU, Bool.and_eq_true] at hw
        simp only [follow]
        refine RefOK.bind (ihS G st el hG hn.1.1.1 hw.1.1.1) (fun r1 h1 => ?_)
        refine RefOK.bind (ihS G r1.st t hG hn.1.1.2 hw.1.1.2) (fun r2 h2 => ?_)
        refine RefOK.bind (ihS G r2.st i hG hn.1.2 hw.1.2) (fun r3 h3 => ?_)
        refine RefOK.bind (ihL G r3.st ifs hG hn.2 hw.2) (fun r4 h4 => ?_)
        obtain ⟨r4, st4⟩ := r4
        refok_leaf
      | call f args kwn kwv =>
        simp only [noFuncCall, Bool.and_eq_true] at hn
        obtain ⟨⟨⟨hnf, hna⟩, hnk⟩, hnm⟩ := hn
        simp only [wfU, Bool.and_eq_true] at hw
        obtain ⟨⟨hwf, hwa⟩, hwk⟩ := hw
        simp only [follow]
        refine RefOK.bind (ihS G st f hG hnf hwf) (fun rf hf => ?_)
        obtain ⟨f1, _, f3, _⟩ := inS G st f hG hnf rf hf
        refine RefOK.bind (ihL G rf.st args hG hna hwa) (fun ra ha => ?_)
        obtain ⟨as', st1⟩ := ra
        obtain ⟨a1, a2, a3⟩ := inL G rf.st args hG hna as' st1 ha
        simp only []
        refine RefOK.bind (ihL G st1 kwv hG hnk hwk) (fun rk hk => ?_)
        obtain ⟨ks', st2⟩ := rk
        obtain ⟨k1, k2, k3⟩ := inL G st1 kwv hG hnk ks' st2 hk
        simp only []
        rw [f1]
        cases f with
        | attr recv m =>
          simp only []
          simp only [noFuncCall] at hnf
          simp only [wfU] at hwf
          refine RefOK.bind (ihS G st recv hG hnf hwf) (fun rr hr => ?_)
          obtain ⟨_, r2, _, _⟩ := inS G st recv hG hnf rr hr
          exact methodCall_untyped_refOK M fuel G st2 recv m _ kwn _ r2
        | name n =>
          simp only []
          simp only [Bool.not_eq_true'] at hnm
          have hnone : M.funcs.find? (fun fi => fi.name == n) = Option.none := by
            rw [List.find?_eq_none]
            intro fi hfi hc
            have : M.funcs.any (fun fi => fi.name == n) = true := List.any_eq_true.mpr ⟨fi, hfi, hc⟩
            rw [hnm] at this; cases this
          simp only [hnone]
          refok_leaf
        | sub fv sl =>
          cases fv with
          | attr recv pn =>
            simp only []
            simp only [noFuncCall, Bool.and_eq_true] at hnf
            simp only [wfU, Bool.and_eq_true] at hwf
            refine RefOK.bind (ihS G st recv hG hnf.1 hwf.1.1.1) (fun rr hr => ?_)
            obtain ⟨_, r2, _, _⟩ := inS G st recv hG hnf.1 rr hr
            split
            · refok_leaf
            · rename_i cn cargs hc
              rw [hc] at r2; simp [Ty.untyped] at r2
            · refok_leaf
          | _ => simp only []; refok_leaf
        | lam ps body =>
          simp only []
          simp only [noFuncCall] at hnf
          simp only [wfU] at hwf
          have hG' : GammaU (lamArgTys ps (as'.map (·.2)) kwn (ks'.map (·.2)) ++ G) :=
            gammaU_append (lamArgTys_untyped ps _ kwn _ a2 k2) hG
          refine RefOK.bind (ihS _ st2 body hG' hnf hwf) (fun rb _ => ?_)
          refok_leaf
        | const c => simp only []; refok_leaf
        | tuple es => simp only []; refok_leaf
        | list es => simp only []; refok_leaf
        | dict ks vs => simp only []; refok_leaf
        | op k es => simp only []; refok_leaf
        | comp kind el t i ifs a => simp only []; refok_leaf
        | call f2 a2' k2' v2 => simp only []; refok_leaf
    · intro G st es hG hn hw
      cases es with
      | nil => simp only [followL]; refok_leaf
      | cons e rest =>
        simp only [noFuncCallL, Bool.and_eq_true] at hn
        simp only [wfUL, Bool.and_eq_true] at hw
        simp only [followL]
        refine RefOK.bind (ihS G st e hG hn.1 hw.1) (fun r hr => ?_)
        refine RefOK.bind (ihL G r.st rest hG hn.2 hw.2) (fun rr _ => ?_)
        obtain ⟨rr, st2⟩ := rr
        refok_leaf



/-- every refusal of Select / SelectMany / Where on an untyped stream, by message: the follower's own (`untypedRefusals`),
    `check_ast`'s and the non-boolean Where filter -/
def untypedStreamRefusals : List String :=
  untypedRefusals ++ ["Invalid constant type", "The Where filter must return a boolean"]

/-- **C10 (the refusals are the designed ones)**: Select / SelectMany / Where on a stream whose items have an untyped type,
    given a one-parameter lambda that calls no registered function by name and is a tree the parser can produce: whatever
    the operator fails with is a ValueError with one of the designed messages — an unknown key of a dictionary literal (by
    attribute or by key; or a key that is not a literal), a constant index out of range or a non-constant index into a tuple
    literal, a conditional with incompatible branch types, a non-transportable constant, a non-boolean Where filter — or the
    lambda holds an opaque constant outside the modelled fragment. -/
theorem streamOp_untyped_refusals_designed (M : Model) (op : String) (itemTy : Ty) (x : String) (body : Expr) (err : Err)
    (hi : itemTy.untyped = true) (hn : noFuncCall M body = true) (hw : wfU body = true)
    (h : streamOp M op itemTy (.lam [x] body) = .error err) :
    (∃ msg, err = .valueError msg ∧ msg ∈ untypedStreamRefusals) ∨ (∃ w, err = .unsupported w) := by
  have hG : GammaU [(x, itemTy)] := by
    intro y t hy
    simp only [gammaGet] at hy
    split at hy
    · cases hy; exact hi
    · cases hy
  rcases streamOp_untyped_refuses_with_valueError M op itemTy x body err hi hn hw h with ⟨msg, rfl⟩ | hu
  · left
    refine ⟨msg, rfl, ?_⟩
    simp only [streamOp] at h
    replace h := bindE_err h
    rcases h with h1 | ⟨rb, _, h⟩
    · have := (follow_refusals M _).1 _ _ body hG hn hw _ h1
      simp only [Err.refusal] at this
      simp only [untypedStreamRefusals, List.mem_append]; exact Or.inl this
    · replace h := bindE_err h
      rcases h with h1 | ⟨u, _, h⟩
      · have := checkAst_err _ _ h1
        simp only [ckErr, Err.valueError.injEq] at this
        subst this; simp [untypedStreamRefusals]
      · repeat' (split at h)
        all_goals first
          | (simp only [pure, Except.pure, reduceCtorEq] at h; done)
          | (simp only [Except.error.injEq, Err.valueError.injEq] at h; subst h; simp [untypedStreamRefusals])
  · exact Or.inr hu

end Fadl
