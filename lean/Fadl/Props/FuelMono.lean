/-
  The follower model's fuel is irrelevant once it is enough: a result obtained with some fuel is obtained, unchanged, with
  any larger fuel (`follow_fuel_irrelevant`; `follow_fuelMono` through all five mutually recursive functions).  So the
  theorems about `follow M fuel …` do not depend on how the fuel was chosen; that `followFuel` is always enough is
  checked by the correspondence runs only.
-/
import Fadl.Model.Follow
namespace Fadl
set_option linter.unusedSimpArgs false
set_option linter.unusedVariables false

def FRef {α : Type} (a a' : Except Err α) : Prop := ∀ r, a = .ok r → a' = .ok r

theorem FRef.rfl' {α : Type} (a : Except Err α) : FRef a a := fun _ h => h
theorem FRef.err {α : Type} (e : Err) (a' : Except Err α) : FRef (.error e) a' := fun _ h => by cases h
theorem FRef.bind {α β : Type} {a a' : Except Err α} {f f' : α → Except Err β} (h : FRef a a') (hf : ∀ x, FRef (f x) (f' x)) :
    FRef (a >>= f) (a' >>= f') := by
  intro r hr
  cases a with
  | error e => cases hr
  | ok x =>
    have := h x rfl
    subst this
    exact hf x r hr

def FuelMono (M : Model) (n : Nat) : Prop :=
  (∀ G st e, FRef (follow M n G st e) (follow M (n + 1) G st e)) ∧
  (∀ G st es, FRef (followL M n G st es) (followL M (n + 1) G st es)) ∧
  (∀ G st objTy recv m args kwn kwv, FRef (methodCall M n G st objTy recv m args kwn kwv) (methodCall M (n + 1) G st objTy recv m args kwn kwv)) ∧
  (∀ G st recv m args kwn kwv cands last, FRef (candLoop M n G st recv m args kwn kwv cands last) (candLoop M (n + 1) G st recv m args kwn kwv cands last)) ∧
  (∀ G st cand m filled, FRef (onStreamObj M n G st cand m filled) (onStreamObj M (n + 1) G st cand m filled))

theorem follow_fuelMono (M : Model) : ∀ n, FuelMono M n := by
  intro n
  induction n with
  | zero =>
    refine ⟨?_, ?_, ?_, ?_, ?_⟩ <;> intros <;> simp only [follow, followL, methodCall, candLoop, onStreamObj] <;> exact FRef.err _ _
  | succ n ih =>
    obtain ⟨ihS, ihL, ihM, ihC, ihO⟩ := ih
    refine ⟨?_, ?_, ?_, ?_, ?_⟩
    · intro G st e
      cases e with
      | name y => simp only [follow]; exact FRef.rfl' _
      | const k => simp only [follow]; exact FRef.rfl' _
      | lam ps b => simp only [follow]; exact FRef.rfl' _
      | attr v a =>
        simp only [follow]
        refine FRef.bind (ihS _ _ _) (fun r => ?_)
        exact FRef.rfl' _
      | sub v s =>
        simp only [follow]
        refine FRef.bind (ihS _ _ _) (fun rv => ?_)
        refine FRef.bind (ihS _ _ _) (fun rs => ?_)
        exact FRef.rfl' _
      | tuple es => simp only [follow]; exact FRef.bind (ihL _ _ _) (fun r => FRef.rfl' _)
      | list es => simp only [follow]; exact FRef.bind (ihL _ _ _) (fun r => FRef.rfl' _)
      | dict ks vs =>
        simp only [follow]
        refine FRef.bind (ihL _ _ _) (fun r1 => ?_)
        refine FRef.bind (ihL _ _ _) (fun r2 => ?_)
        exact FRef.rfl' _
      | op k args => simp only [follow]; exact FRef.bind (ihL _ _ _) (fun r => FRef.rfl' _)
      | comp kind el t i ifs a =>
        simp only [follow]
        refine FRef.bind (ihS _ _ _) (fun r1 => ?_)
        refine FRef.bind (ihS _ _ _) (fun r2 => ?_)
        refine FRef.bind (ihS _ _ _) (fun r3 => ?_)
        refine FRef.bind (ihL _ _ _) (fun r4 => ?_)
        exact FRef.rfl' _
      | call f args kwn kwv =>
        simp only [follow]
        refine FRef.bind (ihS _ _ _) (fun rf => ?_)
        refine FRef.bind (ihL _ _ _) (fun ra => ?_)
        refine FRef.bind (ihL _ _ _) (fun rk => ?_)
        split
        · refine FRef.bind (ihS _ _ _) (fun rr => ?_)
          exact ihM _ _ _ _ _ _ _ _
        · exact FRef.rfl' _
        · refine FRef.bind (ihS _ _ _) (fun rr => ?_)
          exact FRef.rfl' _
        · refine FRef.bind (ihS _ _ _) (fun rb => ?_)
          exact FRef.rfl' _
        · exact FRef.rfl' _
    · intro G st es
      cases es with
      | nil => simp only [followL]; exact FRef.rfl' _
      | cons e rest =>
        simp only [followL]
        refine FRef.bind (ihS _ _ _) (fun r => ?_)
        refine FRef.bind (ihL _ _ _) (fun rr => ?_)
        exact FRef.rfl' _
    · intro G st objTy recv m args kwn kwv
      simp only [methodCall]
      refine FRef.bind (ihC _ _ _ _ _ _ _ _ _) (fun r => ?_)
      exact FRef.rfl' _
    · intro G st recv m args kwn kwv cands last
      cases cands with
      | nil => simp only [candLoop]; exact FRef.rfl' _
      | cons cand rest =>
        simp only [candLoop]
        split
        · exact ihC _ _ _ _ _ _ _ _ _
        · refine FRef.bind (FRef.rfl' _) (fun filled => ?_)
          repeat' (first | (refine FRef.bind (ihO _ _ _ _ _) (fun o => ?_)) | split)
          all_goals first | exact FRef.rfl' _ | exact ihC _ _ _ _ _ _ _ _ _
    · intro G st cand m filled
      simp only [onStreamObj]
      split
      · split
        · refine FRef.bind (ihS _ _ _) (fun rb => ?_)
          exact FRef.rfl' _
        · exact FRef.rfl' _
      · exact FRef.rfl' _

/-- the follower's result does not depend on the model's fuel once it is enough -/
theorem follow_fuel_irrelevant (M : Model) (n k : Nat) (G : Gamma) (st : FSt) (e : Expr) (r : FRes)
    (h : follow M n G st e = .ok r) : follow M (n + k) G st e = .ok r := by
  induction k with
  | zero => exact h
  | succ k ih => exact (follow_fuelMono M (n + k)).1 G st e r ih

end Fadl
