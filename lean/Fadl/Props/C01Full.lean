/-
  C01 — the full backend pipeline: a chain of operator calls, run directly on an in-memory sequence (the eager
  reading), gives the value that the query AST built for the chain has after all three shipped backend passes
  (method form → function form, aggregate shortcuts, chained-call simplification), read under deferred execution.
-/
import Fadl.Props.C01
import Fadl.Props.C02Main
import Fadl.Lemmas.StrictLazy
namespace Fadl
set_option linter.unusedSimpArgs false

mutual
theorem clean_wf : ∀ {v : Val}, v.clean = true → VLe v v
  | .int _, _ => by simp [VLe]
  | .bool _, _ => by simp [VLe]
  | .str _, _ => by simp [VLe]
  | .none, _ => by simp [VLe]
  | .float _, _ => by simp [VLe]
  | .slice _ _ _, _ => by simp [VLe]
  | .poison _, h => by simp [Val.clean] at h
  | .tuple vs, h => by simp only [Val.clean] at h; simp only [VLe]; exact cleanL_wfS h
  | .list vs, h => by simp only [Val.clean] at h; simp only [VLe]; exact (cleanL_wfS h).toL
  | .dict ks vs, h => by
    simp only [Val.clean, Bool.and_eq_true] at h; simp only [VLe]; exact ⟨cleanL_wfS h.1, cleanL_wfS h.2⟩
  | .obj _ _ fv, h => by simp only [Val.clean] at h; simp only [VLe, true_and]; exact cleanL_wfS h
theorem cleanL_wfS : ∀ {vs : List Val}, Val.cleanL vs = true → VLeS vs vs
  | [], _ => by simp [VLeS]
  | v :: vs, h => by rw [cleanL_cons] at h; simp only [VLeS]; exact ⟨clean_wf h.1, cleanL_wfS h.2⟩
end

theorem EnvClean.wf {env : Env} (h : EnvClean env) : EnvLe env env :=
  fun x v hx => ⟨v, hx, clean_wf (h x v hx)⟩

theorem WorldClean.ok {w : World} (h : WorldClean w) : WorldOK w :=
  ⟨fun n vs kwn kvs v h1 h2 h3 => clean_wf (h.func n vs kwn kvs v h1 h2 h3),
   fun m r vs kwn kvs v h0 h1 h2 h3 => clean_wf (h.method m r vs kwn kvs v h0 h1 h2 h3).1⟩

/-- the three backend passes, the last one with its side conditions checked -/
def backendCk (fuel c : Nat) (e : Expr) : Except Err Expr := (simplifyCk fuel c (backendFront e)).map (·.1)

/-- **C01, with all three backend passes**: every query that evaluates eagerly (as Python's lists do) to a value
    evaluates, after the backend passes, to that same value under deferred execution. -/
theorem backend_preserves (w : World) (hw : WorldClean w) (env : Env) (henv : EnvClean env) (fuel c : Nat) (e e' : Expr) (v : Val)
    (hb : backendCk fuel c e = .ok e') (h : ev w env e = .ok v) : evLz w env e' = .ok v := by
  unfold backendCk at hb
  cases hs : simplifyCk fuel c (backendFront e) with
  | error x => simp [hs, Except.map] at hb
  | ok r =>
    obtain ⟨e2, c2⟩ := r
    simp only [hs, Except.map, Except.ok.injEq] at hb
    subst hb
    have h1 := backend_front_preserves w env e v h
    obtain ⟨h2, hclean⟩ := den_to_denLz w hw (backendFront e) env henv v h1
    exact simplifyCk_preserves hw.ok fuel c (backendFront e) e2 c2 hs env henv.wf v h2 hclean

/-- **C01 end to end**: the chain run on the in-memory sequence, and the simplified backend form of its AST -/
theorem chain_backend (w : World) (hw : WorldClean w) (env : Env) (henv : EnvClean env) (src : Expr) (steps : List ChainStep)
    (vs out : List Val) (fuel c : Nat) (e' : Expr)
    (hsrc : den w src env = .ok (.list vs)) (hrun : runChain w env vs steps = .ok out)
    (hb : backendCk fuel c (buildChain src steps) = .ok e') : evLz w env e' = .ok (.list out) := by
  apply backend_preserves w hw env henv fuel c _ e' _ hb
  unfold ev
  rw [chain_den w env src steps vs hsrc, hrun]; rfl

end Fadl
