/-
  C04 — class constants, nested classes, module attributes and captured objects (the attribute table) inside the semantic
  theorem.

  `rewriteCaptured_preserves` (Props/C04Sem.lean) is about snapshots of plain values.  Here the snapshot may also hold
  classes, modules and other objects (`klass c` / `lit c` with an opaque constant `c`), and the attribute table says what
  `getattr(object, name)` gave at the call.  Opaque constants have no value in the reference semantics (they cannot be
  transported: `check_ast` refuses a query that still holds one), so the statement is:

    with every captured name bound, where not hidden, to the value the snapshot stands for (`objs t` for the object
    tagged `t`), and the table consistent with those objects (`getAttr (objs t) a` = the value of the table's entry):
    IF the rewritten expression holds no opaque constant (it can be transported), it evaluates like the original; and
    wherever the rewriting yields the opaque constant `t` itself, the original evaluates to the object `objs t`.

  So `Cfg.threshold`, `Cfg.Inner.deep`, `mod.sub.value`, `obj.field` folded to literals mean what Python's attribute
  access meant when the operator was called.
-/
import Fadl.Props.C04Sem
namespace Fadl
set_option linter.unusedSimpArgs false
set_option linter.unusedVariables false

mutual
/-- no opaque constant anywhere -/
def noOpq : Expr → Bool
  | .name _ => true
  | .const (.opaque _) => false
  | .const _ => true
  | .attr v _ => noOpq v
  | .call f args _ kwv => noOpq f && noOpqL args && noOpqL kwv
  | .lam _ b => noOpq b
  | .sub v s => noOpq v && noOpq s
  | .tuple es => noOpqL es
  | .list es => noOpqL es
  | .dict ks vs => noOpqL ks && noOpqL vs
  | .op _ args => noOpqL args
  | .comp _ e t i ifs _ => noOpq e && noOpq t && noOpq i && noOpqL ifs
def noOpqL : List Expr → Bool
  | [] => true
  | e :: es => noOpq e && noOpqL es
end

/-- plain values, helpers left by name, and objects (classes, modules, instances) -/
def ObjSnapshot (snap : Snapshot) : Prop :=
  ∀ x r, snapGet x snap = some r → r = .keep ∨ (∃ c, r = .lit c) ∨ (∃ c, r = .klass c)

/-- the table folds attributes to constants or leaves the node (Enum members without a namespace hint) -/
def ConstTable (attrs : AttrTable) : Prop :=
  ∀ t a r, attrGet t a attrs = some r → r = .keepNode ∨ ∃ c, r = .const c

/-- the value a constant stands for, given the objects behind the opaque tags -/
def valOf (objs : String → Val) : Const → Res
  | .opaque t => .ok (objs t)
  | c => constVal c

theorem valOf_plain (objs : String → Val) (c : Const) (h : noOpq (.const c) = true) : valOf objs c = constVal c := by
  cases c <;> simp [valOf, noOpq] at h ⊢

def EnvHasK (snap : Snapshot) (objs : String → Val) (ig : List (List String)) (env : Env) : Prop :=
  ∀ x c, isIgnored x ig = false → (snapGet x snap = some (.lit c) ∨ snapGet x snap = some (.klass c)) →
    ∃ v, valOf objs c = .ok v ∧ env x = some v

/-- the table is what attribute access on the captured objects gives -/
def TableOK (attrs : AttrTable) (objs : String → Val) : Prop :=
  ∀ t a c, attrGet t a attrs = some (.const c) → ∃ v, valOf objs c = .ok v ∧ getAttrLz (objs t) a = .ok v

theorem EnvHasK.upd {snap : Snapshot} {objs : String → Val} {ig : List (List String)} {env : Env}
    (h : EnvHasK snap objs ig env) (f : List String) (y : String) (v : Val) (hy : y ∈ f) :
    EnvHasK snap objs (f :: ig) (env.upd y v) := by
  intro x c hx hs
  rw [isIgnored_cons] at hx
  simp only [Bool.or_eq_false_iff] at hx
  obtain ⟨u, hu, he⟩ := h x c hx.2 hs
  refine ⟨u, hu, ?_⟩
  simp only [Env.upd]
  split
  · rename_i hxy
    subst hxy
    have : f.contains x = true := by simpa using hy
    rw [this] at hx; exact absurd hx.1 (by simp)
  · exact he

theorem EnvHasK.mono {snap : Snapshot} {objs : String → Val} {ig : List (List String)} {env env' : Env}
    (h : EnvHasK snap objs ig env) (f : List String)
    (hagree : ∀ x, f.contains x = false → env' x = env x) : EnvHasK snap objs (f :: ig) env' := by
  intro x c hx hs
  rw [isIgnored_cons] at hx
  simp only [Bool.or_eq_false_iff] at hx
  obtain ⟨u, hu, he⟩ := h x c hx.2 hs
  exact ⟨u, hu, by rw [hagree x hx.1]; exact he⟩

abbrev rwA (snap : Snapshot) (attrs : AttrTable) (ig : List (List String)) (e : Expr) : Expr := rewriteCaptured snap attrs [] ig e
abbrev rwLA (snap : Snapshot) (attrs : AttrTable) (ig : List (List String)) (es : List Expr) : List Expr :=
  rewriteCapturedL snap attrs [] ig es

/-- only a name or an attribute can be rewritten into a constant it was not -/
theorem rw_const_source (snap : Snapshot) (attrs : AttrTable) (ig : List (List String)) (e : Expr) (c : Const)
    (h : rwA snap attrs ig e = .const c) : (∃ x, e = .name x) ∨ (∃ v a, e = .attr v a) ∨ e = .const c := by
  cases e with
  | name x => exact Or.inl ⟨x, rfl⟩
  | attr v a => exact Or.inr (Or.inl ⟨v, a, rfl⟩)
  | const k => simp only [rwA, rewriteCaptured, Expr.const.injEq] at h; exact Or.inr (Or.inr (by rw [h]))
  | call f args kwn kwv => simp only [rwA, rewriteCaptured] at h; split at h <;> (try split at h) <;> cases h
  | lam ps b => simp [rwA, rewriteCaptured] at h
  | sub v s => simp [rwA, rewriteCaptured] at h
  | tuple es => simp [rwA, rewriteCaptured] at h
  | list es => simp [rwA, rewriteCaptured] at h
  | dict ks vs => simp [rwA, rewriteCaptured] at h
  | op k args => simp [rwA, rewriteCaptured] at h
  | comp kind el t i ifs a => simp [rwA, rewriteCaptured] at h

theorem keptChild_of_const (v : Expr) (c : Const) (h : (∃ x, v = .name x) ∨ (∃ w a, v = .attr w a) ∨ v = .const c) :
    keptChild v (.const c) = v := by
  rcases h with ⟨x, rfl⟩ | ⟨w, a, rfl⟩ | rfl <;> simp [keptChild]

/-- what the induction carries for one expression -/
def AttrSem (w : World) (snap : Snapshot) (attrs : AttrTable) (objs : String → Val) (e : Expr) : Prop :=
  ∀ (ig : List (List String)) (env : Env), EnvHasK snap objs ig env → noOpq e = true →
    (noOpq (rwA snap attrs ig e) = true →
      denLz w (rwA snap attrs ig e) env = denLz w e env ∧
      ((∀ x, e ≠ .name x) → (∀ c, rwA snap attrs ig e ≠ .const c) →
        HeadAgree env env (denHeadLz w (rwA snap attrs ig e)) (denHeadLz w e)) ∧
      LamAgree env env (denLamLz w (rwA snap attrs ig e)) (denLamLz w e)) ∧
    (∀ t, rwA snap attrs ig e = .const (.opaque t) → denLz w e env = .ok (objs t))

def AttrSemL (w : World) (snap : Snapshot) (attrs : AttrTable) (objs : String → Val) (es : List Expr) : Prop :=
  ∀ (ig : List (List String)) (env : Env), EnvHasK snap objs ig env → noOpqL es = true →
    noOpqL (rwLA snap attrs ig es) = true →
    All2 (DAgree env env) (denLLz w (rwLA snap attrs ig es)) (denLLz w es) ∧
    All2 (LamAgree env env) (denLamLLz w (rwLA snap attrs ig es)) (denLamLLz w es)

theorem attrSem_name (w : World) (snap : Snapshot) (hs : ObjSnapshot snap) (attrs : AttrTable) (objs : String → Val)
    (x : String) : AttrSem w snap attrs objs (.name x) := by
  have lamNone : ∀ env, LamAgree env env Option.none Option.none := fun env => ⟨fun _ => rfl, fun _ _ => rfl⟩
  intro ig env henv _
  by_cases hig : isIgnored x ig = true
  · have hr : rwA snap attrs ig (.name x) = .name x := by simp [rwA, rewriteCaptured, hig]
    rw [hr]
    exact ⟨fun _ => ⟨rfl, fun h => absurd rfl (h x), lamNone env⟩, fun t h => by cases h⟩
  · have hig' : isIgnored x ig = false := by simpa using hig
    cases hsx : snapGet x snap with
    | none =>
      have hr : rwA snap attrs ig (.name x) = .name x := by simp [rwA, rewriteCaptured, hig', hsx]
      rw [hr]
      exact ⟨fun _ => ⟨rfl, fun h => absurd rfl (h x), lamNone env⟩, fun t h => by cases h⟩
    | some r =>
      rcases hs x r hsx with rfl | ⟨c, rfl⟩ | ⟨c, rfl⟩
      · have hr : rwA snap attrs ig (.name x) = .name x := by simp [rwA, rewriteCaptured, hig', hsx]
        rw [hr]
        exact ⟨fun _ => ⟨rfl, fun h => absurd rfl (h x), lamNone env⟩, fun t h => by cases h⟩
      · have hr : rwA snap attrs ig (.name x) = .const c := by simp [rwA, rewriteCaptured, hig', hsx]
        rw [hr]
        obtain ⟨v, hv, he⟩ := henv x c hig' (Or.inl hsx)
        refine ⟨fun hno => ⟨?_, fun h => absurd rfl (h x), lamNone env⟩, fun t h => ?_⟩
        · rw [valOf_plain objs c hno] at hv
          simp [denLz, hv, he]
        · cases h
          simp only [valOf, Except.ok.injEq] at hv
          simp [denLz, he, hv]
      · have hr : rwA snap attrs ig (.name x) = .const c := by simp [rwA, rewriteCaptured, hig', hsx]
        rw [hr]
        obtain ⟨v, hv, he⟩ := henv x c hig' (Or.inr hsx)
        refine ⟨fun hno => ⟨?_, fun h => absurd rfl (h x), lamNone env⟩, fun t h => ?_⟩
        · rw [valOf_plain objs c hno] at hv
          simp [denLz, hv, he]
        · cases h
          simp only [valOf, Except.ok.injEq] at hv
          simp [denLz, he, hv]

theorem attrSem_attr (w : World) (snap : Snapshot) (attrs : AttrTable) (hT : ConstTable attrs) (objs : String → Val)
    (hOK : TableOK attrs objs) (v : Expr) (a : String) (ih : AttrSem w snap attrs objs v) :
    AttrSem w snap attrs objs (.attr v a) := by
  have lamNone : ∀ env, LamAgree env env Option.none Option.none := fun env => ⟨fun _ => rfl, fun _ _ => rfl⟩
  intro ig env henv hsrcno
  have ihv := ih ig env henv (by simpa [noOpq] using hsrcno)
  -- the kept child evaluates like the original child whenever it is free of opaque constants
  have hkept : noOpq (keptChild v (rwA snap attrs ig v)) = true →
      denLz w (keptChild v (rwA snap attrs ig v)) env = denLz w v env := by
    intro hno
    rcases keptChild_cases v (rwA snap attrs ig v) with h1 | h1
    · rw [h1]
    · rw [h1] at hno ⊢; exact (ihv.1 hno).1
  by_cases hop : ∃ t, rwA snap attrs ig v = .const (.opaque t)
  · obtain ⟨t, ht⟩ := hop
    have hval := ihv.2 t ht
    have hsrc := rw_const_source snap attrs ig v _ ht
    cases hg : attrGet t a attrs with
    | none =>
      have hr : rwA snap attrs ig (.attr v a) = .attr v a := by
        simp only [rwA, rewriteCaptured]
        simp only [rwA] at ht
        rw [ht]
        simp only [hg]
        rw [keptChild_of_const v _ hsrc]
      rw [hr]
      exact ⟨fun _ => ⟨rfl, fun _ _ => headAgree_refl env _, lamNone env⟩, fun t' h => by cases h⟩
    | some r =>
      rcases hT t a r hg with rfl | ⟨c, rfl⟩
      · have hr : rwA snap attrs ig (.attr v a) = .attr v a := by
          simp only [rwA, rewriteCaptured]
          simp only [rwA] at ht
          rw [ht]
          simp only [hg]
        rw [hr]
        exact ⟨fun _ => ⟨rfl, fun _ _ => headAgree_refl env _, lamNone env⟩, fun t' h => by cases h⟩
      · have hr : rwA snap attrs ig (.attr v a) = .const c := by
          simp only [rwA, rewriteCaptured]
          simp only [rwA] at ht
          rw [ht]
          simp only [hg]
        rw [hr]
        obtain ⟨u, hu, hget⟩ := hOK t a c hg
        have horig : denLz w (.attr v a) env = .ok u := by
          simp only [denLz, hval, bind, Except.bind]
          exact hget
        refine ⟨fun hno => ⟨?_, fun _ hc => absurd rfl (hc c), lamNone env⟩, fun t' h => ?_⟩
        · rw [valOf_plain objs c hno] at hu
          rw [horig]; simp [denLz, hu]
        · cases h
          simp only [valOf, Except.ok.injEq] at hu
          rw [horig, hu]
  · have hr : rwA snap attrs ig (.attr v a) = .attr (keptChild v (rwA snap attrs ig v)) a := by
      simp only [rwA, rewriteCaptured]
      split
      · rename_i t heq
        exact absurd ⟨t, heq⟩ hop
      · rfl
    rw [hr]
    refine ⟨fun hno => ?_, fun t' h => by cases h⟩
    simp only [noOpq] at hno
    have hk := hkept hno
    exact ⟨by simp [denLz, hk], fun _ _ => by simp [denHeadLz, HeadAgree, hk], lamNone env⟩

theorem rw_name_cases (snap : Snapshot) (hs : ObjSnapshot snap) (attrs : AttrTable) (ig : List (List String)) (x : String) :
    rwA snap attrs ig (.name x) = .name x ∨ ∃ c, rwA snap attrs ig (.name x) = .const c := by
  simp only [rwA, rewriteCaptured]
  split
  · exact Or.inl rfl
  · cases hsx : snapGet x snap with
    | none => exact Or.inl rfl
    | some r =>
      rcases hs x r hsx with rfl | ⟨c, rfl⟩ | ⟨c, rfl⟩
      · exact Or.inl rfl
      · exact Or.inr ⟨c, rfl⟩
      · exact Or.inr ⟨c, rfl⟩

/-- **C04 (semantics, with the attribute table)**, the hidden names carried along -/
theorem rewriteCaptured_attr_sem_both (w : World) (snap : Snapshot) (hs : ObjSnapshot snap) (attrs : AttrTable)
    (hT : ConstTable attrs) (objs : String → Val) (hOK : TableOK attrs objs) :
    (∀ e : Expr, AttrSem w snap attrs objs e) ∧ (∀ es : List Expr, AttrSemL w snap attrs objs es) := by
  have lamNone : ∀ env, LamAgree env env Option.none Option.none := fun env => ⟨fun _ => rfl, fun _ _ => rfl⟩
  apply Expr.size.mutual_induct (motive_1 := fun e => AttrSem w snap attrs objs e)
    (motive_2 := fun es => AttrSemL w snap attrs objs es)
  case case1 => intro x; exact attrSem_name w snap hs attrs objs x
  case case2 =>
    intro c ig env _ hno
    refine ⟨fun _ => ⟨rfl, fun _ _ => headAgree_refl env _, lamNone env⟩, fun t h => ?_⟩
    -- a constant written in the source is not opaque
    simp only [rwA, rewriteCaptured, Expr.const.injEq] at h
    subst h
    simp [noOpq] at hno
  case case3 => intro v a ih; exact attrSem_attr w snap attrs hT objs hOK v a ih
  case case5 =>
    intro ps b ih ig env henv hsrc
    simp only [noOpq] at hsrc
    refine ⟨fun hno => ?_, fun t h => by simp [rwA, rewriteCaptured] at h⟩
    simp only [rwA, rewriteCaptured, noOpq] at hno ⊢
    refine ⟨rfl, fun _ _ => ?_, ?_⟩
    · simp only [denHeadLz, HeadAgree]
      intro vs kwn kvs
      cases hbp : bindParams ps vs kwn kvs env with
      | error e => rfl
      | ok env2 =>
        simp only [bind, Except.bind]
        have hfr := bindParams_frame ps vs kwn kvs env env2 hbp
        exact ((ih (ps :: ig) env2 (henv.mono ps (fun x hx => hfr x (by simpa using hx))) hsrc).1 hno).1
    · simp only [denLamLz]
      constructor
      · intro v
        match ps with
        | [x] =>
          simp only [applyLam1]
          exact ((ih ([x] :: ig) _ (henv.upd [x] x v (by simp)) hsrc).1 hno).1
        | [] => rfl
        | _ :: _ :: _ => rfl
      · intro a v
        match ps with
        | [x, y] =>
          simp only [applyLam2]
          split
          · rfl
          · refine ((ih ([x, y] :: ig) _ (henv.mono [x, y] ?_) hsrc).1 hno).1
            intro z hz
            simp only [List.contains_cons, List.contains_nil, Bool.or_false, Bool.or_eq_false_iff, beq_eq_false_iff_ne] at hz
            simp [Env.upd, hz.1, hz.2]
        | [] => rfl
        | [_] => rfl
        | _ :: _ :: _ :: _ => rfl
  case case6 =>
    intro v s ihv ihs ig env henv hsrc
    simp only [noOpq, Bool.and_eq_true] at hsrc
    refine ⟨fun hno => ?_, fun t h => by simp [rwA, rewriteCaptured] at h⟩
    simp only [rwA, rewriteCaptured, noOpq, Bool.and_eq_true] at hno
    have h1 := ((ihv ig env henv hsrc.1).1 hno.1).1
    have h2 := ((ihs ig env henv hsrc.2).1 hno.2).1
    simp only [rwA] at h1 h2
    exact ⟨by simp [rwA, rewriteCaptured, denLz, h1, h2], fun _ _ => by simp [rwA, rewriteCaptured, denHeadLz, HeadAgree], lamNone env⟩
  case case7 =>
    intro es ih ig env henv hsrc
    simp only [noOpq] at hsrc
    refine ⟨fun hno => ?_, fun t h => by simp [rwA, rewriteCaptured] at h⟩
    simp only [rwA, rewriteCaptured, noOpq] at hno
    have h := (ih ig env henv hsrc hno).1
    exact ⟨by simp [rwA, rewriteCaptured, denLz, evalAll_agree h], fun _ _ => by simp [rwA, rewriteCaptured, denHeadLz, HeadAgree], lamNone env⟩
  case case8 =>
    intro es ih ig env henv hsrc
    simp only [noOpq] at hsrc
    refine ⟨fun hno => ?_, fun t h => by simp [rwA, rewriteCaptured] at h⟩
    simp only [rwA, rewriteCaptured, noOpq] at hno
    have h := (ih ig env henv hsrc hno).1
    exact ⟨by simp [rwA, rewriteCaptured, denLz, evalAll_agree h], fun _ _ => by simp [rwA, rewriteCaptured, denHeadLz, HeadAgree], lamNone env⟩
  case case9 =>
    intro ks vs ihk ihv ig env henv hsrc
    simp only [noOpq, Bool.and_eq_true] at hsrc
    refine ⟨fun hno => ?_, fun t h => by simp [rwA, rewriteCaptured] at h⟩
    simp only [rwA, rewriteCaptured, noOpq, Bool.and_eq_true] at hno
    have h1 := (ihk ig env henv hsrc.1 hno.1).1
    have h2 := (ihv ig env henv hsrc.2 hno.2).1
    exact ⟨by simp [rwA, rewriteCaptured, denLz, evalAll_agree h1, evalAll_agree h2], fun _ _ => by simp [rwA, rewriteCaptured, denHeadLz, HeadAgree], lamNone env⟩
  case case10 =>
    intro k args ih ig env henv hsrc
    simp only [noOpq] at hsrc
    refine ⟨fun hno => ?_, fun t h => by simp [rwA, rewriteCaptured] at h⟩
    simp only [rwA, rewriteCaptured, noOpq] at hno
    have h := (ih ig env henv hsrc hno).1
    exact ⟨by simp [rwA, rewriteCaptured, denLz, map_env_agree h], fun _ _ => by simp [rwA, rewriteCaptured, denHeadLz, HeadAgree], lamNone env⟩
  case case11 =>
    intro kind el t i ifs a ihe _ ihi ihifs ig env henv hsrc
    simp only [noOpq, Bool.and_eq_true] at hsrc
    refine ⟨fun hno => ?_, fun t' h => by simp [rwA, rewriteCaptured] at h⟩
    simp only [rwA, rewriteCaptured, noOpq, Bool.and_eq_true] at hno
    refine ⟨?_, fun _ _ => by simp [rwA, rewriteCaptured, denHeadLz, HeadAgree], lamNone env⟩
    simp only [rwA, rewriteCaptured, denLz]
    cases t with
    | name x =>
      simp only [targetName, targetNames] at hno ⊢
      apply compSemLz_agree
      · exact ((ihi ig env henv hsrc.1.2).1 hno.1.2).1
      · intro v
        exact ((ihe ([x] :: ig) _ (henv.upd [x] x v (by simp)) hsrc.1.1.1).1 hno.1.1.1).1
      · intro v
        exact (ihifs ([x] :: ig) _ (henv.upd [x] x v (by simp)) hsrc.2 hno.2).1
    | _ => simp [targetName, compSemLz]
  case case12 =>
    intro ig env _ _ _
    exact ⟨.nil, .nil⟩
  case case13 =>
    intro e es ihe ihes ig env henv hsrc hno
    simp only [noOpqL, Bool.and_eq_true] at hsrc
    simp only [rwLA, rewriteCapturedL, noOpqL, Bool.and_eq_true] at hno
    have h1 := (ihe ig env henv hsrc.1).1 hno.1
    have h2 := ihes ig env henv hsrc.2 hno.2
    exact ⟨.cons h1.1 h2.1, .cons h1.2.2 h2.2⟩
  case case4 =>
    intro f args kwn kwv ihf iha ihk ig env henv hsrc
    simp only [noOpq, Bool.and_eq_true] at hsrc
    have hnc : ∀ c, rwA snap attrs ig (.call f args kwn kwv) ≠ .const c := by
      intro c h
      simp only [rwA, rewriteCaptured] at h
      split at h <;> (try split at h) <;> cases h
    refine ⟨fun hno => ?_, fun t h => absurd h (hnc _)⟩
    -- whichever callee is emitted, the arguments are the rewritten ones and are free of opaque constants
    have hargs : noOpqL (rwLA snap attrs ig args) = true ∧ noOpqL (rwLA snap attrs ig kwv) = true := by
      simp only [rwA, rewriteCaptured, List.contains_nil, Bool.false_eq_true, if_false] at hno
      split at hno <;> simp only [noOpq, Bool.and_eq_true] at hno <;> exact ⟨hno.1.2, hno.2⟩
    have h2 := iha ig env henv hsrc.1.2 hargs.1
    have h3 := ihk ig env henv hsrc.2 hargs.2
    have hcall : ∀ (g : Expr), HeadAgree env env (denHeadLz w g) (denHeadLz w f) →
        denLz w (.call g (rwLA snap attrs ig args) kwn (rwLA snap attrs ig kwv)) env = denLz w (.call f args kwn kwv) env := by
      intro g hg
      simp only [denLz]
      exact callSemLz_agree w kwn hg h2.1 h2.2 h3.1
    refine ⟨?_, fun _ _ => ?_, ?_⟩
    · simp only [rwA, rewriteCaptured, List.contains_nil, Bool.false_eq_true, if_false] at hno ⊢
      split
      · exact hcall f (headAgree_refl env _)
      · exact hcall f (headAgree_refl env _)
      · rename_i hnc1 hnc2
        have hf' : noOpq (rwA snap attrs ig f) = true := by
          split at hno
          · rename_i t heq; exact absurd heq (hnc1 t)
          · rename_i c _ heq; exact absurd heq (hnc2 c)
          · simp only [noOpq, Bool.and_eq_true] at hno; exact hno.1.1
        by_cases hn : ∃ x, f = .name x
        · obtain ⟨x, rfl⟩ := hn
          rcases rw_name_cases snap hs attrs ig x with h | ⟨c, h⟩
          · simp only [rwA] at h
            rw [h]
            exact hcall _ (headAgree_refl env _)
          · exact absurd h (hnc2 c)
        · exact hcall _ (((ihf ig env henv hsrc.1.1).1 hf').2.1 (fun x h => hn ⟨x, h⟩) (fun c h => hnc2 c h))
    · have : ∀ g a2 k2 v2, denHeadLz w (Expr.call g a2 k2 v2) = .other := fun _ _ _ _ => rfl
      simp only [rwA, rewriteCaptured]
      split <;> (try split) <;> simp [denHeadLz, HeadAgree]
    · simp only [rwA, rewriteCaptured]
      split <;> (try split) <;> exact lamNone env

/-- **C04 (class constants, nested classes, module attributes, captured objects)**: with the captured names bound to what
    the snapshot stands for and the attribute table consistent with those objects, a rewritten expression that holds no
    object constant any more (it can be transported) evaluates like the original - for every world and environment -/
theorem rewriteCaptured_attrs_preserves (w : World) (snap : Snapshot) (hs : ObjSnapshot snap) (attrs : AttrTable)
    (hT : ConstTable attrs) (objs : String → Val) (hOK : TableOK attrs objs) (e : Expr) (hsrc : noOpq e = true)
    (env : Env) (h : EnvHasK snap objs [] env) (hno : noOpq (rewriteCaptured snap attrs [] [] e) = true) :
    evLz w env (rewriteCaptured snap attrs [] [] e) = evLz w env e :=
  ((((rewriteCaptured_attr_sem_both w snap hs attrs hT objs hOK).1 e) [] env h hsrc).1 hno).1

/-- … and for the lambda that is recorded (its own parameter hides a captured name) -/
theorem rewriteCaptured_attrs_lambda (w : World) (snap : Snapshot) (hs : ObjSnapshot snap) (attrs : AttrTable)
    (hT : ConstTable attrs) (objs : String → Val) (hOK : TableOK attrs objs) (x : String) (b : Expr) (hsrc : noOpq b = true)
    (env : Env) (h : EnvHasK snap objs [] env) (v : Val) (hno : noOpq (rewriteCaptured snap attrs [] [[x]] b) = true) :
    evLz w (env.upd x v) (rewriteCaptured snap attrs [] [[x]] b) = evLz w (env.upd x v) b :=
  ((((rewriteCaptured_attr_sem_both w snap hs attrs hT objs hOK).1 b) [[x]] (env.upd x v) (h.upd [x] x v (by simp)) hsrc).1 hno).1

/-- where the rewriting leaves the object itself (a class used as a value, a module), the original denotes that object -/
theorem rewriteCaptured_object (w : World) (snap : Snapshot) (hs : ObjSnapshot snap) (attrs : AttrTable)
    (hT : ConstTable attrs) (objs : String → Val) (hOK : TableOK attrs objs) (e : Expr) (hsrc : noOpq e = true)
    (env : Env) (h : EnvHasK snap objs [] env) (t : String)
    (hr : rewriteCaptured snap attrs [] [] e = .const (.opaque t)) : evLz w env e = .ok (objs t) :=
  (((rewriteCaptured_attr_sem_both w snap hs attrs hT objs hOK).1 e) [] env h hsrc).2 t hr

/-! Non-vacuity: a class with a constant and a nested class, a plain captured integer. -/
namespace C04AttrExample
def snap : Snapshot := [("Cfg", .klass (.opaque "class:Cfg")), ("G1", .lit (.int 5))]
def attrs : AttrTable := [("class:Cfg", "threshold", .const (.int 30)), ("class:Cfg", "Inner", .const (.opaque "class:Inner")),
                          ("class:Inner", "deep", .const (.int 4))]
def inner : Val := .obj "Inner" ["deep"] [.int 4]
def objs (t : String) : Val :=
  if t = "class:Cfg" then .obj "Cfg" ["threshold", "Inner"] [.int 30, inner] else if t = "class:Inner" then inner else .none
def src : Expr := .op (.bin "Add") [.attr (.attr (.name "Cfg") "Inner") "deep", .op (.bin "Add") [.attr (.name "Cfg") "threshold", .name "G1"]]

example : rewriteCaptured snap attrs [] [] src = .op (.bin "Add") [.const (.int 4), .op (.bin "Add") [.const (.int 30), .const (.int 5)]] := by
  rfl
example : noOpq src = true ∧ noOpq (rewriteCaptured snap attrs [] [] src) = true := by decide +kernel
example : ObjSnapshot snap := by
  intro x r h
  simp only [snap, snapGet] at h
  split at h
  · cases h; exact Or.inr (Or.inr ⟨_, rfl⟩)
  · split at h
    · cases h; exact Or.inr (Or.inl ⟨_, rfl⟩)
    · cases h
example : ConstTable attrs := by
  intro t a r h
  simp only [attrs, attrGet] at h
  split at h
  · cases h; exact Or.inr ⟨_, rfl⟩
  · split at h
    · cases h; exact Or.inr ⟨_, rfl⟩
    · split at h
      · cases h; exact Or.inr ⟨_, rfl⟩
      · cases h
example : TableOK attrs objs := by
  intro t a c h
  simp only [attrs, attrGet] at h
  split at h
  · rename_i hk; cases h; obtain ⟨rfl, rfl⟩ := hk; exact ⟨.int 30, rfl, by rfl⟩
  · split at h
    · rename_i hk; cases h; obtain ⟨rfl, rfl⟩ := hk; exact ⟨inner, by simp [valOf, objs], by rfl⟩
    · split at h
      · rename_i hk; cases h; obtain ⟨rfl, rfl⟩ := hk; exact ⟨.int 4, rfl, by rfl⟩
      · cases h
example : EnvHasK snap objs [] ((Env.empty.upd "G1" (.int 5)).upd "Cfg" (objs "class:Cfg")) := by
  intro x c _ h
  simp only [snap, snapGet] at h
  by_cases hx : x = "Cfg"
  · subst hx
    simp at h
    subst h
    exact ⟨objs "class:Cfg", rfl, by simp [Env.upd]⟩
  · by_cases hy : x = "G1"
    · subst hy
      simp at h
      subst h
      exact ⟨.int 5, rfl, by simp [Env.upd]⟩
    · rcases h with h | h <;> (split at h <;> (try split at h) <;> simp_all)
end C04AttrExample

end Fadl
