/-
  C10 — no valid expression causes an internal error on an untyped stream.

  `follow_noInt`: for EVERY class model, if every name in scope has an untyped type, the expression calls no registered
  function by name and is a tree Python's parser can produce (`wfU`: dictionary literals have as many keys as values and
  their keys evaluate without a TypeError, a constant index into a tuple literal is not below `-len`), then whatever the
  type follower fails with is a designed refusal (`ValueError`) — never AttributeError / TypeError / IndexError / KeyError /
  AssertionError.  (`Err.designed` also admits the model's own two non-Python failures: running out of fuel, and an
  opaque constant outside the modelled fragment.)  `streamOp_untyped_no_internal` is the same for Select / SelectMany /
  Where.  Together with `streamOp_untyped_identity` (Props/C10Full.lean): on an untyped stream the operators either emit
  exactly the lambda they were given or refuse with ValueError.
-/
import Fadl.Props.C10Full
import Fadl.Props.C08Sound
namespace Fadl
set_option linter.unusedSimpArgs false
set_option linter.unusedVariables false

def NoInt {α : Type} (r : Except Err α) : Prop := ∀ err, r = .error err → err.designed = true

theorem NoInt.ok {α : Type} (a : α) : NoInt (.ok a : Except Err α) := by intro err h; cases h
theorem NoInt.pure {α : Type} (a : α) : NoInt (pure a : Except Err α) := by intro err h; cases h
theorem NoInt.valueError {α : Type} (m : String) : NoInt (.error (.valueError m) : Except Err α) := by
  intro err h; cases h; rfl
theorem NoInt.fuel {α : Type} : NoInt (.error .fuel : Except Err α) := by intro err h; cases h; rfl

theorem NoInt.bind {α β : Type} {x : Except Err α} {f : α → Except Err β} (hx : NoInt x)
    (hf : ∀ a, x = .ok a → NoInt (f a)) : NoInt (x >>= f) := by
  intro err h
  cases x with
  | error e => cases h; exact hx _ rfl
  | ok a => exact hf a rfl err h

theorem dictLitIndex_noInt (k : String) (es : List Expr) (i : Nat) : ∃ o, dictLitIndex k es i = .ok o := ⟨_, rfl⟩

theorem dictLitIdx_lt (k : String) : ∀ (es : List Expr) (i j : Nat), dictLitIdx? k es i = some j → j < i + es.length
  | [], i, j, h => by simp [dictLitIdx?] at h
  | e :: es, i, j, h => by
    have ih := dictLitIdx_lt k es (i + 1) j
    simp only [dictLitIdx?] at h
    cases hr : dictLitIdx? k es (i + 1) with
    | some j' =>
      simp only [hr, Option.some.injEq] at h; subst h
      have := ih hr; simp only [List.length_cons]; omega
    | none =>
      simp only [hr] at h
      split at h
      · simp only [Option.some.injEq] at h; subst h; simp
      · cases h

theorem dictLitIndex_lt (k : String) (es : List Expr) (i j : Nat) (h : dictLitIndex k es i = .ok (some j)) : j < i + es.length := by
  simp only [dictLitIndex, Except.ok.injEq] at h
  exact dictLitIdx_lt k es i j h

theorem litSafe_noInt {e : Expr} (h : litSafe e = true) : NoInt (litKey e) := by
  intro err he
  simp only [litKey] at he
  simpa only [litSafe, he] using h

theorem mapM_litKey_noInt : ∀ (es : List Expr), es.all litSafe = true → NoInt (es.mapM litKey)
  | [], _ => by simp only [List.mapM_nil]; exact NoInt.pure _
  | e :: es, h => by
    simp only [List.all_cons, Bool.and_eq_true] at h
    simp only [List.mapM_cons]
    refine NoInt.bind (litSafe_noInt h.1) (fun a _ => ?_)
    refine NoInt.bind (mapM_litKey_noInt es h.2) (fun b _ => ?_)
    exact NoInt.pure _

theorem followL_length (M : Model) : ∀ (fuel : Nat) (G : Gamma) (st : FSt) (es : List Expr) (rs : List (Expr × Ty)) (st' : FSt),
    followL M fuel G st es = .ok (rs, st') → rs.length = es.length
  | 0, _, _, _, _, _, h => by simp [followL] at h
  | fuel + 1, G, st, [], rs, st', h => by
    simp only [followL, Except.ok.injEq, Prod.mk.injEq] at h; obtain ⟨rfl, _⟩ := h; rfl
  | fuel + 1, G, st, e :: es, rs, st', h => by
    simp only [followL] at h
    replace h := bindE_ok h
    obtain ⟨r, _, h⟩ := h
    replace h := bindE_ok h
    obtain ⟨⟨rr, st2⟩, hr, h⟩ := h
    simp only [pure, Except.pure, Except.ok.injEq, Prod.mk.injEq] at h
    obtain ⟨rfl, _⟩ := h
    simp [followL_length M fuel G r.st es rr st2 hr]

/-- the recorded element types of a tuple / dictionary literal: one per element / value -/
theorem follow_elts_len (M : Model) (fuel : Nat) (G : Gamma) (st : FSt) (e : Expr) (r : FRes)
    (h : follow M fuel G st e = .ok r) :
    (∀ es, e = .tuple es → r.elts.length = es.length) ∧ (∀ ks vs, e = .dict ks vs → r.elts.length = vs.length) := by
  cases fuel with
  | zero => simp [follow] at h
  | succ fuel =>
    constructor
    · intro es he; subst he
      simp only [follow] at h
      replace h := bindE_ok h
      obtain ⟨⟨rs, st'⟩, hl, h⟩ := h
      simp only [pure, Except.pure, Except.ok.injEq] at h; subst h
      simp [followL_length M fuel G st es rs st' hl]
    · intro ks vs he; subst he
      simp only [follow] at h
      replace h := bindE_ok h
      obtain ⟨⟨rk, st1⟩, hk, h⟩ := h
      replace h := bindE_ok h
      obtain ⟨⟨rv, st2⟩, hv, h⟩ := h
      replace h := bindE_ok h
      obtain ⟨kv, _, h⟩ := h
      simp only [pure, Except.pure, Except.ok.injEq] at h; subst h
      simp [followL_length M fuel G st1 vs rv st2 hv]

theorem methodCall_untyped_noInt (M : Model) (fuel : Nat) (G : Gamma) (st : FSt) {objTy : Ty} (recv : Expr) (m : String)
    (args : List Expr) (kwn : List String) (kwv : List Expr) (h : objTy.untyped = true) :
    NoInt (methodCall M fuel G st objTy recv m args kwn kwv) := by
  cases fuel with
  | zero => simp only [methodCall]; exact NoInt.fuel
  | succ fuel =>
    simp only [methodCall, isIterable_untyped M h, Bool.false_eq_true, if_false]
    cases fuel with
    | zero => simp only [candLoop, bind, Except.bind]; exact NoInt.fuel
    | succ k =>
      simp only [candLoop, findMethod_untyped M 16 h]
      cases k with
      | zero => simp only [candLoop, bind, Except.bind]; exact NoInt.fuel
      | succ k2 => simp only [candLoop, bind, Except.bind]; exact NoInt.pure _


theorem wfUL_mem {es : List Expr} (h : wfUL es = true) {e : Expr} (he : e ∈ es) : wfU e = true := by
  induction es with
  | nil => cases he
  | cons a rest ih =>
    simp only [wfUL, Bool.and_eq_true] at h
    rcases List.mem_cons.mp he with rfl | h'
    · exact h.1
    · exact ih h.2 h'

macro "noint_leaf" : tactic => `(tactic| first
  | exact NoInt.pure _
  | exact NoInt.ok _
  | exact NoInt.valueError _
  | exact NoInt.fuel)

theorem follow_noInt (M : Model) : ∀ fuel : Nat,
    (∀ G st e, GammaU G → noFuncCall M e = true → wfU e = true → NoInt (follow M fuel G st e)) ∧
    (∀ G st es, GammaU G → noFuncCallL M es = true → wfUL es = true → NoInt (followL M fuel G st es)) := by
  intro fuel
  induction fuel with
  | zero =>
    constructor
    · intro G st e _ _ _; simp only [follow]; exact NoInt.fuel
    · intro G st es _ _ _; simp only [followL]; exact NoInt.fuel
  | succ fuel ih =>
    obtain ⟨ihS, ihL⟩ := ih
    have inS := (follow_untyped M fuel).1
    have inL := (follow_untyped M fuel).2
    constructor
    · intro G st e hG hn hw
      cases e with
      | name y =>
        simp only [follow]
        split
        · noint_leaf
        · split <;> noint_leaf
      | const k => simp only [follow]; noint_leaf
      | lam ps b => simp only [follow]; noint_leaf
      | attr v a =>
        simp only [noFuncCall] at hn
        simp only [wfU] at hw
        simp only [follow]
        refine NoInt.bind (ihS G st v hG hn hw) (fun r hr => ?_)
        obtain ⟨he, ht, hs, hel⟩ := inS G st v hG hn r hr
        split
        · rename_i ks vs hd
          rw [he] at hd; subst hd
          simp only [wfU, Bool.and_eq_true, beq_iff_eq] at hw
          obtain ⟨⟨⟨_, _⟩, hlen⟩, _⟩ := hw
          obtain ⟨oi, hoi⟩ := dictLitIndex_noInt a ks 0
          simp only [hoi, bind, Except.bind]
          cases oi with
          | none => simp only []; split <;> noint_leaf
          | some i =>
            simp only []
            have hi := dictLitIndex_lt a ks 0 i hoi
            have hel2 := (follow_elts_len M fuel G st _ r hr).2 ks vs rfl
            have h1 : i < r.elts.length := by omega
            have h2 : i < vs.length := by omega
            simp only [List.getElem?_eq_getElem h1, List.getElem?_eq_getElem h2]
            noint_leaf
        · repeat' split
          all_goals noint_leaf
      | sub v s =>
        simp only [noFuncCall, Bool.and_eq_true] at hn
        have hw0 := hw
        simp only [wfU, Bool.and_eq_true] at hw
        obtain ⟨⟨⟨hwv, hws⟩, hlit⟩, hidx⟩ := hw
        simp only [follow]
        refine NoInt.bind (ihS G st v hG hn.1 hwv) (fun rv hv => ?_)
        obtain ⟨he, ht, hs, hel⟩ := inS G st v hG hn.1 rv hv
        refine NoInt.bind (ihS G rv.st s hG hn.2 hws) (fun rs hs2 => ?_)
        obtain ⟨he2, ht2, hst2, _⟩ := inS G rv.st s hG hn.2 rs hs2
        split
        · rename_i elts hd
          rw [he] at hd; subst hd
          have hlen := (follow_elts_len M fuel G st _ rv hv).1 elts rfl
          split
          · rename_i n hc
            rw [he2] at hc; subst hc
            simp only [decide_eq_true_eq] at hidx
            by_cases hle : (elts.length : Int) ≤ n
            · simp only [hle, if_true]; noint_leaf
            · simp only [hle, if_false]
              generalize hidx' : (if n < 0 then (elts.length : Int) + n else n) = idx
              have hnn : ¬ idx < 0 := by
                rw [← hidx']; split <;> omega
              have hlt : idx.toNat < elts.length := by
                rw [← hidx']; split <;> omega
              have h1 : idx.toNat < rv.elts.length := by omega
              simp only [List.getElem?_eq_getElem h1, List.getElem?_eq_getElem hlt, hnn, if_false]
              noint_leaf
          · rename_i b hc
            generalize hidx' : (if b = true then 1 else 0) = idx
            by_cases hle : elts.length ≤ idx
            · simp only [hle, if_true]; noint_leaf
            · simp only [hle, if_false]
              have hlt : idx < elts.length := by omega
              have h1 : idx < rv.elts.length := by omega
              simp only [List.getElem?_eq_getElem h1, List.getElem?_eq_getElem hlt]
              noint_leaf
          · noint_leaf
        · split
          · have hk : NoInt (litKey rs.e) := by rw [he2]; exact litSafe_noInt hlit
            refine NoInt.bind hk (fun k _ => ?_)
            repeat' split
            all_goals noint_leaf
          · noint_leaf
      | tuple es =>
        simp only [noFuncCall] at hn
        simp only [wfU] at hw
        simp only [follow]
        refine NoInt.bind (ihL G st es hG hn hw) (fun r _ => ?_)
        noint_leaf
      | list es =>
        simp only [noFuncCall] at hn
        simp only [wfU] at hw
        simp only [follow]
        refine NoInt.bind (ihL G st es hG hn hw) (fun r _ => ?_)
        noint_leaf
      | dict ks vs =>
        simp only [noFuncCall, Bool.and_eq_true] at hn
        simp only [wfU, Bool.and_eq_true] at hw
        obtain ⟨⟨⟨hwk, hwv⟩, _⟩, hlit⟩ := hw
        simp only [follow]
        refine NoInt.bind (ihL G st ks hG hn.1 hwk) (fun rk hk => ?_)
        obtain ⟨rk, st1⟩ := rk
        obtain ⟨h1, _, h3⟩ := inL G st ks hG hn.1 rk st1 hk
        simp only []
        refine NoInt.bind (ihL G st1 vs hG hn.2 hwv) (fun rv hv => ?_)
        obtain ⟨rv, st2⟩ := rv
        simp only []
        have hkm : NoInt ((rk.map (·.1)).mapM litKey) := by rw [h1]; exact mapM_litKey_noInt ks hlit
        refine NoInt.bind hkm (fun kv _ => ?_)
        noint_leaf
      | op k args =>
        simp only [noFuncCall] at hn
        simp only [wfU] at hw
        simp only [follow]
        refine NoInt.bind (ihL G st args hG hn hw) (fun r _ => ?_)
        obtain ⟨rs, st'⟩ := r
        simp only []
        repeat' split
        all_goals noint_leaf
      | comp kind el t i ifs a =>
        simp only [noFuncCall, Bool.and_eq_true] at hn
        simp only [wfU, Bool.and_eq_true] at hw
        simp only [follow]
        refine NoInt.bind (ihS G st el hG hn.1.1.1 hw.1.1.1) (fun r1 h1 => ?_)
        refine NoInt.bind (ihS G r1.st t hG hn.1.1.2 hw.1.1.2) (fun r2 h2 => ?_)
        refine NoInt.bind (ihS G r2.st i hG hn.1.2 hw.1.2) (fun r3 h3 => ?_)
        refine NoInt.bind (ihL G r3.st ifs hG hn.2 hw.2) (fun r4 h4 => ?_)
        obtain ⟨r4, st4⟩ := r4
        noint_leaf
      | call f args kwn kwv =>
        simp only [noFuncCall, Bool.and_eq_true] at hn
        obtain ⟨⟨⟨hnf, hna⟩, hnk⟩, hnm⟩ := hn
        simp only [wfU, Bool.and_eq_true] at hw
        obtain ⟨⟨hwf, hwa⟩, hwk⟩ := hw
        simp only [follow]
        refine NoInt.bind (ihS G st f hG hnf hwf) (fun rf hf => ?_)
        obtain ⟨f1, _, f3, _⟩ := inS G st f hG hnf rf hf
        refine NoInt.bind (ihL G rf.st args hG hna hwa) (fun ra ha => ?_)
        obtain ⟨as', st1⟩ := ra
        obtain ⟨a1, a2, a3⟩ := inL G rf.st args hG hna as' st1 ha
        simp only []
        refine NoInt.bind (ihL G st1 kwv hG hnk hwk) (fun rk hk => ?_)
        obtain ⟨ks', st2⟩ := rk
        obtain ⟨k1, k2, k3⟩ := inL G st1 kwv hG hnk ks' st2 hk
        simp only []
        rw [f1]
        cases f with
        | attr recv m =>
          simp only []
          simp only [noFuncCall] at hnf
          simp only [wfU] at hwf
          refine NoInt.bind (ihS G st recv hG hnf hwf) (fun rr hr => ?_)
          obtain ⟨_, r2, _, _⟩ := inS G st recv hG hnf rr hr
          exact methodCall_untyped_noInt M fuel G st2 recv m _ kwn _ r2
        | name n =>
          simp only []
          simp only [Bool.not_eq_true'] at hnm
          have hnone : M.funcs.find? (fun fi => fi.name == n) = Option.none := by
            rw [List.find?_eq_none]
            intro fi hfi hc
            have : M.funcs.any (fun fi => fi.name == n) = true := List.any_eq_true.mpr ⟨fi, hfi, hc⟩
            rw [hnm] at this; cases this
          simp only [hnone]
          noint_leaf
        | sub fv sl =>
          cases fv with
          | attr recv pn =>
            simp only []
            simp only [noFuncCall, Bool.and_eq_true] at hnf
            simp only [wfU, Bool.and_eq_true] at hwf
            refine NoInt.bind (ihS G st recv hG hnf.1 hwf.1.1.1) (fun rr hr => ?_)
            obtain ⟨_, r2, _, _⟩ := inS G st recv hG hnf.1 rr hr
            split
            · noint_leaf
            · rename_i cn cargs hc
              rw [hc] at r2; simp [Ty.untyped] at r2
            · noint_leaf
          | _ => simp only []; noint_leaf
        | lam ps body =>
          simp only []
          simp only [noFuncCall] at hnf
          simp only [wfU] at hwf
          have hG' : GammaU (lamArgTys ps (as'.map (·.2)) kwn (ks'.map (·.2)) ++ G) :=
            gammaU_append (lamArgTys_untyped ps _ kwn _ a2 k2) hG
          refine NoInt.bind (ihS _ st2 body hG' hnf hwf) (fun rb _ => ?_)
          noint_leaf
        | const c => simp only []; noint_leaf
        | tuple es => simp only []; noint_leaf
        | list es => simp only []; noint_leaf
        | dict ks vs => simp only []; noint_leaf
        | op k es => simp only []; noint_leaf
        | comp kind el t i ifs a => simp only []; noint_leaf
        | call f2 a2' k2' v2 => simp only []; noint_leaf
    · intro G st es hG hn hw
      cases es with
      | nil => simp only [followL]; noint_leaf
      | cons e rest =>
        simp only [noFuncCallL, Bool.and_eq_true] at hn
        simp only [wfUL, Bool.and_eq_true] at hw
        simp only [followL]
        refine NoInt.bind (ihS G st e hG hn.1 hw.1) (fun r hr => ?_)
        refine NoInt.bind (ihL G r.st rest hG hn.2 hw.2) (fun rr _ => ?_)
        obtain ⟨rr, st2⟩ := rr
        noint_leaf

mutual
theorem checkAst_noInt : ∀ (e : Expr), NoInt (checkAst e)
  | .name _ => by simp only [checkAst]; exact NoInt.ok _
  | .const c => by simp only [checkAst]; split <;> first | exact NoInt.ok _ | exact NoInt.valueError _
  | .attr v _ => by simp only [checkAst]; exact checkAst_noInt v
  | .call f args _ kwv => by
    simp only [checkAst]
    exact NoInt.bind (checkAst_noInt f) (fun _ _ => NoInt.bind (checkAstL_noInt args) (fun _ _ => checkAstL_noInt kwv))
  | .lam _ b => by simp only [checkAst]; exact checkAst_noInt b
  | .sub v s => by simp only [checkAst]; exact NoInt.bind (checkAst_noInt v) (fun _ _ => checkAst_noInt s)
  | .tuple es => by simp only [checkAst]; exact checkAstL_noInt es
  | .list es => by simp only [checkAst]; exact checkAstL_noInt es
  | .dict ks vs => by simp only [checkAst]; exact NoInt.bind (checkAstL_noInt ks) (fun _ _ => checkAstL_noInt vs)
  | .op _ args => by simp only [checkAst]; exact checkAstL_noInt args
  | .comp _ e t i ifs _ => by
    simp only [checkAst]
    exact NoInt.bind (checkAst_noInt e) (fun _ _ => NoInt.bind (checkAst_noInt t) (fun _ _ =>
      NoInt.bind (checkAst_noInt i) (fun _ _ => checkAstL_noInt ifs)))
theorem checkAstL_noInt : ∀ (es : List Expr), NoInt (checkAstL es)
  | [] => by simp only [checkAstL]; exact NoInt.ok _
  | e :: es => by simp only [checkAstL]; exact NoInt.bind (checkAst_noInt e) (fun _ _ => checkAstL_noInt es)
end

/-- **C10 (refusals)**: Select / SelectMany / Where on a stream whose items have an untyped type, given a one-parameter lambda
    that calls no registered function by name and is a tree the parser can produce: whatever the operator fails with is a
    designed refusal, never an internal error — for every class model. -/
theorem streamOp_untyped_no_internal (M : Model) (op : String) (itemTy : Ty) (x : String) (body : Expr) (err : Err)
    (hi : itemTy.untyped = true) (hn : noFuncCall M body = true) (hw : wfU body = true)
    (h : streamOp M op itemTy (.lam [x] body) = .error err) : err.designed = true := by
  have hG : GammaU [(x, itemTy)] := by
    intro y t hy
    simp only [gammaGet] at hy
    split at hy
    · cases hy; exact hi
    · cases hy
  refine (?_ : NoInt (streamOp M op itemTy (.lam [x] body))) err h
  simp only [streamOp]
  refine NoInt.bind ((follow_noInt M _).1 _ _ body hG hn hw) (fun rb _ => ?_)
  refine NoInt.bind (checkAst_noInt _) (fun _ _ => ?_)
  repeat' split
  all_goals noint_leaf

/-- Non-vacuity: the hypotheses hold of `{-1: 3, 'a': e.x}.a` (the expression that raised AttributeError before repo fix
    a2ed5f2) and of a tuple literal indexed by a constant. -/
example : wfU (.attr (.dict [.op (.un "USub") [.const (.int 1)], .const (.str "a")] [.const (.int 3), .attr (.name "e") "x"]) "a") = true := by
  decide
example : wfU (.sub (.tuple [.name "e", .const (.int 1)]) (.const (.int 1))) = true := by decide
example : wfU (.sub (.tuple [.name "e", .const (.int 1)]) (.const (.int (-3)))) = false := by decide

end Fadl
